"""C18  Output is deterministic across processes and independent of history.

Step A  Properties/C18.v (Coq): head_content names are a function of the rendered content;
        equal content occupies one resolved entry; under an injective content hash different
        content is never merged; metadata nodes do not reach the name.
Step B  implementation vs extracted model (driver c18): head_content (rendered content,
        name = 'headcontent_' + sha1(model content), version, payload length), TagList.render()
        (markup and resolved dependency order by object identity), _resolve_dependencies.
Step C  THE PROPERTY IS OBSERVED HERE: a fixed battery plus random batteries are built and
        rendered by harness/c18_worker.py in 8 (thorough 64) interpreter processes started with
        distinct PYTHONHASHSEED values (0, 1, random, ...) and distinct processing orders; every
        digest / dependency order / head_content name must be identical in all of them and equal
        to the in-process reference.  Further oracles (independent of the model): each
        head_content name is 'headcontent_' + hashlib.sha1(rendered content); over all pairs of
        the battery equal content <=> equal name; a document includes equal content once and
        different content separately, in first-occurrence order; extracted serialised
        dependencies come in first-occurrence order of their distinct payload strings; every item
        re-rendered at the end of the in-process run equals its first rendering and the rendering
        obtained without any history (isolated child / fresh interpreter); the URLs written for a
        package-sourced dependency are <lib_prefix>/<name>[-<version>]/<file> of that dependency.
        Items of kind "prog" are small PROGRAMS over the public construction / mutation API (Tag, the
        tags / svg functions, JSX components, TagList, attrs[...] / update / del, add_class / remove_class /
        has_class / add_style, append / extend / insert / +=, copy / deepcopy / tagify, css, consolidate_attrs)
        whose arguments come from pools of values that are equal under == / hash but of different types
        (True / 1 / 1.0, False / 0 / 0.0 / -0.0, text as str / str subclass / HTML / HTML subclass, -1 / -2),
        attribute names that meet after normalisation, class tokens that are prefixes / substrings / repeats
        of one another with several tokens per argument, dependencies with typed script / stylesheet / meta
        attribute values, and values of unsupported types (fault paths; the program goes on).  Only
        determinism is asked of them: same observation (texts, dependency order, query results, error
        classes) in every process, after every history, and when built again.
        After a difference has been seen (never on a clean run) the first report of each kind is explained:
        the texts instead of digests, whether the item alone differs between two hash seeds, and otherwise
        which single earlier item (found by halving the history in fresh interpreters) changes it.
"""
from __future__ import annotations

import glob
import hashlib
import json
import os
import subprocess
from concurrent.futures import ThreadPoolExecutor

from ..common import Ctx, S, unS, VERIF, REPO, PY, run_model, canon
from .. import trees
from .. import c18_worker as W

WORKER = os.path.join(VERIF, "harness", "c18_worker.py")
HC = W.HC_PREFIX
OPEN_TAG = '<script type="application/json" data-html-dependency="">'
CLOSE_TAG = "</script>"

V_PROC = "output differs between interpreter processes (hash seed / processing order)"
V_AGAIN = "rendering the same object again in the same process gives a different result"
V_NAME = "head_content name is not 'headcontent_' + sha1(rendered content)"
V_MERGE = "different head_content content got the same name"
V_SPLIT = "equal head_content content got different names"
V_DOC = "document does not include equal head_content once / different content separately in first-occurrence order"
V_EXTRACT = "extracted serialised dependencies are not in first-occurrence order of their distinct payloads"
V_UNIQUE = "unique() is not first-occurrence order"
V_HISTORY = "rendering depends on what was built or rendered earlier in the process"
V_URL = "a dependency's URLs in the document are not <lib_prefix>/<name>[-<version>]/<file> of that dependency"

ERR_NAME = {1: "RuntimeError", 2: "TypeError", 3: "TypeError", 4: "KeyError", 5: "ValueError",
            6: "RuntimeError", 7: "RecursionError"}


def jl(x):
    """tuples -> lists, the way the battery travels"""
    return json.loads(json.dumps(x))


def sha1(s: str) -> str:
    return hashlib.sha1(s.encode("utf-8")).hexdigest()


# ------------------------------------------------------------------------------------------
# hand-written head_content payloads with the content they must render to (written from the
# rendering rules, not computed)
# ------------------------------------------------------------------------------------------
NESTED_DEP = {"name": "nested", "version": "1", "script": {"src": "n.js"}}
HC_POOL = [
    ([["G", "meta", False, [["name", ["S", "m01"]]], []]], '<meta name="m01"/>'),
    ([["G", "meta", False, [["name", ["S", "m01"]]], []], ["M", None]], '<meta name="m01"/>'),
    ([["T", "<m03"]], "&lt;m03"),
    ([["H", "&lt;m03"]], "&lt;m03"),
    ([["H", "<m05>"]], "<m05>"),
    ([["G", "title", True, [], [["T", "m06"]]]], "<title>m06</title>"),
    ([["M", None], ["G", "title", True, [], [["T", "m06"]]], ["M", NESTED_DEP]], "<title>m06</title>"),
    ([["G", "script", True, [], [["T", "m08<&"]]],
      ["G", "link", False, [["rel", ["S", "x"]], ["href", ["H", "m08&amp;"]]], []]],
     '<script>m08<&</script>\n<link rel="x" href="m08&amp;"/>'),
    ([["R", "<m09/>"]], "<m09/>"),
    ([], ""),
    ([["M", None]], ""),
    ([["M", {"name": "only-a-dep", "version": "2.0"}]], ""),
    ([["T", "m11"], ["T", "b"]], "m11b"),
    ([["T", "m11b"]], "m11b"),
    ([["G", "style", True, [], [["T", "m12"], ["H", ">"]]]], "<style>\n  m12>\n</style>"),
    ([["G", "meta", False, [["name", ["S", "m16"]], ["content", ["S", "c"]]], []]], '<meta name="m16" content="c"/>'),
    ([["G", "meta", False, [["content", ["S", "c"]], ["name", ["S", "m16"]]], []]], '<meta content="c" name="m16"/>'),
]
MARKED = [c for _, c in HC_POOL if c]


def dep(name, version, **kw):
    return ["M", {"name": name, "version": version, **kw}]


def hc(i):
    return ["M", {"hc": HC_POOL[i][0]}]


def G(name, ws, attrs, kids):
    return ["G", name, ws, attrs, kids]


def ser(payload: dict) -> str:
    return OPEN_TAG + json.dumps(payload) + CLOSE_TAG


def text_item(iid: str, payloads: list[dict], given: list[dict], fillers: list[str]) -> dict:
    body = ""
    for i, p in enumerate(payloads):
        body += fillers[i % len(fillers)] + ser(p)
    text = "<html><head>@@HEAD@@</head><body>" + body + fillers[-1] + "@@HEAD@@</body></html>"
    return {"id": iid, "kind": "text", "text": text, "deps": given, "pattern": "@@HEAD@@",
            "_payloads": [ser(p) for p in payloads]}


# ------------------------------------------------------------------------------------------
# the fixed battery
# ------------------------------------------------------------------------------------------
def fixed_battery() -> list[dict]:
    items: list[dict] = [{"id": f"expr:{n}", "kind": "expr", "name": n} for n in W.EXPRS]
    # many dependencies with colliding names, at several depths
    coll = [("q", "1"), ("p", "2.0"), ("q", "1.0"), ("r", "3"), ("p", "2"), ("q", "0.9"), ("s", "1"),
            ("r", "3.0.1"), ("a", "1"), ("p", "10"), ("Q", "1"), ("s", "1.0.0"), ("zz", "0.0.1"), ("b", "1")]
    deps = [dep(n, v, script={"src": f"{n}-{v}.js"}, stylesheet=[{"href": f"{n}.css", "media": "all"}])
            for n, v in coll]
    items.append({"id": "fix:collide-flat", "kind": "tree", "descs": deps + [["T", "t"]], "doc_kw": []})
    items.append({"id": "fix:collide-nested", "kind": "tree", "doc_kw": [["lang", "en"], ["class", "c"]], "descs": [
        G("div", True, [], [deps[0], G("span", False, [], [deps[1], deps[2], ["T", "x"]]), deps[3],
                            G("p", True, [], [deps[4], G("b", False, [], [deps[5], deps[6]])]), deps[7]]),
        deps[8], G("ul", True, [], [G("li", True, [], [d]) for d in deps[9:]])]})
    items.append({"id": "fix:collide-reversed", "kind": "tree", "descs": list(reversed(deps)), "doc_kw": []})
    items.append({"id": "fix:collide-custom", "kind": "tree", "doc_kw": [], "descs": [
        ["C", None, [deps[9], G("div", True, [], [deps[2]])], True], deps[0], ["C", "<self/>", [deps[4]], False],
        G("div", True, [], [["C", None, [deps[1], ["T", "in"]], True], deps[5]])]})
    # head_content: equal / different / metadata-only-different content
    items.append({"id": "fix:hc-all", "kind": "tree", "doc_kw": [],
                  "descs": [G("body", True, [], [hc(i) for i in range(len(HC_POOL))])]})
    items.append({"id": "fix:hc-all-reversed", "kind": "tree", "doc_kw": [],
                  "descs": [G("div", True, [], [hc(i)]) for i in reversed(range(len(HC_POOL)))]})
    items.append({"id": "fix:hc-twice", "kind": "tree", "doc_kw": [["lang", "en"]],
                  "descs": [hc(0), G("div", True, [], [hc(0), ["T", "body text"], hc(5)]), hc(5), hc(0)]})
    items.append({"id": "fix:hc-with-deps", "kind": "tree", "doc_kw": [],
                  "descs": [deps[0], hc(6), deps[2], hc(5), G("p", True, [], [hc(7), deps[1]]), hc(11)]})
    items.append({"id": "fix:hc-html-root", "kind": "tree", "doc_kw": [["lang", "fr"]],
                  "descs": [G("html", True, [["data-a", ["S", "1"]]],
                              [G("head", True, [], [G("title", True, [], [["T", "T"]])]),
                               G("body", True, [], [hc(2), hc(3), hc(4), deps[3]])])]})
    # attributes in various orders
    a6 = [["id", ["S", "i"]], ["class", ["S", "a b"]], ["href", ["H", "?a=1&amp;b=2"]], ["data-x", ["S", "<&>\"'"]],
          ["title", ["S", "t\n"]], ["style", ["S", "s"]], ["a:b", ["S", ""]], ["viewBox", ["S", "0 0"]]]
    perms = [a6, list(reversed(a6)), a6[3:] + a6[:3], sorted(a6), a6[1::2] + a6[0::2]]
    for k, p in enumerate(perms):
        items.append({"id": f"fix:attrs-{k}", "kind": "tree", "doc_kw": [],
                      "descs": [G("a", False, p, [["T", "k"], G("img", False, list(reversed(p)), [])])]})
    items.append({"id": "fix:attr-dicts", "kind": "tree", "doc_kw": [], "descs": [
        ["K", "div", [{"id": "a", "class": "k1", "data-b": "b"}, {"class": "k2", "data-a": "a", "data-c": "c"}],
         [["class_", "k3"], ["data_z", "z"], ["aria_label", "L"], ["hidden", True], ["skip", None]], [["T", "x"]]],
        ["K", "span", [{f"data-{c}": c for c in "hgfedcba"}], [[f"x{c}", c] for c in "qponmlk"], []]]})
    # class / style values merged from several sources with REPEATED tokens (a set()-based
    # de-duplication would order them by hash)
    items.append({"id": "fix:attr-merge-repeats", "kind": "tree", "doc_kw": [["class", "r1 r2 r1 r3"]], "descs": [
        ["K", "div", [{"class": "b a b c", "style": "x:1; x:1;"}, {"class": "a d zeta alpha", "style": "y:2;"}],
         [["class_", "b e a omega"], ["style_", "x:1;"]], [["T", "x"]]],
        ["K", "p", [{"class": "k k k j"}, {"class_": "j i k"}, {"class": "h"}], [["class_", "k"]], []],
        ["K", "span", [{"class": " ".join(f"c{i % 7}" for i in range(20))}], [["class_", "c3 c9 c1"]], []]]})
    # texts with several serialised dependencies (the 0.6.0 ordering bug)
    P = [{"name": "zeta", "version": "1.0", "script": {"src": "z.js"}},
         {"name": "alpha", "version": "2.1", "stylesheet": [{"href": "a.css"}], "head": "<meta name='h'>"},
         {"name": "mid", "version": "1.10", "source": {"href": "https://x.example/mid"}, "script": [{"src": "m.js"}]},
         {"name": "zeta", "version": "2.0", "script": {"src": "z2.js"}},
         {"name": "beta", "version": "0.1", "meta": [{"name": "n", "content": "c"}], "all_files": False},
         {"name": "omega", "version": "3.0"}, {"name": "b", "version": "1.0"}, {"name": "a", "version": "1.0"},
         {"name": "c", "version": "1.0"}, {"name": "B", "version": "1.0"}, {"name": "10", "version": "1.0"}]
    items.append(text_item("fix:text-distinct", P, [], ["", "<p>x</p>", "\n"]))
    items.append(text_item("fix:text-dups", [P[0], P[1], P[0], P[2], P[1], P[3], P[0], P[4], P[5], P[5], P[2]],
                           [{"name": "given", "version": "1.0"}, {"name": "zeta", "version": "0.5"}],
                           ["<div>", "</div>", "text", ""]))
    items.append(text_item("fix:text-reversed", list(reversed(P)) + P, [], [" "]))
    items.append(text_item("fix:text-none", [], [{"name": "given", "version": "1.0"}], ["<p>no deps</p>"]))
    items.extend(pkg_battery())
    items.extend(fixed_progs())
    items.append({"id": "fix:resolve", "kind": "resolve",
                  "deps": [{"name": n, "version": v} for n, v in coll + list(reversed(coll))]})
    items.append({"id": "fix:unique", "kind": "unique",
                  "values": ["b", "a", "b", "zeta", "a", "c", "10", "B", "c", "", "omega", "b", "é", "d", "e", "f", "a"]})
    return items


# package-sourced dependencies: the files shipped in htmltools/lib
PKG_SUBDIRS = {"lib/react": "react.production.min.js", "lib/react-dom": "react-dom.production.min.js",
               "lib": "react/react.production.min.js"}
DOC_OPTS = [["lib", True], ["lib", False], [None, True], [None, False], ["static/libs", True], ["", True]]


def pkg_dep(name: str, version: str, subdir: str, extra: bool = False) -> list:
    p = {"name": name, "version": version, "source": {"package": "htmltools", "subdir": subdir},
         "script": {"src": PKG_SUBDIRS[subdir]}}
    if extra:
        p["stylesheet"] = [{"href": "theme.css"}]
    return ["M", p]


def pkg_item(iid: str, deps: list, opts: list, wrap: str = "div") -> dict:
    """one document per item, so that every process meets these dependencies in its own order"""
    kids = [["T", "app"]] + deps
    return {"id": iid, "kind": "tree", "descs": [G(wrap, True, [], kids)], "doc_kw": [], "doc_opts": opts,
            "_pkg": True}


def pkg_battery() -> list[dict]:
    items = []
    specs = [("react", "17.0.2", "lib/react"), ("react", "18.2.0", "lib/react"), ("react", "16.14.0", "lib/react"),
             ("react", "17.0.2", "lib/react-dom"), ("react", "17.0.2", "lib"), ("react-dom", "17.0.2", "lib/react-dom"),
             ("react-dom", "18.2.0", "lib/react-dom"), ("react-dom", "18.2", "lib/react-dom"), ("react", "18.2.0", "lib")]
    for k, (n, v, sd) in enumerate(specs):
        items.append(pkg_item(f"fix:pkg-{k}-{n}-{v}-{sd.replace('/', '_')}", [pkg_dep(n, v, sd, extra=k % 2 == 1)],
                              DOC_OPTS[k % 2::2] + DOC_OPTS[:1]))
    # two of them in one document (different names), and the colliding pair (resolved to the higher)
    items.append(pkg_item("fix:pkg-two", [pkg_dep("react", "18.2.0", "lib/react"),
                                          pkg_dep("react-dom", "16.0.0", "lib/react-dom")], DOC_OPTS))
    items.append(pkg_item("fix:pkg-collide", [pkg_dep("react", "17.0.2", "lib/react"),
                                              pkg_dep("react", "17.10.0", "lib/react")], DOC_OPTS, wrap="body"))
    return items


def rand_pkg_item(rng, iid: str) -> dict:
    deps = []
    for name in rng.sample(["react", "react-dom", "r"], rng.choice([1, 1, 2])):
        deps.append(pkg_dep(name, rng.choice(["1.0", "1.1", "2.0", "17.0.2", "18.2.0"]),
                            rng.choice(sorted(PKG_SUBDIRS)), extra=rng.random() < 0.3))
    return pkg_item(iid, deps, rng.sample(DOC_OPTS, rng.choice([1, 2, 3])), wrap=rng.choice(["div", "body", "span"]))


def expected_urls(item: dict, lib_prefix, include_version: bool) -> list[str]:
    """written from the documented layout: <lib_prefix>/<name>-<version>/<file>"""
    import posixpath
    out = []
    for d in item["descs"][0][4]:
        if d[0] != "M":
            continue
        p = d[1]
        href = p["name"] + ("-" + p["version"] if include_version else "")
        if lib_prefix:
            href = posixpath.join(lib_prefix, href)
        out.append('<script src="%s"></script>' % posixpath.join(href, p["script"]["src"]))
        for st in p.get("stylesheet", []):
            out.append('<link href="%s" rel="stylesheet"/>' % posixpath.join(href, st["href"]))
    return out


# ------------------------------------------------------------------------------------------
# random batteries (ctx.rng only)
# ------------------------------------------------------------------------------------------
RAND_HC = [
    [["T", "a"]], [["T", "a"], ["M", None]], [["H", "a"]], [["T", "<"]], [["H", "&lt;"]], [["H", "<"]],
    [["G", "title", True, [], [["T", "t"]]]], [["G", "title", False, [], [["T", "t"]]]],
    [["G", "title", True, [], [["T", "t"]]], ["M", NESTED_DEP]],
    [["G", "meta", False, [["name", ["S", "a"]], ["content", ["S", "b"]]], []]],
    [["G", "meta", False, [["content", ["S", "b"]], ["name", ["S", "a"]]], []]],
    [], [["M", None]], [["R", "a"]], [["T", "a"], ["T", ""]], [["T", ""], ["T", "a"]],
    [["G", "div", True, [], [["T", "a"], ["G", "p", True, [], []]]]],
    [["G", "div", True, [], [["T", "a"], ["M", None], ["G", "p", True, [], []]]]],
]


def rand_hc_payload(rng, malformed: bool) -> list:
    r = rng.random()
    if malformed and r < 0.5:
        # an un-expanded tagifiable object somewhere in the arguments
        c = ["C", rng.choice([None, None, "<c/>"]), [["T", "e"]], True]
        base = jl(rng.choice(RAND_HC))
        if base and base[0][0] == "G" and rng.random() < 0.5:
            base[0][4].append(c)
        else:
            base.insert(rng.randrange(len(base) + 1), c)
        return base
    if r < 0.7:
        return jl(rng.choice(RAND_HC))
    n = rng.choice([1, 1, 2, 3])
    return [jl(trees.rand_child(rng, rng.choice([0, 1, 2]), leaves="THRM", names="bivs")) for _ in range(n)]


def inject(rng, d, malformed: bool):
    """replace some bare metadata nodes by head_content nodes / richer dependencies"""
    k = d[0]
    if k == "M":
        if d[1] is None and rng.random() < 0.5:
            return ["M", {"hc": rand_hc_payload(rng, malformed)}]
        if isinstance(d[1], dict) and rng.random() < 0.4:
            p = dict(d[1])
            p["script"] = [{"src": rng.choice(["a.js", "b c.js", "é.js"]), "defer": "", "type": "module"}][: rng.choice([0, 1])]
            p["meta"] = [{"name": "n", "content": trees.rand_text(rng, 4)}][: rng.choice([0, 1])]
            return ["M", p]
        return d
    if k == "G":
        return ["G", d[1], d[2], d[3], [inject(rng, x, malformed) for x in d[4]]]
    if k == "C":
        return ["C", d[1], [inject(rng, x, malformed) for x in d[2]], d[3]]
    return d


def rand_tree_item(rng, iid: str, malformed: bool) -> dict:
    n = rng.choice([1, 1, 2, 3])
    descs = []
    for _ in range(n):
        d = jl(trees.rand_child(rng, rng.choice([1, 2, 3, 3, 4]), leaves="THRMMDDD", names="bbivsc",
                                custom=True, maxkids=5))
        descs.append(inject(rng, d, malformed))
    kw = rng.choice([[], [], [["lang", "en"]], [["class", "k"], ["data_q", "1"]]])
    return {"id": iid, "kind": "tree", "descs": descs, "doc_kw": kw}


def rand_hcdoc_item(rng, iid: str) -> dict:
    """tags only, head_content nodes from HC_POOL: the document oracle applies"""
    def kids(depth):
        out = []
        for _ in range(rng.choice([1, 2, 2, 3, 4])):
            r = rng.random()
            if depth > 0 and r < 0.3:
                name, ws = trees.rand_name(rng, "bi")
                out.append(G(name, ws, [], kids(depth - 1)))
            elif r < 0.85:
                out.append(hc(rng.randrange(len(HC_POOL))))
            else:
                out.append(["T", rng.choice(["body", "text", ""])])
        return out
    return {"id": iid, "kind": "tree", "descs": kids(2), "doc_kw": [], "_hcdoc": True}


def exhaustive_hc_items(k: int) -> list[dict]:
    """bounded-exhaustive: every ordered k-tuple of pool payloads in one document (the second in a
    nested tag), so every pair of payloads meets in both orders"""
    import itertools
    out = []
    for combo in itertools.product(range(len(HC_POOL)), repeat=k):
        kids = [hc(combo[0]), G("div", True, [], [hc(i) for i in combo[1:]])]
        out.append({"id": "tuple:" + ":".join(map(str, combo)), "kind": "tree", "descs": kids, "doc_kw": [],
                    "_hcdoc": True})
    return out


def rand_text_item(rng, iid: str) -> dict:
    pool = [{"name": rng.choice(["a", "b", "c", "zeta", "A", "10"]), "version": rng.choice(["1.0", "2.1", "1.10"]),
             **rng.choice([{}, {"script": {"src": "s.js"}}, {"head": "<x>"}, {"stylesheet": [{"href": "h.css"}]}])}
            for _ in range(rng.choice([2, 3, 5, 8]))]
    seq = [rng.choice(pool) for _ in range(rng.choice([2, 4, 6, 10, 16]))]
    given = [{"name": rng.choice(["g", "a"]), "version": "1.0"}][: rng.choice([0, 1])]
    fill = [rng.choice(["", "\n", "<p>t</p>", "</script>", "<script>", trees.rand_text(rng, 5)]) for _ in range(3)]
    return text_item(iid, seq, given, fill)


def rand_battery(rng, n: int, tag: str) -> list[dict]:
    items = []
    for i in range(n):
        r = rng.random()
        iid = f"{tag}:{i}"
        if r < 0.10:
            items.append(rand_pkg_item(rng, iid))
        elif r < 0.55:
            items.append(rand_tree_item(rng, iid, malformed=False))
        elif r < 0.62:
            items.append(rand_tree_item(rng, iid, malformed=True))
        elif r < 0.80:
            items.append(rand_hcdoc_item(rng, iid))
        elif r < 0.90:
            items.append(rand_text_item(rng, iid))
        elif r < 0.96:
            names = rng.sample(["a", "b", "c", "jq", "A", "zz", "b2"], rng.choice([2, 3, 5]))
            items.append({"id": iid, "kind": "resolve", "deps": [
                {"name": rng.choice(names), "version": rng.choice(["1", "1.0", "1.9", "1.10", "2", "0.0.1"])}
                for _ in range(rng.choice([2, 4, 7, 12]))]})
        else:
            vals = [rng.choice(["a", "b", "c", "dd", "e", "", "10", "B", "é"]) for _ in range(rng.choice([3, 6, 12]))]
            items.append({"id": iid, "kind": "unique", "values": vals})
    return items


# ------------------------------------------------------------------------------------------
# programs over the public construction / mutation API (item kind "prog", see c18_worker.Prog)
#
# What the pools are built for (each is a CLASS of inputs on which a value-keyed memo, a set(), a
# hash()-derived name or a position-by-substring shortcut goes wrong, while ordinary inputs do not):
#   * attribute values / children / css values that are EQUAL under == and hash alike but are of
#     different types and must be written differently: True / 1 / 1.0, False / 0 / 0.0 / -0.0,
#     's' / HTML('s') / str-subclass('s') / HTML-subclass('s'), 10**20 / 1e20, -1 / -2 (same hash);
#   * attribute names that meet after normalisation (class_ / class / className, data_x / data-x);
#   * class tokens that are prefixes / substrings of one another, repeated tokens, all kinds of
#     white space, several tokens in ONE argument of add_class / remove_class / has_class;
#   * operation sequences on one object (and on copies of it) through every mutating method.
# ------------------------------------------------------------------------------------------
def H(s):
    return {"h": s}


def U(s):
    return {"u": s}


EQ_VALUES = [True, False, None, 1, 0, 1.0, 0.0, -0.0, -1, -1.0, -2, -2.0, 2, 2.0, 1.5, 0.5, 10, 10.0,
             10 ** 20, 1e20, 1e-07, 3, 3.0,
             "1", "0", "1.0", "0.0", "-0.0", "", "True", "False", "None", "2", "x", "a<b", "a&lt;b", 'q"q', "it's",
             H("1"), H("0"), H(""), H("x"), H("a<b"), H("a&lt;b"), H('q"q'), H("1.0"), H("True"),
             U("1"), U("0"), U(""), U("x"), U("a<b"), U('q"q'), U("True"), U("1.0"),
             {"hs": "1"}, {"hs": "a<b"}, {"hs": ""}]
BAD_VALUES = [{"x": "obj"}, {"x": "bytes"}, {"x": "list"}, {"x": "complex"}]
PROG_KEYS = ["class", "class_", "className", "id", "id_", "style", "style_", "hidden", "disabled", "checked",
             "value", "opacity", "cx", "cy", "r", "tabindex", "data_x", "data-x", "data_x_", "data__x",
             "aria_label", "aria-label", "for_", "for", "http_equiv", "title", "href", "x_", "X", "x",
             "viewBox", "xlink:href", "fill_opacity", "fill-opacity", "min", "max"]
CLASS_TOKENS = ["btn", "btn-primary", "btn-lg", "nav", "nav-link", "nav-item", "a", "ab", "abc", "b", "bc", "c",
                "active", "act", "show", "sh", "x", "xx", "é", "A", "col", "col-1", "col-10"]
STYLES = ["color: red;", "top: 0;", "a:1;", "a:1; b:2;", "b:2;", H("font-family: 'X';"), U("b:2;"), H("a:1;"),
          "nosemicolon", "", ";", None, 1, {"css": [["color", "red"], ["top", 0]]}]
TEXTS = ["a<b", "a&lt;b", "1", "1.0", "", "x", "True", "&amp;", "t\n", 'q"q']
TAG_FNS = [("tags", n) for n in ("div", "span", "a", "p", "input", "img", "ul", "li", "button", "script", "style",
                                 "textarea", "pre", "option", "select", "b", "meta", "link")] + \
          [("svg", n) for n in ("svg", "circle", "rect", "g", "path", "text", "line")]
CSS_KEYS = ["color", "font_size", "font-size", "fontSize", "margin_top", "z_index", "opacity", "top", "a", "B", "_x"]


def rand_class_string(rng, tokens=None) -> str:
    toks = [rng.choice(tokens or CLASS_TOKENS) for _ in range(rng.choice([1, 1, 2, 2, 3, 3, 4, 5, 6]))]
    if len(toks) > 1 and rng.random() < 0.3:
        toks.insert(rng.randrange(len(toks) + 1), rng.choice(toks))       # a repeated token
    s = toks[0]
    for t in toks[1:]:
        s += rng.choice([" ", " ", " ", "  ", "\t", "\n"]) + t
    if rng.random() < 0.15:
        s = rng.choice([" ", "\t"]) + s
    if rng.random() < 0.15:
        s = s + rng.choice([" ", "\n"])
    return s


def rand_class_value(rng, tokens=None):
    r = rng.random()
    s = rand_class_string(rng, tokens)
    if r < 0.80:
        return s
    if r < 0.88:
        return H(s)
    if r < 0.94:
        return U(s)
    return rng.choice([None, "", True, False, 1, 1.0, 0])


def rand_value(rng):
    r = rng.random()
    if r < 0.85:
        return rng.choice(EQ_VALUES)
    if r < 0.90:
        return rng.choice(BAD_VALUES)
    if r < 0.95:
        t = trees.rand_text(rng, 6)
        return rng.choice([t, H(t), U(t)])
    return {"css": [[rng.choice(CSS_KEYS), rng.choice(EQ_VALUES)] for _ in range(rng.choice([1, 2, 3]))]}


def typed_dep(rng) -> list:
    """a dependency whose script / stylesheet / meta items carry non-string attribute values"""
    def extras(keys):
        return [[k, rng.choice([True, False, 1, 0, 1.0, 0.0, "", "1", None, "x"])]
                for k in rng.sample(keys, rng.choice([1, 2, 3]))]
    p = {"name": rng.choice(["typed", "a", "b"]), "version": rng.choice(["1.0", "1.10", "2"])}
    if rng.random() < 0.8:
        p["script"] = [dict([["src", rng.choice(["s.js", "t u.js"])]] +
                            extras(["async", "defer", "nomodule", "data-n", "crossorigin", "type"]))
                       for _ in range(rng.choice([1, 1, 2]))]
    if rng.random() < 0.5:
        p["stylesheet"] = [dict([["href", "c.css"]] + extras(["disabled", "media", "data-w", "title"]))]
    if rng.random() < 0.3:
        p["meta"] = [dict([["name", "n"], ["content", "c"]] + extras(["data-k", "lang", "hidden"]))]
    return ["M", p]


def rand_kid(rng, nregs: int, lower: int | None = None, jsx: bool = False):
    """lower: only registers below this index may be referenced (parents have the higher index:
    no cycles)"""
    r = rng.random()
    hi = nregs if lower is None else lower
    if hi > 0 and r < 0.2:
        return {"r": rng.randrange(hi)}
    if r < 0.45:
        t = rng.choice(TEXTS)
        return t if jsx else rng.choice([t, t, H(t), U(t), {"hs": t}, {"n": ["R", t]}])
    if r < 0.6:
        return rng.choice([1, 1.0, 0, 0.0, -0.0, True, False, None, 2.5, 10 ** 20, 1e20, -1, -2])
    if r < 0.75:
        return {"n": jl(trees.rand_child(rng, rng.choice([0, 1, 2]), leaves="THRMDD", names="bivs", maxkids=3))}
    if r < 0.85:
        return {"n": typed_dep(rng)}
    if r < 0.9:
        return {"n": hc(rng.randrange(len(HC_POOL)))}
    if r < 0.95:
        return {"l": [rand_kid(rng, nregs, lower, jsx) for _ in range(rng.choice([0, 1, 2, 3]))]}
    return rng.choice(BAD_VALUES)


def rand_attr_pairs(rng, profile: str) -> list:
    out = []
    for _ in range(rng.choice([0, 1, 1, 2, 2, 3, 4, 6])):
        k = rng.choice(PROG_KEYS)
        if k.rstrip("_") in ("class", "className") and rng.random() < 0.8:
            out.append([k, rand_class_value(rng)])
        elif k.rstrip("_") == "style" and rng.random() < 0.7:
            out.append([k, rng.choice(STYLES)])
        else:
            out.append([k, rand_value(rng)])
    if profile == "class" and not any(k.rstrip("_") == "class" for k, _ in out):
        out.append([rng.choice(["class", "class_"]), rand_class_value(rng)])
    return out


def rand_args(rng, nregs: int, profile: str, jsx: bool = False) -> list:
    args = []
    for _ in range(rng.choice([0, 1, 1, 2, 3, 4])):
        if not jsx and rng.random() < 0.35:
            args.append({"a": rand_attr_pairs(rng, profile)})
        else:
            args.append(rand_kid(rng, nregs, jsx=jsx))
    return args


def rand_creator(rng, nregs: int, profile: str) -> list:
    r = rng.random()
    kw = rand_attr_pairs(rng, profile)
    if profile == "jsx" and r < 0.6:
        props = [[k, rng.choice([v, v, {"l": [v, 1, 1.0, True]}, {"d": [["k", v], ["j", 1.0]]}, {"js": "() => 1"}])]
                 for k, v in kw]
        if nregs and rng.random() < 0.4:
            props.append(["slot", {"r": rng.randrange(nregs)}])
        return ["jsx", rng.choice(["Foo", "Foo.Bar", "MyTag"]), rand_args(rng, nregs, profile, jsx=True), props]
    if r < 0.45:
        name, ws = trees.rand_name(rng, "bbiivsc")
        return ["tag", name, rng.choice([None, ws, ws, not ws]), rand_args(rng, nregs, profile), kw]
    if r < 0.8:
        mod, name = rng.choice(TAG_FNS)
        return ["fn", mod, name, rand_args(rng, nregs, profile), kw]
    if r < 0.88:
        return ["cons", rand_args(rng, nregs, profile), kw]
    if r < 0.94 and nregs:
        return [rng.choice(["copy", "deepcopy", "tagify"]), rng.randrange(nregs)]
    return ["list", [rand_kid(rng, nregs) for _ in range(rng.choice([0, 1, 2, 3]))]]


def rand_mutator(rng, nregs: int, profile: str) -> list:
    i = rng.randrange(nregs)
    r = rng.random()
    if profile == "class":
        r *= 0.5
    if r < 0.12:
        return ["add_class", i, rand_class_value(rng), rng.random() < 0.3]
    if r < 0.30:
        # one name, several names, names that are not there, names with white space around
        v = rand_class_value(rng, CLASS_TOKENS + ["zz", "nope"])
        return ["remove_class", i, v]
    if r < 0.38:
        return ["has_class", i, rand_class_string(rng)]
    if r < 0.44:
        return ["add_style", i, rng.choice(STYLES), rng.random() < 0.3]
    if r < 0.50:
        return ["attrs", i] if rng.random() < 0.5 else ["render", i]
    if r < 0.60:
        return ["set", i, rng.choice(PROG_KEYS), rand_value(rng)]
    if r < 0.70:
        return ["upd", i, [rand_attr_pairs(rng, profile) for _ in range(rng.choice([0, 1, 2]))],
                rand_attr_pairs(rng, profile)]
    if r < 0.74:
        return ["del", i, rng.choice(["class", "style", "id", "hidden", "data-x"])]
    if r < 0.78:
        return ["get", i, rng.choice(["class", "style", "id", "hidden", "data-x", "value"])]
    if r < 0.90:
        op = rng.choice(["append", "extend", "iadd"])
        return [op, i, [rand_kid(rng, nregs, lower=i) for _ in range(rng.choice([1, 1, 2, 3]))]]
    if r < 0.94:
        return ["insert", i, rng.choice([0, 0, 1, -1, 5]), rand_kid(rng, nregs, lower=i)]
    if r < 0.97:
        return ["css", [[rng.choice(CSS_KEYS), rng.choice(EQ_VALUES + [{"l": ["a", "b"]}])]
                        for _ in range(rng.choice([0, 1, 2, 4]))], rng.choice(["", "", "\n", " "])]
    return ["escape", rng.choice(TEXTS + [trees.rand_text(rng, 6)]), rng.random() < 0.5]


def rand_prog_item(rng, iid: str) -> dict:
    profile = rng.choice(["class", "class", "typed", "typed", "mixed", "mixed", "jsx"])
    steps = [rand_creator(rng, 0, profile)]
    nregs = 1
    for _ in range(rng.choice([0, 1, 2, 3, 4, 6, 9])):
        if rng.random() < 0.25:
            steps.append(rand_creator(rng, nregs, profile))
            nregs += 1
        else:
            steps.append(rand_mutator(rng, nregs, profile))
    kw = rng.choice([[], [], [["lang", "en"]], [["hidden", True], ["data_n", 1.0]], [["class", "k"], ["tabindex", 0]],
                     [["data_n", 1], ["lang", U("en")]]])
    return {"id": iid, "kind": "prog", "steps": steps, "doc_kw": kw}


def fixed_progs() -> list[dict]:
    """hand-written members of the classes above; each construction is its own item, so that every
    process meets them in its own order and each is also rendered without any history"""
    def item(name, steps, kw=()):
        return {"id": "fix:prog-" + name, "kind": "prog", "steps": steps, "doc_kw": [list(x) for x in kw]}
    out = []
    # the same attribute written with ==-equal values of different types, one construction per item
    for j, vals in enumerate([[True, False], [1, 0], [1.0, 0.0], ["1", "0"], [H("1"), H("0")], [U("1"), U("0")],
                              [-0.0, 2.0], [2, "2"], [10 ** 20, 1e20], [-1, -2], [-1.0, -2.0], ["", H("")]]):
        a, b = vals
        out.append(item(f"eq-kw-{j}", [["fn", "tags", "input", [], [["hidden", a], ["disabled", b], ["value", a],
                                                                     ["tabindex", b]]]]))
        out.append(item(f"eq-svg-{j}", [["fn", "svg", "circle", [{"a": [["cx", b], ["cy", a]]}],
                                         [["opacity", a], ["fill_opacity", b], ["r", a]]]]))
        out.append(item(f"eq-set-{j}", [["tag", "div", None, [a, b, "t"], []], ["set", 0, "data-v", a],
                                        ["upd", 0, [[["data-w", b]], [["data-w", a]]], [["data_v", b]]],
                                        ["attrs", 0]], kw=[["data_n", a], ["hidden", b]]))
        out.append(item(f"eq-css-{j}", [["css", [["opacity", a], ["z_index", b], ["top", a]], ""],
                                        ["fn", "tags", "p", ["t"], [["style", {"css": [["opacity", b], ["top", a]]}]]]]))
        out.append(item(f"eq-dep-{j}", [["tag", "div", None, [{"n": ["M", {
            "name": "typed", "version": "1.0", "script": {"src": "s.js", "async": a, "defer": b, "data-n": a},
            "stylesheet": [{"href": "c.css", "disabled": b, "data-w": a}]}]}], []]]))
        out.append(item(f"eq-jsx-{j}", [["jsx", "Foo", ["kid"], [["open", a], ["count", b],
                                                                 ["opts", {"d": [["k", a], ["l", {"l": [a, b]}]]}]]]]))
    # the same text as a plain string, trusted markup, subclass instances: children and attributes
    for j, t in enumerate(["a<b", "a&lt;b", 'q"q', "1"]):
        for k, v in enumerate([t, H(t), U(t), {"hs": t}, {"n": ["R", t]}]):
            out.append(item(f"text-{j}-{k}", [["tag", "div", None, [v, {"a": [["title", v if k < 4 else t]]}],
                                               [["class_", v if k < 4 else t]]],
                                              ["add_class", 0, v if k < 4 else t, False]]))
    # attribute names that meet after normalisation, in several orders
    names = ["class", "class_", "className", "data_x", "data-x", "data_x_", "for_", "for"]
    for j, order in enumerate([names, list(reversed(names)), names[1::2] + names[0::2]]):
        out.append(item(f"names-{j}", [["tag", "label", None, [{"a": [[n, f"v{i}"] for i, n in enumerate(order[:4])]}],
                                        [[n, f"w{i}"] for i, n in enumerate(order[4:])]],
                                       ["upd", 0, [[[n, "u"] for n in order]], []], ["attrs", 0]]))
    # class tokens that are prefixes / substrings of one another, repeated, with all kinds of white space
    cls = ["btn-primary btn nav-link nav-item nav", "abc ab a bc b c", "col-10 col-1 col", "x xx x\txx\nx",
           " active  act show sh ", "a b c d e f g h", "nav nav-link nav", "btn btn btn-lg btn"]
    rem = ["btn", "nav btn", "zz nope", "x", " a  c ", "col-1 col", "show zz", "nav-link\tnav", "a b c", "act active zz"]
    for j, c in enumerate(cls):
        for k, rm in enumerate(rem):
            if (j + k) % 2:
                continue
            out.append(item(f"class-{j}-{k}", [
                ["fn", "tags", "div", ["t"], [["class_", c]]], ["remove_class", 0, rm], ["attrs", 0],
                ["has_class", 0, rm], ["add_class", 0, rm, k % 3 == 0], ["remove_class", 0, rem[(k + 3) % len(rem)]],
                ["copy", 0], ["remove_class", 1, rem[(k + 5) % len(rem)]], ["add_class", 1, c, True],
                ["render", 0]]))
    # styles
    out.append(item("styles", [["fn", "tags", "p", [], [["style", "a:1;"]]], ["add_style", 0, "b:2;", False],
                               ["add_style", 0, H("c:'3';"), True], ["add_style", 0, "a:1;", False],
                               ["add_style", 0, "nosemicolon", False], ["add_style", 0, U("d:4;"), True],
                               ["deepcopy", 0], ["add_style", 1, "e:5;", False], ["attrs", 0], ["attrs", 1]]))
    # children through every route, numbers among them
    out.append(item("children", [["tag", "ul", True, [1, 1.0, True, 0, 0.0, False, None, "1"], []],
                                 ["append", 0, [2, 2.0, {"l": [3, [3.0]]}]], ["extend", 0, [H("<i>"), U("<i>"), "<i>"]],
                                 ["insert", 0, 0, -0.0], ["iadd", 0, [10 ** 20, 1e20]], ["tagify", 0], ["copy", 0],
                                 ["append", 2, ["only in the copy"]], ["render", 0], ["render", 1], ["render", 2]]))
    out.append(item("faults", [["tag", "div", None, [{"x": "obj"}], []], ["tag", "div", None, ["k"], [["id", {"x": "bytes"}]]],
                               ["tag", "div", None, ["k"], [["id", "i"]]], ["set", 2, "a", {"x": "complex"}],
                               ["upd", 2, [[["b", 1.0], ["c", {"x": "list"}], ["d", True]]], []], ["attrs", 2],
                               ["append", 2, ["ok", {"x": "obj"}]], ["add_class", 2, {"x": "obj"}, False],
                               ["fn", "tags", "span", [1.0], [["hidden", True]]]]))
    return out


# ------------------------------------------------------------------------------------------
# walking descriptions
# ------------------------------------------------------------------------------------------
def walk(d, f):
    f(d)
    k = d[0]
    if k == "G" or k == "K":
        for x in d[4]:
            walk(x, f)
    elif k == "C":
        for x in d[2]:
            walk(x, f)
    elif k == "M" and isinstance(d[1], dict) and "hc" in d[1]:
        for x in d[1]["hc"]:
            walk(x, f)


def item_stats(item: dict) -> dict:
    st = {"deps": 0, "hc": 0, "attrs": 0, "K": 0, "C": 0}

    def f(d):
        if d[0] == "M" and isinstance(d[1], dict):
            st["hc" if "hc" in d[1] else "deps"] += 1
        elif d[0] == "G":
            st["attrs"] = max(st["attrs"], len(d[3]))
        elif d[0] == "K":
            st["K"] += 1
            st["attrs"] = max(st["attrs"], sum(len(x) for x in d[2]) + len(d[3]))
        elif d[0] == "C":
            st["C"] += 1
    for d in item.get("descs", []):
        walk(d, f)
    return st


def nontrivial(item: dict) -> bool:
    if item["kind"] != "tree":
        return True
    st = item_stats(item)
    return st["deps"] + st["hc"] >= 1 or st["attrs"] >= 2


def release(v: str) -> list[int]:
    return [int(x) for x in v.split(".")]


class SxEnc:
    """description -> sx for the model, numbering dependencies like c18_worker.Builder
    (construction order; a head_content dependency before the dependencies of its payload)"""

    def __init__(self, hc_names: dict):
        self.next = 0
        self.hc_names = hc_names
        self.bad = False

    def meta(self, p):
        if p is None:
            # a bare MetadataNode is not a dependency: the model has no such payload; it is
            # dropped by the caller
            raise AssertionError
        my = self.next
        self.next += 1
        if "hc" in p:
            for x in p["hc"]:
                self.node(x)           # advances the numbering like Builder does
            name = self.hc_names.get(canon(p["hc"]))
            if name is None:
                self.bad = True
                name = ""
            return [S(name), [0, 0], my]
        return [S(p["name"]), release(p["version"]), my]

    def node(self, d):
        k = d[0]
        if k == "T":
            return [[0, S(d[1])]]
        if k == "H":
            return [[1, S(d[1])]]
        if k == "R":
            return [[2, S(d[1])]]
        if k == "M":
            if d[1] is None:
                # MetadataNode(): invisible to rendering and to dependency collection.  The model's
                # Meta payload type here is dep, so the node is omitted (C07: no trace).
                return []
            return [[3, self.meta(d[1])]]
        if k == "G":
            kids = [y for x in d[4] for y in self.node(x)]
            return [[4, S(d[1]), 1 if d[2] else 0,
                     [[S(key), [1 if m == "H" else 0, S(v)]] for key, (m, v) in d[3]], kids]]
        if k == "C":
            exp = [y for x in d[2] for y in self.node(x)]
            return [[5, [] if d[1] is None else [S(d[1])], exp]]
        raise ValueError(d)

    def nodes(self, descs):
        return [y for d in descs for y in self.node(d)]


def has_kind(item: dict, kind: str) -> bool:
    found = []
    for d in item.get("descs", []):
        walk(d, lambda x: found.append(1) if x[0] == kind else None)
    return bool(found)


# ------------------------------------------------------------------------------------------
# subprocesses
# ------------------------------------------------------------------------------------------
def wire(items: list[dict]) -> str:
    return json.dumps({"items": [{k: v for k, v in it.items() if not k.startswith("_")} for it in items]},
                      ensure_ascii=True)


def run_worker(battery_json: str, hashseed: str, order_seed: int, isolated: bool = False,
               raw_ids: list[str] | None = None) -> dict:
    env = dict(os.environ)
    env["PYTHONHASHSEED"] = hashseed
    env["PYTHONPATH"] = REPO
    env["VERIF_REPO"] = REPO
    try:
        p = subprocess.run([PY, WORKER, str(order_seed)] + (["--isolated"] if isolated else []) +
                           ["--raw=" + i for i in (raw_ids or [])], input=battery_json, stdout=subprocess.PIPE,
                           stderr=subprocess.PIPE, env=env, text=True, timeout=900, cwd="/")
    except subprocess.TimeoutExpired:
        return {"failed": "timeout"}
    if p.returncode != 0:
        return {"failed": f"exit {p.returncode}: {p.stderr[-1500:]}"}
    try:
        return json.loads(p.stdout)
    except ValueError:
        return {"failed": "unparsable output: " + p.stdout[-500:]}


def hash_seeds(rng, n: int) -> list[str]:
    seeds = ["0", "1", "random", "4294967295"]
    while len(seeds) < n:
        s = "random" if len(seeds) % 8 == 7 else str(rng.randrange(2, 2**32 - 1))
        if s == "random" or s not in seeds:
            seeds.append(s)
    return seeds[:n]


# ------------------------------------------------------------------------------------------
# oracles on the in-process reference
# ------------------------------------------------------------------------------------------
def first_occ(xs: list) -> list:
    out = []
    for x in xs:
        if x not in out:
            out.append(x)
    return out


def hc_contents_in_order(item: dict) -> list[str]:
    """expected contents of the HC_POOL nodes of an hcdoc item, in document order"""
    by_payload = {canon(p): c for p, c in HC_POOL}
    out = []

    def f(d):
        if d[0] == "M" and isinstance(d[1], dict) and "hc" in d[1]:
            out.append(by_payload[canon(d[1]["hc"])])
    for d in item["descs"]:
        # pool payloads contain no head_content themselves, so walk() only meets top-level ones
        walk(d, f)
    return out


def check_reference(ctx: Ctx, items: list[dict], ref: dict) -> list:
    """oracles that need one process only; returns the (name, content) log of the battery"""
    log = []
    for it in items:
        o = ref[it["id"]]
        for name, content in o.get("_hc_raw", []):
            log.append((name, content))
            if name != HC + sha1(content):
                ctx.violation(V_NAME, it, {"impl_output": name, "expected": HC + sha1(content), "content": content})
        if it["kind"] in ("tree", "expr", "prog"):
            if o.get("html", ["err"])[0] == "ok" and (o["html_again"] != o["html"] or o["str"] != o["html"]):
                ctx.violation(V_AGAIN, it, {"impl_output": [o["html_again"], o["str"]], "expected": o["html"]})
            # no name twice among the dependencies of a rendering
            for key in ("deps", "doc_deps"):
                names = [r[0] for r in o.get(key, [])]
                if len(set(names)) != len(names):
                    ctx.violation(V_DOC, it, {"impl_output": names, "expected": "each name once"})
        if it.get("_hcdoc") and o.get("doc", ["err"])[0] == "ok":
            contents = hc_contents_in_order(it)
            want = [HC + sha1(c) for c in first_occ(contents)]
            got = [r[0] for r in o["doc_deps"] if r[0].startswith(HC)]
            html = o["_doc_raw"]
            # every pool content carries marker tokens mNN (prefix-free): each distinct content is
            # written to the document exactly once
            import re
            marks = sorted(set(re.findall(r"m\d\d", "".join(contents))))
            counts = {m: html.count(m) for m in marks}
            expect_counts = {m: sum(c.count(m) for c in set(contents)) for m in marks}
            if got != want or counts != expect_counts:
                ctx.violation(V_DOC, it, {"impl_output": {"names": got, "occurrences": counts},
                                          "expected": {"names": want, "occurrences": expect_counts}})
        if it.get("_pkg") and o.get("doc", ["err"])[0] == "ok":
            # colliding names in one document: only the resolved (kept) dependencies are written
            kept = {r[2] for r in o["doc_deps"]}
            settings = [["lib", True, o["_doc_raw"]]] + [
                [v[0], v[1], raw] for v, raw in zip(o.get("doc_variants", []), o.get("_doc_variants_raw", []))
                if v[2][0] == "ok"]
            metas = [d for d in it["descs"][0][4] if d[0] == "M"]
            for lib_prefix, incl, html in settings:
                sub = dict(it)
                sub["descs"] = [G("x", True, [], [m for i, m in enumerate(metas) if i in kept])]
                want = expected_urls(sub, lib_prefix, incl)
                missing = [u for u in want if html.count(u) != 1]
                if missing:
                    ctx.violation(V_URL, {k: v for k, v in it.items() if not k.startswith("_")},
                                  {"lib_prefix": lib_prefix, "include_version": incl, "expected": missing,
                                   "impl_output": [l.strip() for l in html.splitlines()
                                                   if "<script src" in l or "<link href" in l]})
        if it["kind"] == "text" and o["text"][0] == "ok":
            r = o["text"][1]
            ext = []
            for s in first_occ(it["_payloads"]):
                p = json.loads(s[len(OPEN_TAG):-len(CLOSE_TAG)])
                ext.append([p["name"], p["version"]])
            want = [[p["name"], p["version"]] for p in it["deps"]] + ext
            if r["deps"] != want or r["static"] != ext:
                ctx.violation(V_EXTRACT, it, {"impl_output": {"deps": r["deps"], "static": r["static"]},
                                              "expected": {"deps": want, "static": ext}})
        if it["kind"] == "unique" and o["unique"] != ["ok", first_occ(it["values"])]:
            ctx.violation(V_UNIQUE, it, {"impl_output": o["unique"], "expected": first_occ(it["values"])})
    # all pairs: equal content <=> equal name
    by_content: dict = {}
    by_name: dict = {}
    for name, content in log:
        if by_content.setdefault(content, name) != name:
            ctx.violation(V_SPLIT, {"content": content}, {"impl_output": [by_content[content], name],
                                                          "expected": "one name"})
        if by_name.setdefault(name, content) != content:
            ctx.violation(V_MERGE, {"contents": [by_name[name], content]},
                          {"impl_output": name, "expected": "two names"})
    return log


# ------------------------------------------------------------------------------------------
# correspondence with the extracted model
# ------------------------------------------------------------------------------------------
def correspondence(ctx: Ctx, items: list[dict], ref: dict, label: str) -> None:
    from htmltools import MetadataNode, TagList, head_content

    # ---- op 1: every distinct head_content payload of the battery ------------------------
    payloads: dict = {}
    for it in items:
        for d in it.get("descs", []):
            walk(d, lambda x: payloads.setdefault(canon(x[1]["hc"]), x[1]["hc"])
                 if x[0] == "M" and isinstance(x[1], dict) and "hc" in x[1] else None)
    for p, _ in HC_POOL:
        payloads.setdefault(canon(p), p)
    keys = sorted(payloads)
    # no payload with attribute-dict tags (K) reaches the model
    keys = [k for k in keys if not any(has_kind({"descs": [d]}, "K") for d in payloads[k])]
    # (op 3 travels in the same model run: one driver start-up less)
    rcases = [it for it in items if it["kind"] == "resolve"]
    model_all = run_model([[1, SxEnc({}).nodes(payloads[k])] for k in keys] +
                          [[3, [[S(p["name"]), release(p["version"]), i] for i, p in enumerate(it["deps"])]]
                           for it in rcases], driver="c18")
    model, model3 = model_all[:len(keys)], model_all[len(keys):]
    hc_names: dict = {}
    dis = []
    expected_pool = {canon(p): c for p, c in HC_POOL}
    pool_bad = []
    for k, m in zip(keys, model):
        kids = payloads[k]

        def impl():
            b = W.Builder()
            built = [b.node(x) for x in kids]
            h = head_content(*built)
            # bare MetadataNode objects are not dependencies: the model (Meta payload = dep) omits them
            n_head = sum(1 for x in h.head if type(x) is not MetadataNode)
            return [h.name, str(h.version), n_head, TagList(*built).get_html_string()]
        iv = W.safe(impl)
        if isinstance(m, tuple) or m == [999999, 999999]:
            dis.append({"case": kids, "impl_output": iv, "model_output": repr(m)})
            continue
        mc, mh = m
        if mc[0] == 0:
            content = unS(mc[1])
            mname, mver, mlen = unS(mh[1][0]), mh[1][1], mh[1][2]
            # the model's name is prefix ++ H(content) with H the identity; with H = SHA-1:
            mv = ["ok", [HC + sha1(content), ".".join(str(x) for x in mver), mlen, content]]
            if mname != HC + content:
                dis.append({"case": kids, "model_output": mname, "expected": HC + content})
            hc_names[k] = HC + sha1(content)
        else:
            mv = ["err", ERR_NAME[mc[1]]]
            if mh != [1, mc[1]]:
                dis.append({"case": kids, "model_output": mh, "expected": "the rendering error"})
        if mv != iv:
            dis.append({"case": kids, "impl_output": iv, "model_output": mv})
        if k in expected_pool and iv[0] == "ok" and iv[1][3] != expected_pool[k]:
            pool_bad.append({"case": kids, "impl_output": iv[1][3], "expected": expected_pool[k]})
    ctx.corr_cases += len(keys)
    ctx.obligation(f"correspondence head_content: content, name = prefix + sha1(model content), version, "
                   f"payload ({label}, {len(keys)} payloads)", not dis)
    if dis:
        ctx.extra.setdefault("disagreements", []).extend(dis[:3])
    ctx.obligation(f"hand-written expected contents of the head_content pool ({label})", not pool_bad)
    if pool_bad:
        ctx.extra["disagree_pool"] = pool_bad[:3]

    # ---- op 2: TagList.render() of the tree items ------------------------------------------
    cases, sxs = [], []
    for it in items:
        if it["kind"] != "tree" or has_kind(it, "K"):
            continue
        enc = SxEnc(hc_names)
        nodes = enc.nodes(it["descs"])
        o = ref[it["id"]]
        if enc.bad:
            # some head_content of the item fails in the model: the construction must fail alike
            if o["build"] != ["err", "RuntimeError"]:
                dis.append({"case": it, "impl_output": o["build"], "model_output": ["err", "RuntimeError"]})
            continue
        cases.append(it)
        sxs.append([2, nodes])
    model = run_model(sxs, driver="c18")
    dis2 = []
    for it, m in zip(cases, model):
        o = ref[it["id"]]
        if isinstance(m, tuple) or m == [999999, 999999]:
            dis2.append({"case": it, "model_output": repr(m)})
            continue
        if o["build"][0] != "ok":
            dis2.append({"case": it, "impl_output": o["build"], "model_output": "builds"})
            continue
        mh, mids = m
        if mh[0] == 0:
            mv = {"html": ["ok", W.digest(unS(mh[1]))], "ids": mids}
            iv = {"html": o["html"], "ids": [r[2] for r in o.get("deps", [])]}
        else:
            mv = {"html": ["err", ERR_NAME[mh[1]]]}
            iv = {"html": o["html"]}
        if mv != iv:
            dis2.append({"case": it, "impl_output": iv, "model_output": mv,
                         "impl_html": o.get("_html_raw"), "model_html": unS(mh[1]) if mh[0] == 0 else None})
    ctx.corr_cases += len(cases)
    ctx.obligation(f"correspondence TagList.render(): markup and resolved dependency order ({label}, "
                   f"{len(cases)} items)", not dis2)
    if dis2:
        dis2.sort(key=lambda d: len(canon(d["case"])))
        ctx.extra.setdefault("disagreements", []).extend(dis2[:3])

    # ---- op 3: _resolve_dependencies ---------------------------------------------------------
    dis3 = []
    for it, m in zip(rcases, model3):
        iv = ref[it["id"]]["resolve"]
        mv = ["ok", [[it["deps"][i]["name"], it["deps"][i]["version"], i] for i in m]] \
            if not isinstance(m, tuple) else repr(m)
        if iv != mv:
            dis3.append({"case": it, "impl_output": iv, "model_output": mv})
    ctx.corr_cases += len(rcases)
    ctx.obligation(f"correspondence _resolve_dependencies order ({label}, {len(rcases)} lists)", not dis3)
    if dis3:
        ctx.extra.setdefault("disagreements", []).extend(dis3[:3])


# ------------------------------------------------------------------------------------------
# after a difference has been seen: show it (texts instead of digests) and look for its cause
# ------------------------------------------------------------------------------------------
def plain(it: dict) -> dict:
    return {k: v for k, v in it.items() if not k.startswith("_")}


def differing(a, b) -> list:
    return sorted(k for k in set(a or {}) | set(b or {}) if (a or {}).get(k) != (b or {}).get(k))


def first_of(ctx: Ctx, what: str) -> bool:
    """ctx.violation keeps the first report of each kind: the costly explanations are made for that one only"""
    return len(ctx.violations) < 5 and not any(v["what"] == what for v in ctx.violations)


def texts(o: dict | None) -> dict:
    return {k[1:-4]: o[k] for k in ("_html_raw", "_doc_raw") if o and k in o}


def one_run(items: list[dict], it: dict, hashseed: str) -> dict | None:
    """the items, then `it`, in this order in a fresh interpreter; the observation of `it` with its texts"""
    out = run_worker(wire(items + [it]), hashseed, 0, raw_ids=[it["id"]])
    return None if "failed" in out else out["results"].get(it["id"])


def explain(pool: ThreadPoolExecutor, items: list[dict], it: dict, hashseed: str) -> dict:
    """`it` alone in a fresh interpreter (PYTHONHASHSEED=hashseed) against `it` after the given other items
    (in the given order): if the observations differ, halve the history down to one earlier item (when one
    is enough)."""
    alone = one_run([], it, hashseed)
    out = {"alone": alone}
    if alone is None:
        return out
    base = W.strip_raw(alone)
    # the item itself, built and rendered once before (under another id)
    twin = dict(it, id=it["id"] + "#the-same-construction-before")
    again = one_run([twin], it, hashseed)
    if again is not None and W.strip_raw(again) != base:
        out["history"], out["after_history"] = [twin], again
        return out
    cands = list(items)
    full = one_run(cands, it, hashseed)
    if full is None or W.strip_raw(full) == base:
        return out
    out["after_all"] = full
    while len(cands) > 1:
        a, b = cands[:len(cands) // 2], cands[len(cands) // 2:]
        fa, fb = pool.submit(one_run, a, it, hashseed), pool.submit(one_run, b, it, hashseed)
        ra, rb = fa.result(), fb.result()
        if ra is not None and W.strip_raw(ra) != base:
            cands, full = a, ra
        elif rb is not None and W.strip_raw(rb) != base:
            cands, full = b, rb
        else:
            break               # no half is enough on its own
    out["history"] = cands
    out["after_history"] = full
    return out


def history_detail(ex: dict, hashseed: str) -> dict:
    d = {}
    if ex.get("alone") is None:
        return d
    d["texts_alone"] = texts(ex["alone"])
    if ex.get("history") is not None:
        h = ex["history"]
        d["earlier_items"] = [plain(x) for x in h] if len(h) <= 3 else \
            {"count": len(h), "first": plain(h[0]), "note": "no half of these is enough on its own"}
        d["fields_changed_by_the_earlier_items"] = differing(W.strip_raw(ex["alone"]), W.strip_raw(ex["after_history"]))
        d["texts_after_the_earlier_items"] = texts(ex["after_history"])
        d["reproduce"] = ("fresh interpreter, PYTHONHASHSEED=%s: build and render earlier_items, then this item; "
                          "compare with this item alone" % hashseed)
    else:
        d["earlier_items"] = ("not found: the battery items that came before this one do not change it in a fresh "
                              "interpreter with PYTHONHASHSEED=%s (in the process of ./check the fault prelude runs "
                              "before the battery)" % hashseed)
    return d


# ------------------------------------------------------------------------------------------
def process_battery(ctx: Ctx, items: list[dict], configs: list[tuple[str, int]], label: str,
                    pool: ThreadPoolExecutor, n_fresh: int = 12) -> dict:
    ids = [it["id"] for it in items]
    assert len(set(ids)) == len(ids)
    bj = wire(items)
    # the history-free reference runs use the hash seed of one of the worker processes (the first that is
    # not "random"): that worker and the reference differ by the history only.  (The hash seed of THIS process
    # is whatever ./check was started with.)
    h_conf = next((k for k, (hs, _) in enumerate(configs) if hs != "random"), 0)
    h_seed = configs[h_conf][0]
    explains_left = [2]                                    # searches for the earlier item that matters (costly)
    futures = [pool.submit(run_worker, bj, hs, os_) for hs, os_ in configs]
    # references without history: (a) every item in its own forked child of a process that has
    # only imported htmltools (two shards), (b) a sample -- all package-sourced items first -- each
    # in a really fresh interpreter that is given that one item only
    shards = [items[0::2], items[1::2]] if len(items) > 1 else [items]
    iso_futures = [pool.submit(run_worker, wire(sh), h_seed, 1 + k, True)
                   for k, sh in enumerate(shards)]
    fresh_items = ([it for it in items if it.get("_pkg") and it["id"].startswith("fix:")] +
                   [it for it in items if not it.get("_pkg")][:: max(1, len(items) // n_fresh)])[: n_fresh + 11]
    fresh_futures = [pool.submit(run_worker, wire([it]), h_seed, 1)
                     for k, it in enumerate(fresh_items)]
    # in-process reference (natural order) while the workers run
    ref = {it["id"]: W.observe(jl({k: v for k, v in it.items() if not k.startswith("_")}), raw=True)
           for it in items}
    ref_plain = {k: jl(W.strip_raw(v)) for k, v in ref.items()}
    for it in items:
        ctx.count({"item": it["id"], "battery": label, "where": "in-process"}, nontrivial(it),
                  f"{it['kind']} (in-process reference)")
    check_reference(ctx, items, ref)
    correspondence(ctx, items, ref, label)

    by_id = {it["id"]: it for it in items}
    failed, probes, wrong_import, mode_bad = [], set(), [], []
    n_diff = 0
    w_h = None                      # the results of the worker that ran with h_seed
    for ci, ((hs, os_), fu) in enumerate(zip(configs, futures)):
        out = fu.result()
        if ci == h_conf and "failed" not in out:
            w_h = out["results"]
        if "failed" in out:
            failed.append({"hashseed": hs, "order_seed": os_, "why": out["failed"]})
            continue
        meta = out["meta"]
        probes.add(meta["hash_probe"])
        if not meta["htmltools_file"].startswith(os.path.abspath(REPO) + os.sep):
            wrong_import.append(meta["htmltools_file"])
        if meta["mode_after"] != "invisible":
            mode_bad.append(meta)
        for iid in ids:
            it = by_id[iid]
            ctx.count({"item": iid, "battery": label, "hashseed": hs, "order": os_}, nontrivial(it),
                      f"{it['kind']} (subprocess)")
            got = out["results"].get(iid)
            if got != ref_plain[iid]:
                n_diff += 1
                fields = differing(got, ref_plain[iid])
                detail = {"fields": fields, "hashseed": hs, "order_seed": os_,
                          "impl_output": {k: (got or {}).get(k) for k in fields},
                          "expected": {k: ref_plain[iid].get(k) for k in fields},
                          "note": "impl_output = worker process; expected = the process of ./check (its own hash "
                                  "seed, natural order)"}
                if first_of(ctx, V_PROC):
                    # what the difference looks like, and what it depends on
                    detail["expected_texts"] = texts(ref[iid])
                    other = next(x for x in ("0", "1", "2") if x != hs)
                    a1 = one_run([], it, hs) if hs != "random" else None
                    a0 = one_run([], it, other)
                    if a1 is not None and a0 is not None and W.strip_raw(a1) != W.strip_raw(a0):
                        detail["impl_texts"] = texts(a1)
                        detail["texts_with_another_hash_seed"] = texts(a0)
                        detail["cause"] = ("the hash seed: this item alone in a fresh interpreter gives impl_texts with "
                                           "PYTHONHASHSEED=%s and texts_with_another_hash_seed with PYTHONHASHSEED=%s"
                                           % (hs, other))
                    elif hs != "random" and explains_left[0] > 0:
                        explains_left[0] -= 1
                        if a1 is not None and jl(W.strip_raw(a1)) == got:
                            # the worker agrees with the item alone: the in-process run is the one that deviates
                            before = items[:ids.index(iid)]
                            who = "the process of ./check (natural order)"
                        else:
                            # the items that came before this one in that worker, in its order
                            import random as _random
                            perm = list(range(len(items)))
                            _random.Random(os_).shuffle(perm)          # as c18_worker.main does
                            before = [items[j] for j in perm[:perm.index(ids.index(iid))]]
                            who = "that worker process"
                        ex = explain(pool, before, it, hs)
                        detail.update(history_detail(ex, hs))
                        detail["cause"] = ("what was built or rendered earlier in %s: the item alone in a fresh interpreter "
                                           "gives texts_alone" % who)
                ctx.violation(V_PROC, plain(it), detail)
    # ---- history: at the end of the run (everything has been built and rendered in this process)
    # every item once more; against its first rendering and against the history-free references
    for it in reversed(items):
        end_raw = W.observe(jl(plain(it)), raw=True)
        end = jl(W.strip_raw(end_raw))
        ctx.count({"item": it["id"], "battery": label, "where": "in-process, end of run"}, nontrivial(it),
                  f"{it['kind']} (in-process, re-rendered at the end)")
        if end != ref_plain[it["id"]]:
            fields = differing(end, ref_plain[it["id"]])
            detail = {"fields": fields, "impl_output": {k: end.get(k) for k in fields},
                      "expected": {k: ref_plain[it["id"]].get(k) for k in fields},
                      "note": "impl_output = the item rendered again at the end of the in-process run; "
                              "expected = its first rendering in the same process"}
            if first_of(ctx, V_HISTORY):
                detail["impl_texts"], detail["expected_texts"] = texts(end_raw), texts(ref[it["id"]])
                if explains_left[0] > 0:
                    explains_left[0] -= 1
                    others = [x for x in items if x["id"] != it["id"]]
                    detail.update(history_detail(explain(pool, others, it, h_seed), h_seed))
            ctx.violation(V_HISTORY, plain(it), detail)
    iso_failed = []
    for what, futs, groups in (("forked child of a process that rendered nothing", iso_futures, shards),
                               ("fresh interpreter given this item only", fresh_futures, [[x] for x in fresh_items])):
        for fu, group in zip(futs, groups):
            out = fu.result()
            if "failed" in out:
                iso_failed.append({"what": what, "why": out["failed"]})
                continue
            probes.add(out["meta"]["hash_probe"])
            for it in group:
                got = out["results"].get(it["id"])
                ctx.count({"item": it["id"], "battery": label, "where": what}, nontrivial(it),
                          f"{it['kind']} ({'isolated child' if futs is iso_futures else 'fresh interpreter'})")
                # against the worker that ran with the same hash seed (it built and rendered other items before
                # this one); a difference from the in-process run alone has been reported above (that worker
                # then differs from the in-process run)
                with_history = w_h.get(it["id"]) if w_h is not None else ref_plain[it["id"]]
                if got != with_history:
                    fields = differing(got, with_history)
                    detail = {"fields": fields, "impl_output": {k: (with_history or {}).get(k) for k in fields},
                              "expected": {k: (got or {}).get(k) for k in fields},
                              "note": "impl_output = %s; expected = %s (PYTHONHASHSEED=%s)"
                                      % ("worker process (PYTHONHASHSEED=%s) after other items" % h_seed
                                         if w_h is not None else "in-process run after other items", what, h_seed)}
                    if first_of(ctx, V_HISTORY) and explains_left[0] > 0:
                        explains_left[0] -= 1
                        if w_h is not None:
                            import random as _random
                            perm = list(range(len(items)))
                            _random.Random(configs[h_conf][1]).shuffle(perm)        # as c18_worker.main does
                            before = [items[j] for j in perm[:perm.index(ids.index(it["id"]))]]
                        else:
                            before = items[:ids.index(it["id"])]
                        detail.update(history_detail(explain(pool, before, it, h_seed), h_seed))
                    ctx.violation(V_HISTORY, plain(it), detail)
    ctx.obligation(f"history-free reference runs completed ({label}: every item in an isolated child, "
                   f"{len(fresh_items)} items in fresh interpreters)", not iso_failed)
    if iso_failed:
        ctx.extra["proof_log_tail"] = json.dumps(iso_failed[:2])[-2500:]
    ctx.obligation(f"worker processes completed ({label}, {len(configs)} processes)", not failed)
    if failed:
        ctx.extra["proof_log_tail"] = json.dumps(failed[:2])[-2500:]
    ctx.obligation(f"workers imported htmltools from {REPO} and left the render mode restored ({label})",
                   not wrong_import and not mode_bad)
    return {"probes": probes, "diffs": n_diff, "processes": len(configs) - len(failed)}


def run(ctx: Ctx, only_items: list[dict] | None = None) -> None:
    rng = ctx.rng
    ctx.rule = ("A fixed hand-written battery (public-API constructions with attribute dicts / css / class helpers, "
                "14 dependencies with colliding names flat, nested, reversed and inside tagifiable objects, every "
                "head_content payload of a 17-entry pool with equal / different / metadata-only-different content, "
                "8 attributes in 5 orders, texts with duplicated and interleaved serialised dependencies, "
                "_resolve_dependencies and unique() inputs; hand-written programs over the public construction / mutation API: "
                "the same attribute / child / css value / dependency attribute / JSX prop written with ==-equal values of "
                "different types, one construction per item; the same text as str / str subclass / HTML / HTML subclass; "
                "attribute names that meet after normalisation; class strings whose tokens are prefixes / substrings / "
                "repeats of one another under remove_class / add_class / has_class with one and several names; style and "
                "children helpers; fault steps) plus random programs of 1..10 steps over the same pools "
                "(profiles class / typed / mixed / jsx) plus random batteries from the seeded PRNG (random trees "
                "depth <= 4 with dependencies, MetadataNodes, head_content nodes and tagifiable objects; tag-only "
                "documents over the head_content pool; texts with 2..16 serialised dependencies drawn with repetition; "
                "dependency lists; string lists; package-sourced dependencies (htmltools/lib) with colliding names and different versions, colliding (name, version) with different subdirs, one document per item, rendered under several lib_prefix / include_version settings) plus, bounded-exhaustively, every ordered pair (thorough: triple) of pool payloads in one document.  Every battery is built and rendered in-process and in N interpreter "
                "processes with distinct PYTHONHASHSEED (0, 1, random, 4294967295, PRNG-drawn) each in its own "
                "permutation of the items; in addition every item is re-rendered in-process at the end of the run and rendered without history (in a forked child of a process that rendered nothing; a sample, all fixed package-sourced items included, in a fresh interpreter given that item only).  An evaluation = one item in one process; non-trivial = the item has a "
                "dependency / head_content / >= 2 attributes or is a text / list / program item; distinct = (item, process).")
    ctx.assumptions = [
        "process-level determinism is observed on the sampled hash seeds and orders, not proved (DESIGN C18: PARTIAL)",
        "SHA-1 injectivity is an explicit premise of C18_distinct* (no collision among the battery's contents is checked)",
        "the extracted OCaml model behaves as the Gallina model",
        "CPython's PYTHONHASHSEED is the only per-process source of hash variation (str/bytes hashing)",
    ]
    ctx.proof()

    nproc = ctx.budget(8, 64)
    nbat = 1 if ctx.quick else 4
    per = nproc // nbat
    seeds = hash_seeds(rng, nproc)
    fixed = fixed_battery()
    for path in sorted(glob.glob(os.path.join(VERIF, "corpus", "C18", "*.json"))):
        with open(path, encoding="utf-8") as f:
            for j, it in enumerate(json.load(f)["items"]):
                it = ensure_payloads(dict(it))
                it["id"] = f"corpus:{os.path.basename(path)}:{j}"
                fixed.append(it)
    probes: set = set()
    total = {"diffs": 0, "processes": 0}
    with ThreadPoolExecutor(max_workers=16) as pool:
        for b in range(nbat):
            if only_items is not None:
                items = only_items
            else:
                items = fixed + rand_battery(rng, ctx.budget(800, 2500), f"rand{b}")
                items += [rand_prog_item(rng, f"prog{b}:{i}") for i in range(ctx.budget(300, 1500))]
                if b == 0:
                    items = items + exhaustive_hc_items(ctx.budget(2, 3))
            configs = [(seeds[b * per + j], rng.randrange(1, 2**31)) for j in range(per)]
            r = process_battery(ctx, items, configs, f"battery {b}", pool, n_fresh=ctx.budget(12, 96))
            probes |= r["probes"]
            total["diffs"] += r["diffs"]
            total["processes"] += r["processes"]
    # the processes really hashed strings differently (otherwise the experiment shows nothing)
    ctx.obligation("worker processes ran with different string hashes", len(probes) >= min(4, nproc // 2))
    ctx.extra["processes"] = total["processes"]
    ctx.extra["distinct_string_hash_probes"] = len(probes)
    ctx.extra["hash_seeds"] = seeds[:12]
    ctx.extra["cross_process_differences"] = total["diffs"]


def ensure_payloads(c: dict) -> dict:
    """text items stored without the generator's payload list (corpus, replays): recover the
    serialised elements from the text for the extraction oracle"""
    if c.get("kind") == "text" and "_payloads" not in c:
        import re
        c["_payloads"] = [OPEN_TAG + m + CLOSE_TAG for m in
                          re.findall(re.escape(OPEN_TAG) + r"((?:.|\r|\n)*?)" + re.escape(CLOSE_TAG), c["text"])]
    return c


def replay(ctx: Ctx, path: str) -> None:
    with open(path, encoding="utf-8") as f:
        r = json.load(f)
    print(json.dumps(r, indent=1)[:4000])
    c = r.get("case")
    if isinstance(c, dict) and "kind" in c and "id" in c:
        ensure_payloads(c)
        ctx.tier = "quick"
        # the item inside the fixed battery: a failure that needs a history (something built or
        # rendered before it) does not show on the item alone
        fixed = fixed_battery()
        have = {it["id"] for it in fixed}
        # the earlier items that the report found to matter (generated ones are not in the fixed battery)
        earlier = (r.get("detail") or {}).get("earlier_items")
        extra = [ensure_payloads(dict(x)) for x in earlier if isinstance(x, dict) and x.get("id") not in have] \
            if isinstance(earlier, list) else []
        if c["id"] not in have:
            extra.append(c)
        run(ctx, only_items=fixed + extra)
    else:
        run(ctx)

"""C05  No whitespace is ever injected into inline content."""
from __future__ import annotations

import re

from ..common import Ctx, S, unS, differential, run_model
from .. import trees
from ..trees import build, to_sx, safe_call, res_decode

from htmltools import TagList

EOLS = ["\n", "\r\n", "", " ", "\n\n"]


def inline_only(d):
    k = d[0]
    if k == "G":
        return (not d[2]) and all(inline_only(x) for x in d[4])
    if k == "C":
        return d[1] is not None
    return True


def runs_of(d, out):
    """maximal runs of adjacent inline-only children (metadata allowed inside a run),
    at every level: (escape flag, [children])"""
    if d[0] != "G":
        return
    esc = d[1] not in ("script", "style")
    cur = []
    for k in d[4]:
        if inline_only(k):
            cur.append(k)
        else:
            if cur:
                out.append((esc, cur))
            cur = []
            runs_of(k, out)
    if cur:
        out.append((esc, cur))


# ---- whitespace-at-block-edges oracle: trees whose tag names tell the flag ------------
SENT = "\x01"


def edge_tree(rng, depth, counter):
    kind = rng.choice("bbiivV")
    counter[0] += 1
    if kind == "b":
        name, ws = f"b{counter[0]}", True
    elif kind == "i":
        name, ws = f"i{counter[0]}", False
    elif kind == "v":
        name, ws = "br", False
    else:
        name, ws = "hr", True
    kids = []
    if depth > 0:
        for _ in range(rng.choice([0, 1, 2, 2, 3, 4])):
            r = rng.random()
            if r < 0.55:
                kids.append(edge_tree(rng, depth - 1, counter))
            elif r < 0.75:
                kids.append(("T", rng.choice(["x", "a b", "<", "y z"])))
            elif r < 0.85:
                kids.append(("H", rng.choice(["<u>h</u>", "h"])))
            elif r < 0.91:
                kids.append(("R", "<em>r</em>"))
            elif r < 0.95:
                kids.append(("F",))          # a self-rendering object whose _repr_html_() raises
            else:
                kids.append(("M", None))
    return ("G", name, ws, [], kids)


# layout whitespace = the sentinel eol followed by indentation, OR a bare run of two or more
# spaces (indentation emitted without an eol); text leaves of edge trees hold single spaces only
TOK = re.compile(r"(\x01 *| {2,})|(</?[a-z0-9]+/?>)|((?:[^< \x01]| (?! ))+|<)")


def build_edge(d):
    from ..faults import FaultyRepr
    from htmltools import Tag
    if d[0] == "F":
        return FaultyRepr()
    if d[0] == "G":
        return Tag(d[1], *[build_edge(k) for k in d[4]], _add_ws=d[2])
    return build(d)


def edges_ok(out: str) -> str | None:
    toks = [m.group(0) for m in TOK.finditer(out)]
    def is_block_tag(t):
        return t.startswith("<") and len(t) > 1 and (t.strip("</>").startswith("b") and t.strip("</>") != "br"
                                                     or t.strip("</>") == "hr")
    for idx, t in enumerate(toks):
        def is_ws(x):
            return x.startswith(SENT) or (len(x) >= 2 and x.strip(" ") == "")
        if not is_ws(t):
            continue
        j = idx - 1
        while j >= 0 and is_ws(toks[j]):
            j -= 1
        k = idx + 1
        while k < len(toks) and is_ws(toks[k]):
            k += 1
        before = toks[j] if j >= 0 else None
        after = toks[k] if k < len(toks) else None
        if not ((before and is_block_tag(before)) or (after and is_block_tag(after))):
            return f"layout whitespace between {before!r} and {after!r}, neither a whitespace-enabled tag"
    return None


def build_list(items):
    memo: dict = {}
    return TagList(*[build(d, True, memo) for d in items])


def run(ctx: Ctx) -> None:
    rng = ctx.rng
    ctx.rule = ("unrestricted random trees over {block, inline, void, script/style tags, text, HTML, repr-object, "
                "metadata}, block-inside-inline nestings included, depth <= 5, indent 0..4, 5 eol strings; oracle "
                "per maximal run of adjacent inline-only siblings at every level (flat form from the Coq spec must "
                "be a substring of the implementation's output) and a token-level whitespace-at-block-edges check "
                "with a sentinel eol. Non-trivial = tree has an inline run of >= 2 items next to a block sibling; "
                "distinct = canonical (tree, indent, eol).")
    ctx.assumptions = ["the extracted OCaml model/spec behave as their Gallina sources"]
    ctx.proof()

    cases = []
    for _ in range(ctx.budget(3000, 50000)):
        d = trees.rand_tree(rng, rng.choice([1, 2, 3, 3, 4, 5]), leaves="TTHRM", names="bbiiivsck", flip_ws=0.2)
        cases.append((d, rng.randrange(0, 5), rng.choice(EOLS)))

    cases = ctx.select("Tag.get_html_string (unrestricted trees)", cases)
    cases = type(cases)(tuple(c)[:3] for c in cases)
    # flat forms of every inline run, from the extracted specification
    reqs, owner = [], []
    for ci, (d, i, eol) in enumerate(cases):
        rs = []
        runs_of(d, rs)
        if inline_only(d):
            rs.append((True, [d]))
        for esc, items in rs:
            for it in items:
                reqs.append([5, to_sx(it), 1 if esc else 0])
                owner.append((ci, id(items)))
        cases[ci] = (d, i, eol, rs)
    flats = run_model(reqs)
    pos = 0
    want_runs: dict[int, list[str]] = {}
    for ci, (d, i, eol, rs) in enumerate(cases):
        acc = []
        for esc, items in rs:
            s = ""
            for it in items:
                m = flats[pos]
                pos += 1
                assert m[0] == 1
                s += unS(m[1])
            acc.append(s)
        want_runs[ci] = acc
    index_of = {id(c): ci for ci, c in enumerate(cases)}

    def default_runs(c):
        return want_runs[index_of[id(c)]]

    def nontriv(c):
        return any(len([x for x in items if x[0] != "M"]) >= 2 for _, items in c[3]) and not inline_only(c[0])

    def oracle(c, out):
        if out[0] != "ok":
            return None
        for s in want_runs[index_of[id(c)]]:
            if s not in out[1]:
                return f"inline run {s!r} does not appear contiguously in the output"
        # the same holds for every way of obtaining the markup (str, repr, _repr_html_, render, tagify)
        x = build(c[0], share=True)
        for name, f in trees.render_routes(x):
            r = safe_call(f)
            if r[0] != "ok":
                return f"{name} raised on a tree that get_html_string renders"
            for s in default_runs(c):
                if s not in r[1]:
                    return f"inline run {s!r} does not appear contiguously in the output of {name}"
        return None

    differential(
        ctx, "Tag.get_html_string (unrestricted trees)", cases,
        to_sx=lambda c: [2, to_sx(c[0]), c[1], S(c[2])],
        impl=lambda c: safe_call(lambda: build(c[0], share=True).get_html_string(c[1], c[2])),
        decode=lambda m: res_decode(m, unS), oracle=oracle, nontrivial=nontriv, kind=lambda c: "tag")

    # top-level lists (add_ws True / False)
    lcases = []
    for _ in range(ctx.budget(1000, 15000)):
        items = [trees.rand_child(rng, rng.choice([0, 1, 2]), leaves="TTHRM", names="bbiiivsck", flip_ws=0.2)
                 for _ in range(rng.choice([1, 2, 3, 4, 5]))]
        lcases.append((items, rng.randrange(0, 4), rng.choice(EOLS), rng.random() < 0.5))
    differential(
        ctx, "TagList.get_html_string (unrestricted items)", lcases,
        to_sx=lambda c: [3, [to_sx(d) for d in c[0]], c[1], S(c[2]), 1 if c[3] else 0, 1],
        impl=lambda c: safe_call(lambda: build_list(c[0]).get_html_string(c[1], c[2], add_ws=c[3])),
        oracle=lambda c, out: trees.routes_disagree(build_list(c[0])) if c[3] else None,
        decode=lambda m: res_decode(m, unS), nontrivial=lambda c: len(c[0]) >= 2, kind=lambda c: "list")

    # whitespace only at the edges of whitespace-enabled tags (implementation only)
    for _ in range(ctx.budget(2500, 40000)):
        d = edge_tree(rng, rng.choice([1, 2, 3, 4]), [0])
        out = safe_call(lambda: build_edge(d).get_html_string(0, SENT))
        ctx.count(("edges", d), d[2] or "'F'" in repr(d) or not inline_only(d), "edge tree")
        if out[0] == "ok":
            msg = edges_ok(out[1])
            if msg:
                ctx.violation("layout whitespace away from any whitespace-enabled tag", d,
                              {"impl_output": out[1], "why": msg})


def replay(ctx: Ctx, path: str) -> None:
    """re-run the recorded input (the step that reported it runs that single case)"""
    ctx.load_replay(path)
    run(ctx)

"""C05  No whitespace is ever injected into inline content.

ENTRY POINTS AND ARGUMENTS THAT CAN REACH THE BEHAVIOUR (layout whitespace in emitted markup); every
one of them is driven below, with non-default argument values, and judged with the property's oracle
(flat form of every inline run appears contiguously; whitespace only at the edges of whitespace-enabled
tags):

  construction   Tag(name, *children, _add_ws=...), the tags.* / svg.* catalogue functions and the top-level
                 re-exports (htmltools.div, span, ...) with and without an explicit _add_ws (per-element
                 default), children given at construction / append / extend / insert / children += /
                 nested lists, tuples and TagLists (flattened) / inside a with-block (sys.displayhook),
                 attribute dicts incl. another tag's .attrs object and the result of consolidate_attrs
  rendering      Tag.get_html_string(indent, eol); TagList.get_html_string(indent, eol, add_ws=);
                 tagify().get_html_string(); render()['html']; str(); repr(); _repr_html_();
                 str() with htmltools.html_dependency_render_mode = 'json'
  documents      HTMLDocument(*content, **html_attrs): render(lib_prefix=, include_version=), append(),
                 save_html(file, libdir=, include_version=), copy.copy(document);
                 Tag.save_html / TagList.save_html (file, libdir=, include_version=)  [show() is the same
                 save_html followed by opening a browser / IPython display: not driven];
                 content shapes the document code distinguishes: a lone <html>, a lone <body>, another
                 lone tag, several items; <html> with / without its own <head>; dependencies and
                 head_content() inside
                 HTMLTextDocument(text, deps, deps_replace_pattern).render(lib_prefix=, include_version=)
                 on the text of a rendering (also of a json-mode rendering, whose serialised dependencies
                 it extracts again)
  placement      child of a whitespace-enabled / inline parent, item of a TagList built by the constructor,
                 + / reflected + / += / append / insert / extend; next to text / number / inline tag /
                 HTML() / self-rendering / block siblings; next to a JSX component; next to an object that
                 is both tagifiable and self-rendering; one object in two parents
  other          copy.copy / copy.deepcopy / tagify() of the subject (the copy is then modified: the subject
                 must be unaffected), ==, a tag that was used as a context manager
"""
from __future__ import annotations

import copy
import os
import re
import shutil
import sys
import tempfile

from ..common import Ctx, S, unS, differential, run_model
from .. import trees
from ..trees import build, to_sx, safe_call, res_decode

import htmltools
from htmltools import HTML, HTMLDependency, HTMLDocument, HTMLTextDocument, Tag, TagList

EOLS = ["\n", "\r\n", "", " ", "\n\n"]
ODD_EOLS = ["\t", "\r", "<!-- -->\n", "\n" * 20, " ", "\n\t", "eol", "\n" * 300]
BIG_INDENTS = [7, 8, 9, 15, 16, 17, 31, 33, 64, 65, 130, 257, 300]
SIZES = [7, 8, 9, 15, 16, 17, 31, 32, 33, 63, 64, 65, 127, 128, 129, 255, 256, 257, 300]
DEPTHS = [7, 8, 9, 15, 16, 17, 31, 32, 33, 63, 64, 65, 70]


def rand_layout(rng):
    """(indent, eol): mostly small / usual, sometimes large or odd"""
    r = rng.random()
    indent = rng.choice(BIG_INDENTS) if r < 0.01 else rng.randrange(0, 5)
    eol = rng.choice(ODD_EOLS) if 0.01 <= r < 0.03 else rng.choice(EOLS)
    return indent, eol


def inline_only(d):
    k = d[0]
    if k == "G":
        return (not d[2]) and all(inline_only(x) for x in d[4])
    if k == "C":
        return d[1] is not None
    return True


def runs_of(d, out):
    """maximal runs of adjacent inline-only children (metadata allowed inside a run),
    at every level: (escape flag, [children])"""
    if d[0] != "G":
        return
    esc = d[1] not in ("script", "style")
    cur = []
    for k in d[4]:
        if inline_only(k):
            cur.append(k)
        else:
            if cur:
                out.append((esc, cur))
            cur = []
            runs_of(k, out)
    if cur:
        out.append((esc, cur))


def tree_runs(d):
    """the runs of a tree wherever it is placed; the tree itself when it is inline-only"""
    rs = []
    runs_of(d, rs)
    if inline_only(d):
        rs.append((True, [d]))
    return rs


def doc_runs(d):
    """the runs that must survive when the tree is the ONLY content of an HTMLDocument.  A lone <html>
    tag is used as the document's <html>: the document adds attributes to (a copy of) it and puts
    <meta charset> and the dependencies into (a copy of) its first <head> child, or inserts a <head>
    in front of its children -- so the <html> element itself and that <head> element are not
    rendered as given, but their other children, and the <head>'s own children, still sit side by
    side.  Every other tree (a lone <body> included) appears in the document as given."""
    if d[0] == "G" and d[1] == "html":
        kids = d[4]
        hi = next((i for i, k in enumerate(kids) if k[0] == "G" and k[1] == "head"), None)
        out = []
        if hi is None:
            runs_of(d, out)
            return out
        runs_of(("G", "html", d[2], [], kids[:hi]), out)
        runs_of(("G", "html", d[2], [], kids[hi + 1:]), out)
        head = kids[hi]
        runs_of(("G", "head", True, [], head[4]), out)
        return out
    return tree_runs(d)


def spec_flats(runlists):
    """[(escape flag, [items])] per case -> the flat form of each run, from the extracted
    specification (Spec flat: open tags, content, close tags, nothing else)"""
    reqs = [[5, to_sx(it), 1 if esc else 0] for rl in runlists for esc, items in rl for it in items]
    flats = run_model(reqs) if reqs else []
    pos, out = 0, []
    for rl in runlists:
        acc = []
        for esc, items in rl:
            s = ""
            for it in items:
                m = flats[pos]
                pos += 1
                assert m[0] == 1, f"the specification does not call this item inline-only: {it!r}"[:1500]
                s += unS(m[1])
            acc.append(s)
        out.append(acc)
    return out


def missing_run(runs, text, where=""):
    for s in runs:
        if s not in text:
            return f"inline run {s[:200]!r} ({len(s)} characters) does not appear contiguously in the output{where}"
    return None


# ---- whitespace-at-block-edges oracle: trees whose tag names tell the flag ------------
SENT = "\x01"


def edge_tree(rng, depth, counter):
    kind = rng.choice("bbiivV")
    counter[0] += 1
    if kind == "b":
        name, ws = f"b{counter[0]}", True
    elif kind == "i":
        name, ws = f"i{counter[0]}", False
    elif kind == "v":
        name, ws = "br", False
    else:
        name, ws = "hr", True
    kids = []
    if depth > 0:
        for _ in range(rng.choice([0, 1, 2, 2, 3, 4])):
            kids.append(edge_child(rng, depth, counter))
    return ("G", name, ws, [], kids)


def edge_child(rng, depth, counter):
    r = rng.random()
    if r < 0.55:
        return edge_tree(rng, depth - 1, counter)
    if r < 0.75:
        return ("T", rng.choice(["x", "a b", "<", "y z", ""]))
    if r < 0.85:
        # (empty renderings included: an item that renders to nothing must not make layout
        # whitespace appear next to it between inline neighbours)
        return ("H", rng.choice(["<u>h</u>", "h", "", ""]))
    if r < 0.91:
        return ("R", rng.choice(["<em>r</em>", "<em>r</em>", ""]))
    if r < 0.95:
        return ("F",)          # a self-rendering object whose _repr_html_() raises
    return ("M", None)


def edge_doc_tree(rng, counter):
    """an edge tree shaped like a document: <html> / <body> / <head> with either flag, in the
    combinations the document code tells apart"""
    def kids(n):
        return [edge_child(rng, rng.choice([1, 2]), counter) for _ in range(n)]
    flag = lambda: rng.random() < 0.5
    shape = rng.choice(["body", "body", "html", "html+head", "html+head+body", "head"])
    if shape == "body":
        return ("G", "body", flag(), [], kids(rng.choice([0, 1, 2, 3])))
    if shape == "head":
        return ("G", "head", flag(), [], kids(rng.choice([0, 1, 2])))
    ks = []
    if "head" in shape:
        ks.append(("G", "head", flag(), [], kids(rng.choice([0, 0, 1, 2]))))
        if rng.random() < 0.3:
            ks.insert(0, edge_child(rng, 1, counter))
    if shape != "html+head" or rng.random() < 0.5:
        ks.append(("G", "body", flag(), [], kids(rng.choice([0, 1, 2, 3]))))
    if rng.random() < 0.3:
        ks.append(edge_child(rng, 1, counter))
    return ("G", "html", flag(), [], ks)


# layout whitespace = the sentinel eol followed by indentation, OR a bare run of two or more
# spaces (indentation emitted without an eol); text leaves of edge trees hold single spaces only
TOK = re.compile(r"(\x01 *| {2,})|(</?[a-z0-9]+/?>)|((?:[^< \x01]| (?! ))+|<)")


def build_edge(d):
    from ..faults import FaultyRepr
    if d[0] == "F":
        return FaultyRepr()
    if d[0] == "G":
        return Tag(d[1], *[build_edge(k) for k in d[4]], _add_ws=d[2])
    return build(d)


def edges_ok(out: str) -> str | None:
    toks = [m.group(0) for m in TOK.finditer(out)]
    def is_block_tag(t):
        return t.startswith("<") and len(t) > 1 and (t.strip("</>").startswith("b") and t.strip("</>") != "br"
                                                     or t.strip("</>") == "hr")
    for idx, t in enumerate(toks):
        def is_ws(x):
            return x.startswith(SENT) or (len(x) >= 2 and x.strip(" ") == "")
        if not is_ws(t):
            continue
        j = idx - 1
        while j >= 0 and is_ws(toks[j]):
            j -= 1
        k = idx + 1
        while k < len(toks) and is_ws(toks[k]):
            k += 1
        before = toks[j] if j >= 0 else None
        after = toks[k] if k < len(toks) else None
        if not ((before and is_block_tag(before)) or (after and is_block_tag(after))):
            return f"layout whitespace between {before!r} and {after!r}, neither a whitespace-enabled tag"
    return None


# the same oracle for output in which tags carry attributes and in which tags the library itself
# creates (document skeleton, dependency tags) occur: a tag whose flag the case does not fix counts
# as whitespace-enabled (lenient); whitespace before the first token is the caller's indent
TOKG = re.compile(r"(\x01 *| {2,})|<(/?)([A-Za-z!][A-Za-z0-9:_-]*)(?:[ \x01][^<>]*)?/?>|((?:[^< \x01]| (?! ))+|<)")
EDGE_FIXED = {"br": False, "hr": True, "u": False, "em": False}


def edge_flags(d, acc=None):
    """name -> flag of the tags of a description (None when one name carries both flags)"""
    acc = {} if acc is None else acc
    if d[0] == "G":
        acc[d[1]] = d[2] if acc.get(d[1], d[2]) == d[2] else None
        for k in d[4]:
            edge_flags(k, acc)
    return acc


def edges_ok_general(out: str, flags: dict) -> str | None:
    toks = []
    for m in TOKG.finditer(out.replace("\n", SENT)):
        if m.group(1) is not None:
            toks.append(("ws", m.group(0)))
        elif m.group(3) is not None:
            name = m.group(3)
            f = flags.get(name, EDGE_FIXED.get(name))
            toks.append(("tag", m.group(0), True if f is None else f))
        else:
            toks.append(("txt", m.group(0)))
    for idx, t in enumerate(toks):
        if t[0] != "ws":
            continue
        j = idx - 1
        while j >= 0 and toks[j][0] == "ws":
            j -= 1
        k = idx + 1
        while k < len(toks) and toks[k][0] == "ws":
            k += 1
        if j < 0:
            continue
        before = toks[j]
        after = toks[k] if k < len(toks) else None
        if not ((before[0] == "tag" and before[2]) or (after and after[0] == "tag" and after[2])):
            return (f"layout whitespace between {before[1]!r} and {(after[1] if after else None)!r}, "
                    "neither a whitespace-enabled tag")
    return None


def build_list(items):
    memo: dict = {}
    return TagList(*[build(d, True, memo) for d in items])


# ---- sizes and depths: a handful of big cases per run, the interesting content in the tail ----------
def small_inline(rng, i):
    r = rng.random()
    if r < 0.3:
        return ("T", rng.choice(["t%d" % i, "a b", "x<y", " ", "\n  ", "0", ""]))
    if r < 0.45:
        return ("H", "<i>h%d</i>" % i)
    if r < 0.55:
        return ("R", "<u>r%d</u>" % i)
    if r < 0.62:
        return ("M", None)
    n = rng.choice(trees.INLINE_NAMES)
    return ("G", n, False, [], [] if r < 0.8 else [("T", "k%d" % i), ("G", "b", False, [], [("T", "q")])])


def long_text(rng, n):
    """>= n characters; layout look-alikes (line feeds followed by spaces) in the tail"""
    bits = trees.LONG_BITS + ["\n    ", "  ", "\r\n\t"]
    s = ""
    while len(s) < n:
        s += rng.choice(bits) * (1 + n // 2000)
    return s + "\n  <tail & end>\n" + str(rng.randrange(1000))


def big_cases(rng, quick: bool):
    """the systematic part: every size / depth on the list once per run (thorough: three times)"""
    out = []
    for _ in range(1 if quick else 3):
        for n in SIZES:
            out.append(big_tree(rng, "wide-block", n))
            out.append(big_tree(rng, "wide-inline", n))
        for n in DEPTHS:
            out.append(big_tree(rng, "deep-inline", n))
            out.append(big_tree(rng, "deep-block", n))
        for n in [9, 33, 65, 129, 257, 300]:
            out.append(big_tree(rng, "attrs", n))
        for n in [300, 5000, 70000]:
            out.append(big_tree(rng, "long-text", n))
        for n in BIG_INDENTS:
            out.append(big_tree(rng, "indent", n))
        out.append(big_tree(rng, "wide-deep", rng.choice(DEPTHS)))
    return out


def big_tree(rng, kind=None, n=None):
    """(tree, indent, eol): one large tree"""
    kind = kind or rng.choice(["wide-block", "wide-block", "wide-inline", "deep-inline", "deep-block", "long-text",
                               "attrs", "indent", "wide-deep"])
    indent, eol = rng.randrange(0, 3), rng.choice(EOLS)
    if kind in ("wide-block", "wide-inline"):
        n = n or rng.choice(SIZES)
        kids = [small_inline(rng, i) for i in range(n)]
        # a whitespace-enabled child early on: the long run (and its end) lies beyond it
        kids[rng.randrange(0, min(n, 6))] = ("G", "div", True, [], [("T", "blk")])
        kids[-1] = ("G", "span", False, [], [("G", "b", False, [], [("T", "last")]), ("T", "&"), ("R", "<u>end</u>")])
        if kind == "wide-block":
            return ("G", rng.choice(["div", "p", "ul"]), True, [], kids), indent, eol
        return ("G", rng.choice(["span", "a", "em"]), False, [], kids), indent, eol
    if kind in ("deep-inline", "deep-block", "wide-deep"):
        depth = n or rng.choice(DEPTHS)
        t = ("G", "span", False, [], [("G", "b", False, [], [("T", "deep")]), ("T", "est"), ("R", "<u>r</u>"),
                                      ("G", "i", False, [], [])])
        if kind == "wide-deep":
            t = ("G", "span", False, [], [small_inline(rng, i) for i in range(rng.choice([9, 17, 33]))] + [t])
        for lvl in range(depth):
            if kind == "deep-block" and lvl >= depth // 2:
                t = ("G", rng.choice(["div", "section", "li"]), True, [], [t] if lvl % 3 else [("T", "b%d" % lvl), t])
            else:
                t = ("G", rng.choice(trees.INLINE_NAMES), False, [],
                     [t] if lvl % 4 else [("T", "l%d" % lvl), t, ("H", "<i>/</i>")])
        return ("G", "div", True, [], [("T", "lead"), t, ("T", "trail")]), indent, eol
    if kind == "long-text":
        n = n or rng.choice([300, 5000, 5000, 70000])
        s = long_text(rng, n)
        leaf = rng.choice("THR")
        return ("G", "div", True, [], [("G", "p", True, [], [("T", "blk")]),
                                       ("G", "span", False, [], [("T", "pre")]), (leaf, s),
                                       # every kind of inline item AFTER the long one
                                       ("G", "b", False, [], [("T", "after the long one")]), ("T", s[-40:]),
                                       ("R", "<u>r-after</u>"), ("H", "<i>h-after</i>"), ("M", None), ("T", "0"),
                                       ("G", "code", False, [], [(leaf, s[:n // 3]), ("G", "i", False, [], []), ("R", "<u>r</u>"),
                                                                 ("T", "t"), ("H", "h")]),
                                       ("G", "br", False, [], []), ("R", "<u>last</u>")]), indent, eol
    if kind == "attrs":
        n = n or rng.choice(SIZES)
        attrs = [("data-a%d" % i, ("S", "v%d" % i)) for i in range(n)]
        attrs.append(("class", ("S", " ".join("c%d" % i for i in range(n)))))
        return ("G", "div", True, [], [("T", "x"), ("G", "span", False, attrs, [("T", "k"), ("G", "b", False, attrs[-3:], [])]),
                                       ("T", "y"), ("G", "a", False, [("title", ("H", "t" * n))], [])]), indent, eol
    # large indent / long eol
    t = trees.rand_tree(rng, 3, leaves="TTHRM", names="bbiiiv", flip_ws=0.2)
    return t, n or rng.choice(BIG_INDENTS), rng.choice(ODD_EOLS + EOLS)


# ---- construction through the public API (the route is a function of the description and `mode`) ----
_CATF: dict = {}


def catalogue_fn(name):
    """the tags.* / svg.* / top-level function creating elements called `name`, with its default flag"""
    if name not in _CATF:
        f = None
        for mod in (htmltools, htmltools.tags, htmltools.svg):
            g = getattr(mod, name, None)
            if callable(g) and not isinstance(g, type):
                try:
                    t = g()
                    if isinstance(t, Tag) and t.name == name:
                        f = (g, t.add_ws)
                        break
                except Exception:
                    pass
        _CATF[name] = f
    return _CATF[name]


def nest(objs, depth, h):
    """the children inside `depth` levels of lists / tuples / TagLists (all flattened by the library)"""
    x = list(objs)
    for lvl in range(depth):
        k = (h + lvl) % 3
        x = [x] if k == 0 else (x,) if k == 1 else [TagList(*x)] if lvl % 2 else [None, x, []]
    return x


class _Collector:
    """stands in for sys.displayhook while a with-block is used"""

    def __init__(self):
        self.got = []

    def __call__(self, value):
        self.got.append(value)


def with_block(parent, objs):
    old = sys.displayhook
    sys.displayhook = _Collector()
    try:
        with parent:
            for o in objs:
                sys.displayhook(o)
    finally:
        sys.displayhook = old
    return parent


def api_desc(d, mode):
    """the tree the construction route of build_api is documented to give: the same, except that a
    self-rendering object displayed inside a with-block is stored as HTML(its markup)"""
    if d[0] != "G":
        return d
    kids = [api_desc(k, mode) for k in d[4]]
    if (trees._pick(repr(d)[:300]) + mode) % 8 == 6:
        kids = kids[:1] + [("H", k[1]) if k[0] == "R" else k for k in kids[1:]]
    return ("G", d[1], d[2], d[3], kids)


def build_api(d, mode):
    if d[0] == "F":
        from ..faults import FaultyRepr
        return FaultyRepr()
    if d[0] != "G":
        return build(d)
    _, name, ws, attrs, kids = d
    h = trees._pick(repr(d)[:300]) + mode
    kobjs = [trees.mk_child_text(x[1]) if x[0] == "T" else build_api(x, mode) for x in kids]
    cf = catalogue_fn(name)
    ad = {}
    for key, (m, v) in attrs:
        ad[key] = trees.mk_html(v) if m == "H" else trees.mk_text(v)
    donor = Tag("donor")
    for key, v in ad.items():
        dict.__setitem__(donor.attrs, key, v)

    def make(*a):
        if cf is not None and h % 3 != 0:
            if cf[1] == ws and h % 2 == 0:
                return cf[0](*a)               # the element's documented default flag
            return cf[0](*a, _add_ws=ws)
        return Tag(name, *a, _add_ws=ws)
    route = h % 8
    if route == 0:
        t = make(*kobjs)
    elif route == 1:
        t = make()
        if kobjs:
            t.append(*kobjs)
    elif route == 2:
        t = make()
        t.extend(kobjs)
    elif route == 3:
        t = make()
        for i, k in enumerate(reversed(kobjs)):
            t.insert(0, k)
    elif route == 4:
        t = make()
        t.children += kobjs
    elif route == 5:
        t = make(*nest(kobjs, [1, 2, 3, 8, 17, 33, 70][h % 7], h))
    elif route == 6:
        t = make(*kobjs[:1])
        with_block(t, kobjs[1:])
    else:
        t = make()
        for k in kobjs:
            t.children.append(k)
    # attributes: stored as is (names / values are the subject of other properties), directly or by
    # handing over another tag's .attrs object
    if ad and h % 5 == 0:
        t2 = Tag(t.name, donor.attrs, _add_ws=t.add_ws)
        if list(t2.attrs.items()) == list(donor.attrs.items()):
            t.attrs = t2.attrs
            return t
    for key, v in ad.items():
        dict.__setitem__(t.attrs, key, v)
    return t


# ---- placements: every way a subject tree can be put somewhere and rendered --------------------------
# siblings whose flat form is plain: (kind, flat form, inline?)
SIBS = [("text", "pre", True), ("text2", "po st", True), ("num", "0", True), ("negzero", "-0.0", True),
        ("b", "<b>s</b>", True), ("html", "<i>h</i>", True), ("repr", "<u>r</u>", True),
        ("span-nest", "<span><b>n</b>m</span>", True), ("block", None, False), ("hr", None, False)]


def mk_sib(kind):
    if kind == "text":
        return "pre"
    if kind == "text2":
        return "po st"
    if kind == "num":
        return 0
    if kind == "negzero":
        return -0.0
    if kind == "b":
        return Tag("b", "s", _add_ws=False)
    if kind == "html":
        return HTML("<i>h</i>")
    if kind == "repr":
        return trees.ReprObj("<u>r</u>")
    if kind == "span-nest":
        return htmltools.span(htmltools.tags.b("n"), "m")
    if kind == "block":
        return Tag("section", "blk")
    return Tag("hr")


SIB_FLAT = {k: f for k, f, _ in SIBS}
WRAP_FLAGS = {"section": True, "span": False, "b": False, "i": False, "div": True, "a": False, "hr": True, "li": True}
PATTERNS = ["<!-- deps -->", "(deps.*)+[x]\\1$^", "{{ head | safe }}", "\\g<0>&deps;"]


def rand_ops(rng, edge: bool, is_tag_named: str, history: int = 0):
    def sib():
        return rng.choice(SIBS)[0]

    def layout():
        if edge:
            return rng.randrange(0, 4), SENT
        return rand_layout(rng)

    def one(cheap=False):
        menu = ["ghs", "route", "child", "child", "list", "list"]
        if not cheap:
            menu += ["two-parents", "copy", "eq", "doc", "doc", "doc", "doc", "with", "attrs-wrap", "tagifiable-sib"]
            if not edge:
                menu += ["textdoc", "jsx-sib"]
        k = rng.choice(menu)
        if k == "ghs":
            return ("ghs",) + ((0, SENT) if edge else layout())
        if k == "route":
            return ("route", rng.randrange(0, 7))
        if k == "child":
            return ("child", rng.choice(["section", "span", "div", "a", "li"]), sib(), sib(),
                    rng.choice(["ctor", "append", "extend", "insert", "iadd", "nested"]),
                    rng.choice(["ghs", "ghs", "str", "render", "_repr_html_", "json", "tagify"])) + layout()
        if k == "list":
            return ("list", rng.random() < 0.5, sib(), sib(),
                    rng.choice(["ctor", "add", "radd", "iadd", "append", "insert", "extend"])) + layout()
        if k == "two-parents":
            return ("two-parents", sib())
        if k == "copy":
            return ("copy", rng.choice(["copy", "deepcopy", "tagify"]))
        if k == "eq":
            return ("eq",)
        if k == "doc":
            shape = rng.choice(["alone", "alone", "alone", "sibs", "append", "in-body", "in-html", "head_content",
                                "dep-head"])
            return ("doc", shape, sib(), sib(), rng.choice(["none", "lang", "class-style", "many"]),
                    rng.choice(["render", "render", "copy-render", "save", "tag-save", "taglist-save", "render-twice"]),
                    rng.choice(["lib", None, "a/b", ""]), rng.random() < 0.5, rng.random() < 0.5, rng.random() < 0.5)
        if k == "with":
            return ("with", rng.choice(["section", "span"]), sib(), sib())
        if k == "attrs-wrap":
            return ("attrs-wrap", sib(), sib())
        if k == "tagifiable-sib":
            return ("tagifiable-sib", sib(), rng.choice(["ghs", "render", "str"]))
        if k == "textdoc":
            return ("textdoc", rng.random() < 0.5, rng.randrange(0, len(PATTERNS)), rng.choice(["lib", None, "x"]),
                    rng.random() < 0.5)
        return ("jsx-sib", sib(), sib(), rng.choice(["render", "str"]))
    if history:
        # a long history of operations on one object: cheap ones, a document now and then
        return tuple(one(cheap=(i % 16 != 7)) for i in range(history))
    ops = [one() for _ in range(rng.choice([1, 2, 2, 3, 4, 6]))]
    if is_tag_named in ("html", "body", "head"):
        # document-shaped subjects go through a document first, then through everything else
        ops.insert(0, ("doc", "alone", "text", "text", rng.choice(["none", "lang", "class-style"]),
                       rng.choice(["render", "save", "tag-save", "copy-render"]), rng.choice(["lib", None]),
                       rng.random() < 0.5, rng.random() < 0.25, rng.random() < 0.25))
        ops.append(("child", "section", sib(), sib(), "ctor", "ghs") + layout())
    return tuple(ops)


def read_file(path):
    with open(path, newline="") as f:
        return f.read()


def adj(flat_whole, pre, post):
    """what must appear contiguously when an inline-only subject sits between the given siblings"""
    if flat_whole is None:
        return []
    a = SIB_FLAT[pre] if pre else ""
    b = SIB_FLAT[post] if post else ""
    return [(a or "") + flat_whole + (b or "")]


def run_op(op, x, flat_whole, tmp):
    """-> [(label, ('ok', text) | ('err', ..), what must be in it: 'runs' | 'doc', extra strings)]"""
    kind = op[0]
    if kind == "ghs":
        return [(f"get_html_string({op[1]}, {op[2]!r})", safe_call(lambda: x.get_html_string(op[1], op[2])), "runs", [])]
    if kind == "route":
        n, f = trees.render_routes(x)[op[1]]
        return [(n, safe_call(f), "runs", [])]
    if kind == "child":
        _, pname, pre, post, how, route, indent, eol = op
        pws = WRAP_FLAGS[pname]
        kids = [mk_sib(pre), x, mk_sib(post)]

        def mk():
            if how == "ctor":
                return Tag(pname, *kids, _add_ws=pws)
            p = Tag(pname, _add_ws=pws)
            if how == "append":
                p.append(*kids)
            elif how == "extend":
                p.extend(kids)
            elif how == "insert":
                p.insert(0, kids[2])
                p.insert(0, kids[0])
                p.insert(1, kids[1])
            elif how == "iadd":
                p.children += kids
            else:
                p.append([kids[0], (kids[1], [TagList(kids[2])])])
            return p

        def go():
            p = mk()
            if route == "ghs":
                return p.get_html_string(indent, eol)
            if route == "str":
                return str(p)
            if route == "render":
                return p.render()["html"]
            if route == "_repr_html_":
                return p._repr_html_()
            if route == "json":
                return trees._str_json_mode(p)
            return p.tagify().get_html_string(indent, eol)
        return [(f"child of <{pname}> between {pre} and {post} ({how}; {route})", safe_call(go), "runs",
                 adj(flat_whole, pre, post))]
    if kind == "list":
        _, aw, pre, post, how, indent, eol = op
        a, b = mk_sib(pre), mk_sib(post)

        def go():
            if how == "ctor":
                l = TagList(a, x, b)
            elif how == "add":
                l = TagList(a) + [x, b]
            elif how == "radd":
                l = [a, x] + TagList(b)
            elif how == "iadd":
                l = TagList(a)
                l += (x, b)
            elif how == "append":
                l = TagList()
                l.append(a, x, b)
            elif how == "insert":
                l = TagList(b)
                l.insert(0, x)
                l.insert(0, a)
            else:
                l = TagList()
                l.extend([a, [x, (b,)]])
            return l.get_html_string(indent, eol, add_ws=aw)
        return [(f"item of a TagList between {pre} and {post} ({how}; add_ws={aw})", safe_call(go), "runs",
                 adj(flat_whole, pre, post))]
    if kind == "two-parents":
        s = op[1]
        p1 = Tag("section", mk_sib(s), x)
        p2 = Tag("span", x, mk_sib(s), _add_ws=False)
        return [("first of two parents", safe_call(lambda: p1.get_html_string(1, SENT)), "runs", adj(flat_whole, s, None)),
                ("second of two parents", safe_call(lambda: p2.get_html_string(0, SENT)), "runs", adj(flat_whole, None, s)),
                ("first of two parents, again", safe_call(lambda: str(p1)), "runs", adj(flat_whole, s, None))]
    if kind == "copy":
        def go():
            if op[1] == "copy":
                cp = copy.copy(x)
            elif op[1] == "deepcopy":
                cp = copy.deepcopy(x)
            else:
                cp = x.tagify()
            out = cp.get_html_string(0, SENT)
            # the copy is the caller's: changing it must not reach the subject
            if op[1] == "copy":
                cp.add_ws = not cp.add_ws
                cp.children.append(Tag("section", "added"))
                cp.attrs["data-copy"] = "1"
            else:
                todo = [cp]
                while todo:
                    t = todo.pop()
                    t.add_ws = not t.add_ws
                    todo.extend(c for c in t.children if isinstance(c, Tag))
            return out
        return [(f"{op[1]} of the subject", safe_call(go), "runs", [])]
    if kind == "eq":
        safe_call(lambda: x == copy.deepcopy(x))
        safe_call(lambda: x == x.tagify())
        safe_call(lambda: x != Tag(x.name))
        return []
    if kind == "doc":
        _, shape, pre, post, kw, entry, libp, incv, bws, hws = op
        kwargs = {"none": {}, "lang": {"lang": "en"}, "class-style": {"class_": "c d", "style": "margin:0"},
                  "many": {"lang": "en", "data_x": HTML("&amp;'x'"), "id": "doc", "class_": "k"}}[kw]
        a, b = mk_sib(pre), mk_sib(post)
        want, extras = "runs", []
        if shape == "alone":
            content, want = [TagList(x) if hws else [[x], None] if bws else x], "doc"
        elif shape == "sibs":
            content, extras = [a, x, b], adj(flat_whole, pre, post)
        elif shape == "append":
            content, extras = [a], adj(flat_whole, pre, post)
        elif shape == "in-body":
            content, extras = [Tag("body", a, x, b, _add_ws=bws)], adj(flat_whole, pre, post)
        elif shape == "in-html":
            content = [Tag("html", Tag("head", Tag("title", "t")), Tag("body", a, x, b, _add_ws=bws), _add_ws=hws)]
            extras = adj(flat_whole, pre, post)
        elif shape == "head_content":
            content = [Tag("html", Tag("head", _add_ws=hws), Tag("body", htmltools.head_content(a, x, b), "y", _add_ws=bws))]
            extras = adj(flat_whole, pre, post)
        else:
            content = [Tag("div", HTMLDependency("c05-dep", "1.0", head=TagList(a, x, b)), "y")]
            extras = adj(flat_whole, pre, post)
        sub = tempfile.mkdtemp(dir=tmp)
        path = os.path.join(sub, "index.html")

        def go():
            if entry == "tag-save" and shape == "alone":
                x.save_html(path, libdir=libp, include_version=incv)
                return read_file(path)
            if entry == "taglist-save":
                TagList(*(content + ([x, b] if shape == "append" else []))).save_html(
                    path, libdir=libp, include_version=incv)
                return read_file(path)
            doc = HTMLDocument(*content, **kwargs)
            if shape == "append":
                doc.append(x, b)
            if entry == "copy-render":
                return copy.copy(doc).render(lib_prefix=libp, include_version=incv)["html"]
            if entry == "save":
                doc.save_html(path, libdir=libp, include_version=incv)
                return read_file(path)
            if entry == "render-twice":
                doc.render()
            return doc.render(lib_prefix=libp, include_version=incv)["html"]
        r = safe_call(go)
        shutil.rmtree(sub, ignore_errors=True)
        return [(f"HTMLDocument ({shape}; {kw}; {entry}; lib_prefix={libp!r}, include_version={incv})", r, want, extras)]
    if kind == "with":
        _, pname, pre, post = op
        return [(f"child of <{pname}> added inside a with-block",
                 safe_call(lambda: with_block(Tag(pname, _add_ws=WRAP_FLAGS[pname]), [mk_sib(pre), x, mk_sib(post)])
                           .get_html_string(1, SENT)), "runs", adj(flat_whole, pre, post))]
    if kind == "attrs-wrap":
        _, pre, post = op

        def go():
            donor = Tag("a", {"class": HTML("a&amp;b")}, href="#", class_="c")
            attrs, kids = htmltools.consolidate_attrs(donor.attrs, {"style": HTML("x:'y'")}, mk_sib(pre), x, mk_sib(post),
                                                      class_="d", style=htmltools.css(color="red"))
            w = Tag("span", attrs, *kids, _add_ws=False)
            w.add_class("e", prepend=True).add_style(HTML("y:'z';"), prepend=True).add_class(HTML("f&amp;g"))
            w.remove_class("c")
            return w.get_html_string(2, SENT)
        return [("child of a tag built from consolidate_attrs() and another tag's .attrs", safe_call(go), "runs",
                 adj(flat_whole, pre, post))]
    if kind == "tagifiable-sib":
        _, pre, route = op

        def go():
            obj = trees.CustomReprObj([Tag("section", "expansion")], True, "<i>self</i>")
            p = Tag("section", mk_sib(pre), x, obj)
            if route == "ghs":
                return p.get_html_string(1, SENT)
            return p.render()["html"] if route == "render" else str(p)
        ex = adj(flat_whole, pre, None)
        if route == "ghs" and ex:
            ex = [ex[0] + "<i>self</i>"]      # rendered directly, the object is a self-rendering (inline) child
        return [(f"next to an object that is tagifiable and self-rendering ({route})", safe_call(go), "runs", ex)]
    if kind == "textdoc":
        _, json_mode, pi, libp, incv = op
        pat = PATTERNS[pi]

        def go():
            if json_mode:
                old = htmltools.html_dependency_render_mode
                try:
                    htmltools.html_dependency_render_mode = "json"
                    text = str(x)
                finally:
                    htmltools.html_dependency_render_mode = old
            else:
                text = x.get_html_string(1, "\n")
            if pat in text:
                return None
            tmpl = "<html><head>" + pat + "</head><body>\n" + text + "\n</body></html>"
            deps = [HTMLDependency("c05-t", "2.0", head="<meta name='t'>"),
                    HTMLDependency("c05-u", "1.0", source={"href": "https://x.invalid/u"}, script={"src": "u.js"})]
            return HTMLTextDocument(tmpl, deps=deps, deps_replace_pattern=pat).render(
                lib_prefix=libp, include_version=incv)["html"]
        r = safe_call(go)
        if r == ("ok", None):
            return []
        return [(f"HTMLTextDocument over the rendering (json mode: {json_mode}; pattern {pat!r})", r, "runs", [])]
    if kind == "jsx-sib":
        _, pre, post, route = op

        def go():
            from htmltools import jsx_tag_create
            comp = jsx_tag_create("C05Comp")
            p = with_block(Tag("section"), [mk_sib(pre), x, comp(Tag("b", "in jsx"), n=1), mk_sib(post)])
            return p.render()["html"] if route == "render" else str(p)
        return [("next to a JSX component inside a tag filled in a with-block", safe_call(go), "runs",
                 adj(flat_whole, pre, None))]
    raise ValueError(op)


def doc_op_flags(op, d, flags):
    """the flags by tag name for the output of one operation: a document operation brings <html> /
    <head> / <body> tags of its own (the library's skeleton: flag not promised; the wrappers of the
    operation: flag known); a name that then carries two different flags tells nothing (lenient)"""
    if op[0] != "doc":
        return flags
    _, shape, pre, post, kw, entry, libp, incv, bws, hws = op
    if shape == "alone":
        if d[1] == "html":
            created = {} if any(k[0] == "G" and k[1] == "head" for k in d[4]) else {"head": None}
        elif d[1] == "body":
            created = {"html": None, "head": None}
        else:
            created = {"html": None, "head": None, "body": None}
    elif shape == "in-body":
        created = {"html": None, "head": None, "body": bws}
    elif shape == "in-html":
        created = {"html": hws, "head": None, "body": bws}
    elif shape == "head_content":
        created = {"html": None, "head": hws, "body": bws}
    else:
        created = {"html": None, "head": None, "body": None}
    user = edge_flags(d)
    out = dict(flags)
    for n, f in created.items():
        out[n] = f if (f is not None and user.get(n, f) == f) else None
    return out


def reroot(rng, d):
    """sometimes give a random tree a document-shaped top: root named html / body / head (either
    flag), and under an <html> root some children named head / body"""
    if rng.random() >= 0.3:
        return d
    name = rng.choice(["html", "body", "body", "head"])
    ws = rng.random() < 0.5
    kids = list(d[4])
    if name == "html":
        for i, k in enumerate(kids):
            if k[0] == "G" and rng.random() < 0.7:
                kids[i] = ("G", rng.choice(["head", "body", "body"]), k[2] if rng.random() < 0.5 else not k[2], k[3], k[4])
        if rng.random() < 0.4:
            kids.insert(rng.randrange(0, len(kids) + 1),
                        ("G", "body", rng.random() < 0.5, [], [("G", "span", False, [], [("T", "p")]), ("T", "q")]))
    return ("G", name, ws, d[3], kids)


def placements(ctx: Ctx) -> None:
    rng = ctx.rng
    tmp = tempfile.mkdtemp(prefix="c05-")
    try:
        # ---- random trees: runs oracle ------------------------------------------------------
        name = "placements of a tree (every entry point)"
        cases = []
        for _ in range(ctx.budget(500, 10000)):
            d = trees.rand_tree(rng, rng.choice([1, 2, 2, 3, 3, 4]), leaves="TTTHHRRMD", names="bbiiivsck", flip_ws=0.25)
            d = reroot(rng, d)
            indent, eol = rand_layout(rng)
            cases.append((d, indent, eol, rng.randrange(0, 1000), rand_ops(rng, False, d[1])))
        for _ in range(ctx.budget(6, 60)):
            d, indent, eol = big_tree(rng)
            cases.append((d, indent, eol, rng.randrange(0, 1000), rand_ops(rng, False, d[1])))
        if ctx.replay is None:
            # a document file of more than 256 KiB (its size no multiple of 64 KiB: the text ends in a counter)
            # (four strings of 70000 characters: one much longer string is beyond the extracted model's stack)
            leaf = rng.choice("THR")
            d = ("G", "body", True, [], [("G", "p", True, [], [("T", "blk")]), ("G", "span", False, [], [("T", "pre")])] +
                 [x for i in range(4) for x in ((leaf, long_text(rng, 70000)), ("G", "b", False, [], [("T", "s%d" % i)]),
                                                ("R", "<u>r%d</u>" % i))])
            cases.append((d, 0, "\n", 0, (("doc", "alone", "text", "text", "lang", "save", "lib", True, False, False),
                                          ("doc", "sibs", "b", "repr", "none", "taglist-save", None, False, False, False),
                                          ("doc", "in-body", "html", "text", "none", "tag-save", "a/b", True, False, True),
                                          ("doc", "alone", "text", "text", "none", "tag-save", "", True, False, False))))
        for n in [8, 17, 33, 64, 130, 300] if ctx.replay is None else []:
            # a long history of operations on one object
            d = reroot(rng, trees.rand_tree(rng, 2, leaves="TTHRM", names="bbiiiv", flip_ws=0.25))
            cases.append((d, 1, "\n", rng.randrange(0, 1000), rand_ops(rng, False, d[1], history=n)))
        cases = ctx.select(name, cases)
        flats = spec_flats([tree_runs(c[0]) + doc_runs(c[0]) for c in cases])
        bad_build, changed = [], []
        for c, fl in zip(cases, flats):
            d, indent, eol, mode, ops = c
            n_tree = len(tree_runs(d))
            want = {"runs": fl[:n_tree], "doc": fl[n_tree:]}
            flat_whole = fl[n_tree - 1] if inline_only(d) else None
            ctx.count(c, not inline_only(d) or len(d[4]) >= 2, "placement")
            xb = safe_call(lambda: build_api(d, mode))
            if xb[0] != "ok":
                bad_build.append({"case": c, "impl_output": xb})
                continue
            x = xb[1]
            # (the rendering alone, and between two inline siblings: there the flag of the root shows even
            # when the root has a single text child)
            render_x = lambda: (x.get_html_string(indent, eol),
                                TagList("a", x, "b").get_html_string(1, SENT, add_ws=False))
            base = safe_call(lambda: x.get_html_string(indent, eol))
            base2 = safe_call(render_x)
            ref = safe_call(lambda: build(api_desc(d, mode), share=True).get_html_string(indent, eol))
            if base != ref:
                bad_build.append({"case": c, "impl_output": base, "built_directly": ref})
            if base[0] != "ok":
                continue
            msg = missing_run(want["runs"], base[1])
            if msg:
                ctx.violation(f"{name}: tree built through the public API: {msg}", c, {"impl_output": base})
                continue
            for op in ops:
                for label, r, wk, extras in run_op(op, x, flat_whole, tmp):
                    if r[0] != "ok":
                        if r[1] == "exc:did-not-terminate":
                            ctx.violation(f"{name}: {label} does not return", c, {"op": op})
                        continue
                    if not isinstance(r[1], str):
                        continue
                    msg = missing_run(list(want[wk]) + list(extras), r[1], f" of: {label}")
                    if msg:
                        ctx.violation(f"{name}: {msg}", c, {"op": op, "impl_output": r[1][:4000]})
                # the subject is only ever read: it must still render as before
                after = safe_call(render_x)
                if after != base2:
                    msg = None
                    if after[0] == "ok":
                        msg = missing_run(want["runs"], after[1][0]) or \
                            missing_run(adj(flat_whole, None, None) and ["a" + flat_whole + "b"], after[1][1],
                                        " of a TagList holding it between two strings")
                    if msg:
                        ctx.violation(f"{name}: after {op[0]} ({op[1:3]!r}) the same object renders differently: {msg}", c,
                                      {"op": op, "before": [t[:4000] for t in base2[1]], "after": [t[:4000] for t in after[1]]})
                    changed.append({"case": c, "op": op, "before": repr(base2)[:4000], "after": repr(after)[:4000]})
                    break
        ctx.obligation(f"construction routes of the public API give the tree the model is given ({len(cases)} cases)",
                       not bad_build)
        ctx.obligation("operations that only read a tree leave its rendering as it was", not changed)
        if bad_build:
            ctx.extra["disagree_build_api"] = bad_build[:3]
        if changed:
            ctx.extra["rendering_changed_by_reading"] = changed[:3]

        # ---- edge trees (names tell the flags): whitespace-at-block-edges oracle ----------------
        name = "placements of an edge tree (every entry point)"
        cases = []
        for _ in range(ctx.budget(500, 10000)):
            counter = [0]
            d = edge_doc_tree(rng, counter) if rng.random() < 0.4 else edge_tree(rng, rng.choice([1, 2, 3]), counter)
            cases.append((d, rng.randrange(0, 1000), rand_ops(rng, True, d[1])))
        cases = ctx.select(name, cases)
        for c in cases:
            d, mode, ops = c
            flags = dict(WRAP_FLAGS)
            flags.update(edge_flags(d))
            for n in list(flags):
                if re.fullmatch(r"[bi]\d+", n) is None and n not in ("html", "body", "head", "br", "hr") \
                        and n not in WRAP_FLAGS:
                    flags[n] = None
            ctx.count(c, True, "edge placement")
            xb = safe_call(lambda: build_api(d, mode))
            if xb[0] != "ok":
                continue
            x = xb[1]
            render_x = lambda: x.get_html_string(0, SENT) + SENT + Tag("section", "a", x, "b").get_html_string(0, SENT)
            base = safe_call(render_x)
            if base[0] != "ok":
                continue
            msg = edges_ok_general(base[1], flags)
            if msg:
                ctx.violation(f"{name}: tree built through the public API: {msg}", c, {"impl_output": base[1]})
                continue
            for op in ops:
                opflags = doc_op_flags(op, d, flags)
                for label, r, wk, extras in run_op(op, x, None, tmp):
                    if r[0] != "ok" or not isinstance(r[1], str):
                        continue
                    msg = edges_ok_general(r[1], opflags)
                    if msg:
                        ctx.violation(f"{name}: {msg}, in the output of: {label}", c, {"op": op, "impl_output": r[1][:4000]})
                after = safe_call(render_x)
                if after != base:
                    msg = edges_ok_general(after[1], flags) if after[0] == "ok" else None
                    if msg:
                        ctx.violation(f"{name}: after {op[0]} ({op[1:3]!r}) the same object renders differently: {msg}", c,
                                      {"op": op, "before": base[1][:4000], "after": after[1][:4000]})
                    break
    finally:
        shutil.rmtree(tmp, ignore_errors=True)


def run(ctx: Ctx) -> None:
    rng = ctx.rng
    ctx.rule = ("unrestricted random trees over {block, inline, void, script/style tags, text, HTML, repr-object, "
                "metadata}, block-inside-inline nestings included, depth <= 5 plus sparse wide (up to 300 children / "
                "attributes), deep (chains up to 70) and long-string (up to 70000 characters) trees, indent 0..4 and "
                "sparsely up to 300, usual and odd eol strings; oracle "
                "per maximal run of adjacent inline-only siblings at every level (flat form from the Coq spec must "
                "be a substring of the implementation's output) and a token-level whitespace-at-block-edges check "
                "with a sentinel eol; both oracles also over placements: the tree built through each public "
                "construction route, then put through documents (HTMLDocument render / save_html / copy, "
                "Tag.save_html, HTMLTextDocument, head_content), parents, TagLists (+, +=, insert ...), with-blocks, "
                "copies, json render mode, and rendered again afterwards. Non-trivial = tree has an inline run of "
                ">= 2 items next to a block sibling; distinct = canonical (tree, indent, eol[, operations]).")
    ctx.assumptions = ["the extracted OCaml model/spec behave as their Gallina sources"]
    ctx.proof()

    cases = []
    for _ in range(ctx.budget(3000, 50000)):
        d = trees.rand_tree(rng, rng.choice([1, 2, 3, 3, 4, 5]), leaves="TTHRM", names="bbiiivsck", flip_ws=0.2)
        cases.append((d,) + rand_layout(rng))
    if ctx.replay is None:
        cases.extend(big_cases(rng, ctx.quick))

    cases = ctx.select("Tag.get_html_string (unrestricted trees)", cases)
    cases = type(cases)(tuple(c)[:3] for c in cases)
    # flat forms of every inline run, from the extracted specification
    runlists = [tree_runs(c[0]) for c in cases]
    flats = spec_flats(runlists)
    for ci, (d, i, eol) in enumerate(cases):
        cases[ci] = (d, i, eol, runlists[ci])
    want_runs: dict[int, list[str]] = dict(enumerate(flats))
    index_of = {id(c): ci for ci, c in enumerate(cases)}

    def default_runs(c):
        return want_runs[index_of[id(c)]]

    def nontriv(c):
        return any(len([x for x in items if x[0] != "M"]) >= 2 for _, items in c[3]) and not inline_only(c[0])

    def oracle(c, out):
        if out[0] != "ok":
            return None
        msg = missing_run(default_runs(c), out[1])
        if msg:
            return msg
        # the same holds for every way of obtaining the markup (str, repr, _repr_html_, render, tagify)
        x = build(c[0], share=True)
        for name, f in trees.render_routes(x):
            r = safe_call(f)
            if r[0] != "ok":
                return f"{name} raised on a tree that get_html_string renders"
            msg = missing_run(default_runs(c), r[1], f" of {name}")
            if msg:
                return msg
        return None

    differential(
        ctx, "Tag.get_html_string (unrestricted trees)", cases,
        to_sx=lambda c: [2, to_sx(c[0]), c[1], S(c[2])],
        impl=lambda c: safe_call(lambda: build(c[0], share=True).get_html_string(c[1], c[2])),
        decode=lambda m: res_decode(m, unS), oracle=oracle, nontrivial=nontriv, kind=lambda c: "tag")

    # top-level lists (add_ws True / False)
    lcases = []
    for _ in range(ctx.budget(1000, 15000)):
        items = [trees.rand_child(rng, rng.choice([0, 1, 2]), leaves="TTHRM", names="bbiiivsck", flip_ws=0.2)
                 for _ in range(rng.choice([1, 2, 3, 4, 5]))]
        lcases.append((items,) + rand_layout(rng) + (rng.random() < 0.5,))
    for li, n in enumerate((SIZES + SIZES) * (1 if ctx.quick else 3) if ctx.replay is None else []):
        # long lists: a whitespace-enabled item early on, the long run and its end beyond it
        items = [small_inline(rng, i) for i in range(n)]
        items[rng.randrange(0, min(n, 6))] = ("G", "div", True, [], [("T", "blk")])
        items[-1] = ("G", "span", False, [], [("G", "b", False, [], [("T", "last")]), ("R", "<u>end</u>")])
        lcases.append((items, rng.randrange(0, 3), rng.choice(EOLS), li % 2 == 0))   # (each size with either flag)
    lname = "TagList.get_html_string (unrestricted items)"
    lcases = ctx.select(lname, lcases)
    lcases = type(lcases)(tuple(c)[:4] for c in lcases)
    lflats = spec_flats([_list_runs(c[0]) for c in lcases])
    lwant = {id(c): f for c, f in zip(lcases, lflats)}

    def loracle(c, out):
        if out[0] == "ok":
            # adjacent inline items of a list have nothing between them, whatever add_ws says
            msg = missing_run(lwant[id(c)], out[1])
            if msg:
                return msg
        return trees.routes_disagree(build_list(c[0])) if c[3] else None

    differential(
        ctx, lname, lcases,
        to_sx=lambda c: [3, [to_sx(d) for d in c[0]], c[1], S(c[2]), 1 if c[3] else 0, 1],
        impl=lambda c: safe_call(lambda: build_list(c[0]).get_html_string(c[1], c[2], add_ws=c[3])),
        oracle=loracle,
        decode=lambda m: res_decode(m, unS), nontrivial=lambda c: len(c[0]) >= 2, kind=lambda c: "list")

    # whitespace only at the edges of whitespace-enabled tags (implementation only)
    for _ in range(ctx.budget(2500, 40000)):
        d = edge_tree(rng, rng.choice([1, 2, 3, 4]), [0])
        out = safe_call(lambda: build_edge(d).get_html_string(0, SENT))
        ctx.count(("edges", d), d[2] or "'F'" in repr(d) or not inline_only(d), "edge tree")
        if out[0] == "ok":
            msg = edges_ok(out[1])
            if msg:
                ctx.violation("layout whitespace away from any whitespace-enabled tag", d,
                              {"impl_output": out[1], "why": msg})

    # both oracles over every construction route, entry point and placement
    placements(ctx)


def _list_runs(items):
    """runs among the items of a top-level list and inside them"""
    rs = []
    runs_of(("G", "div", True, [], list(items)), rs)
    return rs


def replay(ctx: Ctx, path: str) -> None:
    """re-run the recorded input (the step that reported it runs that single case)"""
    ctx.load_replay(path)
    run(ctx)

"""C10  Dependencies are validated, then resolve one per name to the highest version.

Step B compares /repo with the extracted Coq model (driver c10, Model/DriverC10.v):
  op 1/2  TagList / Tag .get_dependencies(dedup) and render()['dependencies'] on forests
  op 3    packaging.version.Version ordering vs ver_cmp on dotted release strings
  op 4    HTMLDependency(...) argument validation (result attributes / exception kind)
Step C decides the property with Python oracles transcribed from the property text
(document order, first-occurrence order, earliest numeric maximum, well-formedness) and
with the extracted Coq specification functions (spec_get_dependencies, spec_error).

ENTRY POINTS that reach the behaviour the property describes (each is exercised below with
default and non-default arguments and judged by the property's own oracle: spec_deps):
  collection / resolution
    TagList.get_dependencies(*, dedup=True|False)          Tag.get_dependencies(dedup) (keyword and positional)
    TagList.render()['dependencies']                        Tag.render()['dependencies']
    HTMLDocument(*children | TagList | one tag, **attrs: lang=, class_=, style=)
        .render(lib_prefix='lib'|None|'a/b', include_version=True|False)['dependencies']
        .append(*children), copy.copy(document), a lone <html> / <body> / other top-level tag
        with dependency objects before / after / inside it
    Tag.save_html / TagList.save_html(file, libdir='lib'|None|'x/y', include_version=) and
        HTMLDocument.save_html(file, libdir, include_version): the dependencies written to the file
    str() / repr() / _repr_html_() with htmltools.html_dependency_render_mode = 'json' (the
        serialised dependencies follow the markup) and that text given to HTMLTextDocument(...)
        .render(lib_prefix=, include_version=)['dependencies'];  HTMLTextDocument(template, deps=,
        deps_replace_pattern=<a pattern full of regex metacharacters>)
  ways a tree comes into being (the reported dependencies depend on document order only)
    Tag(...) / TagList(...) / tags.<name>(...) constructors (children, nested lists / tuples / TagLists,
    attribute dicts and other tags' .attrs objects between the children), append (one / many),
    extend, insert (front / middle), TagList + / reflected + / +=, the with-block route
    (sys.displayhook inside `with tag:`), copy.copy, copy.deepcopy, tagify(), one Tag object placed
    in two parents, tagifiable objects (also ones that are self-rendering too), JSX components
  construction / validation
    HTMLDependency(name, version: str | Version, source=, script=, stylesheet=, meta=) with None /
    dict / dict subclass / list / tuple / str / other; items dict, dict subclass or one of many
    kinds of non-dict objects (also ones dict() would convert and that carry the required keys)
SIZES: children / dependencies per level / rows / names / versions of one name / version
components / items per list / keys per dict just below, at and above 8, 16, 32, 64, 128, 256 and
300; nesting depth of tags and of list / tuple / TagList wrappers up to 70; names and version
strings of > 300, > 5000 and > 70000 characters that differ only in their last character."""
from __future__ import annotations

import collections
import copy as _copy
import glob
import itertools
import json
import os
import re
import shutil
import sys
import tempfile
import types

from ..common import Ctx, S, VERIF, run_model
from .. import trees
from ..trees import safe_call

import htmltools
from htmltools import HTML, HTMLDependency, HTMLDocument, HTMLTextDocument, Tag, TagList
from packaging.version import Version

VERSIONS = ["1", "1.0", "1.9", "1.10", "1.10.0", "01.2", "2", "0.0.1"]
NAMES = ["a", "b", "jq", "A", "a "]


# ------------------------------------------------------------------------------------
# specification side (written from the property text, not from the code)
# ------------------------------------------------------------------------------------
def xs(v) -> str:
    """A name / version of a case is a str, or - so that very long ones stay readable in a replay
    file - the compact form ['L', unit, count, tail] meaning unit * count + tail."""
    if isinstance(v, (list, tuple)):
        return v[1] * v[2] + v[3]
    return v


def norm_deps(deps: list) -> list:
    return [(xs(n), xs(v), c) for n, v, c in deps]


def release(s: str) -> list[int]:
    """a dotted release string as its numbers"""
    return [int(x) for x in s.split(".")]


def spec_vcmp(a: list[int], b: list[int]) -> int:
    """version-number ordering: component-wise numeric, missing components count as 0"""
    n = max(len(a), len(b))
    pa, pb = a + [0] * (n - len(a)), b + [0] * (n - len(b))
    return (pa > pb) - (pa < pb)


def spec_resolve(seq: list[int], deps: list) -> list[int]:
    """seq: dependency indices in document order.  One per name, names by first occurrence,
    each represented by the earliest occurrence of maximal version."""
    names: list[str] = []
    occ: dict[str, list[int]] = {}
    for i in seq:
        if deps[i][0] not in occ:
            names.append(deps[i][0])
            occ[deps[i][0]] = []
        occ[deps[i][0]].append(i)
    rel = {i: release(deps[i][1]) for i in set(seq)}
    out = []
    for n in names:
        cands = occ[n]
        # a maximal version: one that no candidate exceeds; the earliest occurrence of such a one
        top = cands[0]
        for i in cands:
            if spec_vcmp(rel[i], rel[top]) > 0:
                top = i
        out.append(next(i for i in cands if spec_vcmp(rel[i], rel[top]) >= 0))
    return out


def doc_order(kids: list, into_custom: bool) -> list[int]:
    """dependency placements of a forest description in document order"""
    out: list[int] = []
    for k in kids:
        t = k[0]
        if t == "D":
            out.append(k[1])
        elif t == "G":
            out += doc_order(k[3], into_custom)
        elif t == "L":
            out += doc_order(k[2], into_custom)
        elif t == "C" and into_custom:
            out += doc_order(k[1], into_custom)
    return out


def spec_deps(case: dict) -> list[int]:
    render = case["mode"].startswith("render")
    seq = doc_order(case["forest"], into_custom=render)
    if case["dedup"] or render:
        return spec_resolve(seq, norm_deps(case["deps"]))
    return seq


# ------------------------------------------------------------------------------------
# forests
#   ('D', i)  dependency object i        ('T'|'H'|'R', s)  str / HTML / _repr_html_ object
#   ('N',)    None                        ('G', name, ws, kids)  Tag
#   ('L', how, kids)  list / tuple / TagList wrapper (flattened on construction)
#   ('C', exp, as_list)  tagifiable non-Tag object (only render() looks inside)
# ------------------------------------------------------------------------------------
def build_deps(deps: list) -> list:
    """the dependency objects of a case.  The version is given as a str or (every third object) as a
    packaging Version; the script file name carries the object's index, so that the object can be
    recognised in serialised forms too (<script src=...> in a document head, JSON)"""
    objs = []
    for i, (name, ver, content) in enumerate(norm_deps(deps)):
        if name.startswith("@hc:"):
            # head_content(x): a dependency whose name is derived from the markup of x (equal markup,
            # equal name; the version is always 0.0), so the "name" of the case stands for that markup
            d = htmltools.head_content(Tag("title", name[4:]))
        else:
            d = HTMLDependency(name, Version(ver) if i % 3 == 2 else ver, script={"src": f"c{content}_{i}.js"})
        d._verif_id = i  # survives copy(), which tagify() applies to metadata nodes
        objs.append(d)
    return objs


SRC_RE = re.compile(r"c\d+_(\d+)\.js$")


def build(d, objs, memo=None):
    """live objects of a forest node.  memo (a dict): a Tag whose description is equal to one built
    earlier in the same forest is (every other time) that very object again: one object in two
    parents, which every read-only operation must treat like two equal objects"""
    k = d[0]
    if k == "D":
        return objs[d[1]]
    if k == "T":
        return d[1]
    if k == "H":
        return HTML(d[1])
    if k == "R":
        return trees.ReprObj(d[1])
    if k == "N":
        return None
    if k == "G":
        hit = None
        if memo is not None:
            key = json.dumps(d)
            hit = memo.get(key)
            if hit is not None:
                hit[1] += 1
                if hit[1] % 2 == 0:
                    return hit[0]
        o = Tag(d[1], *[build(x, objs, memo) for x in d[3]], _add_ws=d[2])
        if memo is not None and hit is None:
            memo[key] = [o, 1]
        return o
    if k == "L":
        kb = [build(x, objs, memo) for x in d[2]]
        return {"list": list, "tuple": tuple}.get(d[1], lambda l: TagList(*l))(kb)
    if k == "C":
        return mk_custom([build(x, objs, memo) for x in d[1]], d)
    raise ValueError(d)


def mk_custom(kb: list, d):
    """a tagifiable non-Tag object; every other shape is ALSO self-rendering (_repr_html_)"""
    if (len(kb) + (1 if d[2] else 0)) % 2 == 0:
        return trees.CustomReprObj(kb, d[2], "<i>own markup</i>")
    return trees.CustomObj(kb, d[2])


def dep_sx(i: int, deps: list) -> list:
    name, ver, _ = deps[i]
    return [S(xs(name)), release(xs(ver)), i]


def kids_sx(kids: list, deps: list, expand: bool) -> list:
    out = []
    for k in kids:
        t = k[0]
        if t == "D":
            out.append([3, dep_sx(k[1], deps)])
        elif t == "T":
            out.append([0, S(k[1])])
        elif t == "H":
            out.append([1, S(k[1])])
        elif t == "R":
            out.append([2, S(k[1])])
        elif t == "N":
            pass
        elif t == "G":
            out.append([4, S(k[1]), 1 if k[2] else 0, [], kids_sx(k[3], deps, expand)])
        elif t == "L":
            out += kids_sx(k[2], deps, expand)
        elif t == "C":
            if expand:      # what tagify() leaves in the sibling list
                out += kids_sx(k[1], deps, expand)
            else:
                out.append([5, [], kids_sx(k[1], deps, expand)])
        else:
            raise ValueError(k)
    return out


def case_sx(case: dict) -> list:
    mode, deps = case["mode"], case["deps"]
    render = mode.startswith("render")
    kids = kids_sx(case["forest"], deps, expand=render)
    dedup = 1 if (case["dedup"] or render) else 0
    if mode.endswith("tag"):
        return [2, dedup, [4, S("div"), 1, [], kids]]
    return [1, dedup, kids]


def ids_of(lst, objs, by_identity: bool):
    """-> (indices of the reported objects, each is the placed object itself?)"""
    ids = [getattr(x, "_verif_id", -1) for x in lst]
    same = True
    if by_identity:
        same = all(0 <= i < len(objs) and x is objs[i] for x, i in zip(lst, ids))
    return ids, same


def clobber(lst) -> None:
    """what is returned belongs to the caller, who may do with it as he likes"""
    try:
        if isinstance(lst, list):
            lst.reverse()
            lst.append(None)
            del lst[:1]
    except Exception:
        pass


def run_impl(case: dict):
    """-> (canonical result, identity_ok, afterwards)
    afterwards: the same question asked again after the caller has modified the list he got, and
    the plain collection (dedup off) of the same objects after that: both are functions of the
    tree alone, so state kept between calls, a result aliased to internals or a tree modified by
    a read-only call shows there"""
    objs = build_deps(case["deps"])
    mode = case["mode"]
    memo: dict = {}
    built = [build(x, objs, memo) for x in case["forest"]]
    x = safe_call(lambda: TagList(*built) if mode.endswith("list") else Tag("div", *built))
    if x[0] != "ok":
        return x, True, None
    x = x[1]
    if mode in ("list", "tag"):
        def call():
            return x.get_dependencies(dedup=case["dedup"])
    elif mode in ("render_list", "render_tag"):
        def call():
            return x.render()["dependencies"]
    else:
        raise ValueError(mode)
    r = safe_call(call)
    if r[0] != "ok":
        return r, True, None
    by_id = not mode.startswith("render")
    ids, same = ids_of(r[1], objs, by_id)
    clobber(r[1])
    r2 = safe_call(call)
    again = ("ok", ids_of(r2[1], objs, by_id)[0]) if r2[0] == "ok" else r2
    r3 = safe_call(lambda: x.get_dependencies(dedup=False))
    plain = ("ok", ids_of(r3[1], objs, True)[0]) if r3[0] == "ok" else r3
    return ("ok", ids), same, {"again": again, "plain": plain}


def rand_node(rng, depth: int, nd: int, custom: bool):
    r = rng.random()
    if depth > 0 and r < 0.30:
        name, ws = trees.rand_name(rng, "bbbiivsc")
        if rng.random() < 0.08:
            name, ws = rng.choice(["html", "body", "head"]), True
        return ("G", name, ws, rand_kids(rng, depth - 1, nd, custom))
    if depth > 0 and r < 0.38:
        return ("L", rng.choice(["list", "tuple", "taglist"]), rand_kids(rng, depth - 1, nd, custom))
    if custom and depth > 0 and r < 0.47:
        n = rng.choice([0, 1, 1, 2, 3])
        as_list = n != 1 or rng.random() < 0.6
        exp = [rand_node(rng, depth - 1, nd, False) for _ in range(n)]
        if not as_list:
            while exp[0][0] in "LN":
                exp = [rand_node(rng, depth - 1, nd, False)]
        return ("C", exp, as_list)
    if r < 0.86 and nd > 0:
        return ("D", rng.randrange(nd))
    k = rng.choice("THRN")
    if k == "N":
        return ("N",)
    return (k, trees.rand_text(rng, 4))


def rand_kids(rng, depth: int, nd: int, custom: bool) -> list:
    kids = [rand_node(rng, depth, nd, custom) for _ in range(rng.choice([0, 1, 1, 2, 2, 3, 4]))]
    if depth > 0 and kids and rng.random() < 0.06:
        # an equal sub-tree at a second place (build() may make the two one object)
        tags_ = [k for k in kids if k[0] == "G"]
        if tags_:
            kids.insert(rng.randrange(len(kids) + 1), rng.choice(tags_))
    return kids


# ------------------------------------------------------------------------------------
# SIZE AND DEPTH: few, big forests.  Whatever can be counted is taken just below, at and above the
# powers of two from 8 to 256 (and 300); what decides the answer sits in the tail.
# ------------------------------------------------------------------------------------
SIZES = [7, 8, 9, 15, 16, 17, 31, 32, 33, 63, 64, 65, 66, 127, 128, 129, 255, 256, 257, 300]
DEPTHS = [7, 8, 9, 15, 16, 17, 31, 32, 33, 63, 64, 65, 70]


def big_pool(rng, kind: str, n: int) -> tuple[list, list]:
    """-> (deps, sequence of n placements); the last placements decide something:
    a new name, the strict maximum of an old name, or a later equal of the maximum (must lose)"""
    if kind == "family":
        names = rng.sample(["w", "x", "jq"], rng.choice([1, 2, 3]))
        deps = [(rng.choice(names), rng.choice(VERSIONS) if rng.random() < 0.6 else rand_version(rng), rng.choice([0, 1]))
                for _ in range(rng.choice([4, 6, 10]))]
        seq = [rng.randrange(len(deps)) for _ in range(n - 2)]
    elif kind == "names":
        deps = [(f"n{i}", rng.choice(VERSIONS), 0) for i in range(n - 2)]
        seq = list(range(n - 2))
    elif kind == "versions":
        vs = [f"{rng.choice([0, 1, 1, 2])}.{i}" for i in range(n - 2)]
        rng.shuffle(vs)
        deps = [("w", v, 0) for v in vs]
        seq = list(range(n - 2))
    elif kind == "components":
        # versions with about n components that differ in the last one only / by trailing zeros
        deps = [("w", ["L", "1.", n - 1, t], c) for t, c in (("7", 0), ("8", 0), ("8.0", 1), ("08", 2), ("6", 0))]
        deps.append(("w", ["L", "1.", n - 2, "9"], 0))
        seq = [rng.randrange(len(deps)) for _ in range(min(n, 12))]
        return deps, seq
    else:
        raise ValueError(kind)
    # the tail
    first = deps[seq[0]]
    r = rng.random()
    if r < 0.4:
        deps.append((first[0], "999.1", 5))            # strict maximum of the first name: last
        deps.append(("zz-last", "1", 0))                # a new name: very last
    elif r < 0.7:
        deps.append((first[0], "999.1", 5))
        deps.append((first[0], "999.1.0", 6))           # equal to the maximum, later: loses
    else:
        deps.append(("zz-last", "1.0", 0))
        deps.append(("zz-last", "1", 1))
    return deps, seq + [len(deps) - 2, len(deps) - 1]


def shape_rows(seq: list, cell_depth: int = 1) -> list:
    rows = []
    for j, i in enumerate(seq):
        cell = [("D", i), ("T", "c")]
        for _ in range(cell_depth):
            cell = [("G", "span", False, cell)]
        rows.append(("G", "tr", True, [("G", "td", True, [("T", f"r{j % 3}")]), ("G", "td", True, cell)]))
    return rows


def shape_chain(rng, seq: list, depth: int, wrappers: bool, custom_inner: bool = False) -> list:
    """a chain of `depth` nested tags (or list / tuple / TagList wrappers); the dependencies are
    spread over the levels, before and after the nested child; the two deciding ones (the end of seq)
    sit innermost, at full depth"""
    seq, deciding = seq[:-2], seq[-2:]
    cuts = sorted(rng.randrange(len(seq) + 1) for _ in range(2 * depth))
    parts = [seq[a:b] for a, b in zip([0] + cuts, cuts + [len(seq)])]      # 2*depth + 1 parts
    before, inner, after = parts[:depth], parts[depth] + deciding, parts[depth + 1:]
    node = [("D", i) for i in inner]
    if custom_inner:
        # ... inside a tagifiable object at the bottom: only the rendering routes look into it
        node = [("D", i) for i in inner[:-2]] + [("C", [("D", i) for i in deciding], True)]
    for lvl in range(depth - 1, -1, -1):
        kids = [("D", i) for i in before[lvl]] + node + [("D", i) for i in after[depth - 1 - lvl]]
        if wrappers:
            node = [("L", ["list", "tuple", "taglist"][lvl % 3], kids)]
        else:
            node = [("G", ["div", "span", "section", "b"][lvl % 4], lvl % 4 in (0, 2), kids)]
    return node


def big_forests(rng, quick: bool) -> list[tuple[list, list, str]]:
    """-> [(deps, forest, label)]"""
    out = []
    for n in SIZES:
        for shape in (["flat", "rows", rng.choice(["split", "groups"])] if quick else ["flat", "rows", "split", "groups"]):
            kind = rng.choice(["family", "family", "names", "versions"] if n > 9 else ["family"])
            deps, seq = big_pool(rng, kind, n)
            if shape == "flat":
                forest = [("D", i) for i in seq]
            elif shape == "rows":
                forest = shape_rows(seq, rng.choice([0, 1, 2]))
                if rng.random() < 0.5:
                    forest = [("G", "table", True, [("G", "tbody", True, forest)])]
            elif shape == "split":
                rows = shape_rows(seq)
                h = len(rows) // 2
                forest = [("G", "div", True, [("L", "taglist", rows[:h]), ("G", "table", True, rows[h:])])]
            else:
                # sibling tags of g dependencies each
                g = rng.choice([2, 3, 8, 9])
                forest = [("G", "ul", True, [("D", i) for i in seq[a:a + g]]) for a in range(0, len(seq), g)]
            out.append((deps, forest, f"{shape}/{kind}/{n}"))
        if n >= 15:
            deps, seq = big_pool(rng, "components", n)
            out.append((deps, [("D", i) for i in seq], f"flat/components/{n}"))
    for d in DEPTHS:
        for kind in ("chain", "chain-custom", "wrappers"):
            deps, seq = big_pool(rng, "family", rng.choice([d, 2 * d, 3 * d + 1]))
            out.append((deps, shape_chain(rng, seq, d, kind == "wrappers", kind == "chain-custom"), f"{kind}/{d}"))
    # long names (and versions) that differ in their last character only
    for ln in (300, 5000, 70000):
        half = ln // 2 + 1
        deps = [(["L", "ab", half, "x"], "1.2", 0), (["L", "ab", half, "y"], "1.10", 0), (["L", "ab", half, "x"], "1.10", 1),
                (["L", "ab", half, "y"], "1.9", 2), (["L", "ab", half + 1, "x"], "3", 0), (["L", "ab", half, "x"], "1.10.0", 2),
                ("w", ["L", "1.", half, "1"], 0), ("w", ["L", "1.", half, "2"], 1), ("w", ["L", "1.", half, "2.0"], 2)]
        seq = [0, 1, 6, 2, 3, 7, 4, 5, 8, 0]
        if ln > 5000:
            seq = [0, 1, 2, 3, 7, 5, 8]
        out.append((deps, [("D", i) for i in seq[:3]] + [("G", "div", True, [("D", i) for i in seq[3:]])], f"long/{ln}"))
    return out


def rand_version(rng) -> str:
    comp = ["0", "1", "2", "9", "10", "00", "01", "010", "11", "100", "3"]
    n = rng.choice([1, 1, 2, 2, 2, 3, 3, 4, 5])
    parts = []
    for _ in range(n):
        r = rng.random()
        if r < 0.75:
            parts.append(rng.choice(comp))
        elif r < 0.9:
            parts.append(str(rng.randrange(0, 1000)))
        else:
            parts.append(("0" if rng.random() < 0.3 else "") + str(rng.randrange(10**6, 10**17)))
    return ".".join(parts)


def rand_deps(rng, anyver: bool = False, hc: bool = False) -> list:
    nd = rng.choice([1, 2, 3, 3, 4, 5, 6, 8])
    names = rng.sample(NAMES, rng.choice([1, 1, 2, 2, 3]))
    out = []
    for _ in range(nd):
        ver = rand_version(rng) if anyver and rng.random() < 0.6 else rng.choice(VERSIONS)
        out.append((rng.choice(names), ver, rng.choice([0, 0, 1, 2])))
    if hc and rng.random() < 0.2:
        # head_content() objects among them (the same markup twice: one name)
        for _ in range(rng.choice([1, 2, 3])):
            out[rng.randrange(len(out))] = ("@hc:" + rng.choice(["t1", "t2"]), "0.0", 0)
    return out


def has_hc(deps: list) -> bool:
    return any(isinstance(d[0], str) and d[0].startswith("@hc:") for d in deps)


def collisions(case: dict) -> bool:
    seq = doc_order(case["forest"], into_custom=case["mode"].startswith("render"))
    names = [json.dumps(case["deps"][i][0]) for i in seq]
    return len(set(names)) < len(names)


def forests_over(seq: list, k: int) -> list:
    """all forests whose dependency leaves are seq (in order) using at most k non-empty tags"""
    if not seq:
        return [[]]
    out = [[("D", seq[0])] + rest for rest in forests_over(seq[1:], k)]
    if k > 0:
        for j in range(1, len(seq) + 1):
            for k1 in range(0, k):
                for inner in forests_over(seq[:j], k1):
                    for rest in forests_over(seq[j:], k - 1 - k1):
                        out.append([("G", "div" if j % 2 else "span", bool(j % 2), inner)] + rest)
    # the same forest can be produced with different budgets: dedup
    seen, uniq = set(), []
    for f in out:
        key = json.dumps(f)
        if key not in seen:
            seen.add(key)
            uniq.append(f)
    return uniq


def check_tree_cases(ctx: Ctx, name: str, cases: list[dict], kind: str) -> None:
    model = run_model([case_sx(c) for c in cases], driver="c10")
    disagreements, spec_mismatch, ident_bad = [], [], []
    for c, m in zip(cases, model):
        ctx.count(c, collisions(c), kind + ":" + c["mode"] + ("" if c["dedup"] else ":nodedup"))
        iv, same, after = run_impl(c)
        want = ("ok", spec_deps(c))
        if iv != want:
            ctx.violation("reported dependencies are not the document-order collection " +
                          ("resolved to the earliest highest version per name in first-occurrence order"
                           if c["dedup"] else "(dedup disabled: nothing dropped or reordered)"),
                          c, {"impl_output": iv, "expected": want})
        elif not same:
            ctx.violation("get_dependencies does not return the placed objects themselves",
                          c, {"impl_output": iv, "expected": "the same objects"})
        elif after is not None:
            plain = ("ok", doc_order(c["forest"], into_custom=False))
            if after["again"] != want:
                ctx.violation("asking for the dependencies of the same tree a second time (after the caller modified "
                              "the list returned the first time) gives another answer", c,
                              {"impl_output": after["again"], "expected": want})
            elif after["plain"] != plain:
                ctx.violation("after the dependencies of a tree were reported, get_dependencies(dedup=False) on the "
                              "same tree is not its document-order collection (nothing dropped or reordered)", c,
                              {"impl_output": after["plain"], "expected": plain})
        if isinstance(m, tuple):
            mv, sv = ("!", m[1]), None
        elif c["mode"].endswith("tag"):
            mv, sv = trees.res_decode(m), None
        else:
            mv, sv = ("ok", m[0]), ("ok", m[1])
        if mv != iv:
            disagreements.append({"case": c, "impl_output": iv, "model_output": mv})
        if sv is not None and sv != want:
            spec_mismatch.append({"case": c, "coq_spec": sv, "python_spec": want})
    ctx.corr_cases += len(cases)
    ctx.obligation(f"correspondence {name} ({len(cases)} cases)", not disagreements)
    ctx.obligation(f"Coq spec_get_dependencies = Python transcription of the statement on {name}",
                   not spec_mismatch)
    for what, l in (("disagree_" + name, disagreements), ("specmismatch_" + name, spec_mismatch)):
        if l:
            l.sort(key=lambda d: len(json.dumps(d["case"])))
            ctx.extra[what] = l[:3]


# ------------------------------------------------------------------------------------
# ENTRY POINTS: the same forests, assembled and observed through every public route.
#   route = {"container": "list" | "tag" | "doc",  "name": tag name (container tag),
#            "build": how the container gets its children, "split": where a two-step build splits,
#            "post": None | "copy" | "deepcopy" | "tagify",
#            "observe": "get" | "render" | "doc" | "save" | "json" | "textdoc" | "textdoc_deps",
#            "dedup": bool (observe get), "how": variant of the observation, "lib": lib_prefix / libdir,
#            "incver": include_version, "kw": document attributes}
# Oracle only (spec_route): what is reported is a function of the document order of the
# dependency objects, whatever the route.
# ------------------------------------------------------------------------------------
BUILDS_LIST = ["ctor", "nested", "append", "append_many", "extend", "insert_front", "insert_mid", "add", "radd", "iadd"]
BUILDS_TAG = BUILDS_LIST + ["with", "tagfn", "attrs_between"]
BUILDS_DOC = ["ctor", "taglist", "append", "copy"]
ODD_PATTERN = "(.*)[x]+$^\\d{2}|<!-- deps? -->"


def rand_doc_forest(rng, nd: int) -> list:
    """top-level children of a document: mostly ONE visible tag - <html> (with or without its own
    <head> / <body>), <body> or something else - with dependency objects (bare, in lists, None
    between them) before and after it, and inside it"""
    def deps_run():
        out = []
        for _ in range(rng.choice([0, 0, 1, 1, 2, 3])):
            r = rng.random()
            if r < 0.7 and nd:
                out.append(("D", rng.randrange(nd)))
            elif r < 0.85 and nd:
                out.append(("L", rng.choice(["list", "tuple", "taglist"]), [("D", rng.randrange(nd)) for _ in range(rng.choice([1, 2]))]))
            else:
                out.append(("N",))
        return out

    def top(name):
        if name == "html" and rng.random() < 0.7:
            kids = deps_run()
            if rng.random() < 0.7:
                kids.append(("G", "head", True, rand_kids(rng, 1, nd, False)))
            kids += deps_run()
            if rng.random() < 0.8:
                kids.append(("G", "body", True, rand_kids(rng, 2, nd, True)))
            kids += deps_run() if rng.random() < 0.3 else []
            return ("G", "html", True, kids)
        return ("G", name, name != "span", rand_kids(rng, rng.choice([1, 2, 2]), nd, True))

    forest = deps_run()
    r = rng.random()
    nvis = 1 if r < 0.75 else 2 if r < 0.93 else 0
    for _ in range(nvis):
        if rng.random() < 0.15:
            forest.append(rng.choice([("T", "text"), ("H", "<hr>"), ("C", [("G", "body", True, rand_kids(rng, 1, nd, False))], False)]))
        else:
            forest.append(top(rng.choice(["html", "html", "body", "body", "div", "head", "span"])))
        forest += deps_run()
    return forest


def rand_route(rng, container: str | None = None) -> dict:
    container = container or rng.choice(["list", "tag", "tag", "doc"])
    route = {"container": container, "name": rng.choice(["div", "div", "span", "body", "html", "table", "head"]),
             "split": rng.choice([0, 1, 1, 2, 3]), "post": rng.choice([None, None, None, "copy", "deepcopy", "tagify"]),
             "dedup": rng.random() < 0.5, "how": rng.randrange(3), "lib": rng.choice(["lib", "lib", None, "a/b", ""]),
             "incver": rng.random() < 0.6,
             "kw": rng.choice([{}, {}, {"lang": "en"}, {"class_": "c1 c2", "style": "margin:0"}, {"lang": "fr", "data_x": "1"}])}
    if container == "doc":
        route["build"] = rng.choice(BUILDS_DOC)
        route["post"] = None
        route["observe"] = rng.choice(["doc", "doc", "doc", "save"])
    else:
        route["build"] = rng.choice(BUILDS_LIST if container == "list" else BUILDS_TAG)
        route["observe"] = rng.choice(["get", "get", "render", "doc", "doc", "save", "json", "textdoc", "textdoc_deps"])
    return route


class _Sink:
    """stands in for the interpreter's display hook while a with-block route runs"""

    def __call__(self, value):
        return None


def assemble(route: dict, kids: list):
    """the container with the children kids (in this order), built the way the route says"""
    b, cont, name = route["build"], route["container"], route["name"]
    j = min(route["split"], len(kids))
    if cont == "doc":
        kw = route["kw"]
        if b == "ctor":
            return HTMLDocument(*kids, **kw)
        if b == "taglist":
            return HTMLDocument(TagList(*kids), **kw)
        if b == "append":
            doc = HTMLDocument(*kids[:j], **kw)
            for k in kids[j:j + 1]:
                doc.append(k)
            if kids[j + 1:]:
                doc.append(*kids[j + 1:])
            return doc
        if b == "copy":
            doc = HTMLDocument(*kids[:j], **kw)
            cp = _copy.copy(doc)
            if kids[j:]:
                cp.append(*kids[j:])
            return cp
        raise ValueError(b)

    def new(*a):
        return Tag(name, *a) if cont == "tag" else TagList(*a)

    if b == "ctor":
        return new(*kids)
    if b == "tagfn":
        return (getattr(htmltools, name, None) or getattr(htmltools.tags, name))(*kids)     # top-level re-export / tags.<name>
    if b == "attrs_between":
        other = Tag("p", {"class": "k"}, id="other")
        mixed = list(kids)
        mixed.insert(j, {"title": "t"})
        mixed.insert(min(j + 2, len(mixed)), other.attrs)        # another tag's attribute object
        return Tag(name, *mixed, class_="own")
    if b == "nested":
        return new(kids[:j], tuple(kids[j:]))
    if b == "append":
        x = new()
        for k in kids:
            x.append(k)
        return x
    if b == "append_many":
        x = new(*kids[:j])
        if kids[j:]:
            x.append(*kids[j:])
        return x
    if b == "extend":
        x = new(*kids[:j])
        x.extend(kids[j:])
        x.extend(())
        return x
    if b == "insert_front":
        x = new(*kids[j:])
        for k in reversed(kids[:j]):
            x.insert(0, k)
        return x
    if b == "insert_mid":
        if not kids:
            return new()
        j = min(j, len(kids) - 1)
        x = new(*kids[:j], *kids[j + 1:])
        x.insert(len(TagList(*kids[:j])), kids[j])
        return x
    if b in ("add", "radd", "iadd"):
        if b == "add":
            tl = TagList(*kids[:j]) + kids[j:]
        elif b == "radd":
            tl = kids[:j] + TagList(*kids[j:])
        else:
            tl = TagList(*kids[:j])
            tl += kids[j:]
        return Tag(name, tl) if cont == "tag" else tl
    if b == "with":
        t = Tag(name)
        old = sys.displayhook
        sys.displayhook = _Sink()
        try:
            with t:
                for k in kids:
                    sys.displayhook(k)
        finally:
            sys.displayhook = old
        return t
    raise ValueError(b)


def ids_from_srcs(srcs: list[str]) -> list[int]:
    out = []
    for s_ in srcs:
        m = SRC_RE.search(s_)
        out.append(int(m.group(1)) if m else -1)
    return out


def ids_from_objs(lst) -> list[int]:
    """index of each reported dependency: the marker attribute, or (reconstituted objects) the index
    carried by the script file name"""
    out = []
    for d in lst:
        i = getattr(d, "_verif_id", None)
        if i is None:
            sc = getattr(d, "script", None) or [{}]
            i = ids_from_srcs([str(sc[0].get("src", ""))])[0]
        out.append(i)
    return out


JSON_DEP_RE = re.compile(r'<script type="application/json" data-html-dependency="">(.*?)</script>', re.S)
HEAD_SRC_RE = re.compile(r'<script src="([^"]*)"')


def in_json_mode(f):
    old = htmltools.html_dependency_render_mode
    htmltools.html_dependency_render_mode = "json"
    try:
        return f()
    finally:
        htmltools.html_dependency_render_mode = old


def observe(route: dict, x, tmp: str) -> list[int]:
    """the dependencies reported for x through the route's observation, as object indices"""
    o, how = route["observe"], route["how"]
    post = route["post"]
    if post == "copy":
        x = _copy.copy(x)
    elif post == "deepcopy":
        x = _copy.deepcopy(x)
    elif post == "tagify":
        x = x.tagify()
    is_doc = isinstance(x, HTMLDocument)
    if o == "get":
        if route["dedup"] and how == 0:
            return ids_from_objs(x.get_dependencies())
        if isinstance(x, Tag) and how == 1:
            return ids_from_objs(x.get_dependencies(route["dedup"]))
        return ids_from_objs(x.get_dependencies(dedup=route["dedup"]))
    if o == "render":
        return ids_from_objs(x.render()["dependencies"])
    if o == "doc":
        doc = x if is_doc else HTMLDocument(x, **route["kw"]) if how else HTMLDocument(TagList(x), **route["kw"])
        if route["lib"] == "lib" and route["incver"]:
            return ids_from_objs(doc.render()["dependencies"])
        return ids_from_objs(doc.render(lib_prefix=route["lib"], include_version=route["incver"])["dependencies"])
    if o == "save":
        d = tempfile.mkdtemp(dir=tmp)
        path = os.path.join(d, "page.html")
        kw = {} if (route["lib"] == "lib" and route["incver"]) else {"libdir": route["lib"], "include_version": route["incver"]}
        got = x.save_html(path, **kw)
        with open(got, encoding="utf-8") as f:
            text = f.read()
        return ids_from_srcs(HEAD_SRC_RE.findall(text))
    if o in ("json", "textdoc"):
        text = in_json_mode(lambda: [str, repr, lambda y: y._repr_html_()][how](x))
        if o == "json":
            return ids_from_srcs([json.loads(t)["script"][0]["src"] for t in JSON_DEP_RE.findall(text)])
        td = HTMLTextDocument("<html><head><!-- deps --></head><body>" + text + "</body></html>", deps_replace_pattern="<!-- deps -->")
        return ids_from_objs(td.render(lib_prefix=route["lib"], include_version=route["incver"])["dependencies"])
    if o == "textdoc_deps":
        deps = x.get_dependencies()
        td = HTMLTextDocument(f"<html><head>{ODD_PATTERN}</head><body>{ODD_PATTERN}</body></html>", deps=list(deps),
                              deps_replace_pattern=ODD_PATTERN)
        return ids_from_objs(td.render(lib_prefix=route["lib"])["dependencies"])
    raise ValueError(o)


def spec_route(case: dict) -> list[int]:
    route = case["route"]
    o = route["observe"]
    expands = route["post"] == "tagify" or o in ("render", "doc", "save", "json", "textdoc")
    seq = doc_order(case["forest"], into_custom=expands)
    if o == "get" and not route["dedup"]:
        return seq
    return spec_resolve(seq, norm_deps(case["deps"]))


def check_routes(ctx: Ctx, cases: list[dict], kind: str) -> None:
    tmp = tempfile.mkdtemp(prefix="verif-c10-")
    try:
        for c in cases:
            route = c["route"]
            ctx.count(c, True, f"{kind}:{route['container']}/{route['build']}/{route['post']}/{route['observe']}")
            objs = build_deps(c["deps"])
            memo: dict = {}
            kids = [build(k, objs, memo) for k in c["forest"]]
            want = ("ok", spec_route(c))
            got = safe_call(lambda: observe(route, assemble(route, kids), tmp))
            if got != want:
                what = ("dedup disabled: nothing dropped or reordered" if route["observe"] == "get" and not route["dedup"] else
                        "resolved to the earliest highest version per name in first-occurrence order")
                ctx.violation(f"the dependencies reported through {route['observe']} for a tree built by {route['build']}"
                              f"{' then ' + route['post'] if route['post'] else ''} are not its document-order collection ({what})",
                              c, {"impl_output": got, "expected": want})
    finally:
        shutil.rmtree(tmp, ignore_errors=True)


# ------------------------------------------------------------------------------------
# constructor arguments
#   item: ('d', [keys]) | ('nd', which)
#   arg : ('none',) | ('dict', [keys]) | ('iter', 'list'|'tuple', [items]) | ('str', s) | ('nonit',)
#   src : ('none',) | ('nd', which) | ('dict', [keys])
# ------------------------------------------------------------------------------------
EXTRA_KEYS = ["src", "href", "name", "content", "rel", "x", "subdir", "package"]
NONDICT = {"str": "src", "int": 7, "none": None, "list": ["src", "href"], "pair": (("src", "a"),)}


class KeysAndGetitem:
    """not a dict, not a Mapping subclass: just keys() and __getitem__ (what dict() accepts)"""

    def __init__(self, d):
        self._d = d

    def keys(self):
        return self._d.keys()

    def __getitem__(self, k):
        return self._d[k]

    def __contains__(self, k):
        return k in self._d

    def __iter__(self):
        return iter(self._d)

    def __len__(self):
        return len(self._d)


Pair = collections.namedtuple("Pair", ["src", "href"])

# non-dict objects that CARRY the required keys of the argument they are given for (req): things
# that dict() would convert, that answer `key in x`, or that look like a dict in some other way
NONDICT_REQ = {
    "pairs": lambda g: list(g.items()),
    "tpairs": lambda g: tuple(g.items()),
    "lpairs": lambda g: [list(kv) for kv in g.items()],
    "items": lambda g: g.items(),
    "mproxy": lambda g: types.MappingProxyType(g),
    "userdict": lambda g: collections.UserDict(g),
    "chainmap": lambda g: collections.ChainMap(g),
    "duck": lambda g: KeysAndGetitem(g),
    "keyset": lambda g: set(g),
    "keylist": lambda g: list(g),
    "keystr": lambda g: " ".join(g),
    "frozenset": lambda g: frozenset(g),
    "json": lambda g: json.dumps(g),
    "bytes": lambda g: b"src href name content",
    "float": lambda g: 1.5,
    "true": lambda g: True,
    "ntuple": lambda g: Pair("a.js", "a.css"),
    "tag": lambda g: Tag("script", **{k: "v" for k in g}),
    "attrs": lambda g: Tag("link", **{k: "v" for k in g}).attrs.items(),
    "type": lambda g: dict,
}


class DictSub(dict):
    """a user subclass of dict IS a dict"""


def rand_keys(rng, req: list[str]) -> list[str]:
    keys = [k for k in req if rng.random() > 0.14]
    for _ in range(rng.choice([0, 0, 1, 2])):
        k = rng.choice(EXTRA_KEYS)
        if k not in keys:
            keys.append(k)
    rng.shuffle(keys)
    return keys


def rand_item(rng, req):
    r = rng.random()
    if r < 0.07:
        return ("nd", rng.choice(sorted(NONDICT)))
    if r < 0.14:
        return ("nd", "+" + rng.choice(sorted(NONDICT_REQ)))
    return ("d", rand_keys(rng, req))


def rand_arg(rng, req):
    r = rng.random()
    if r < 0.14:
        return ("none",)
    if r < 0.40:
        return ("dict", rand_keys(rng, req))
    if r < 0.86:
        return ("iter", rng.choice(["list", "list", "tuple"]),
                [rand_item(rng, req) for _ in range(rng.choice([0, 1, 1, 2, 3]))])
    if r < 0.94:
        return ("str", rng.choice(["", "src", "ab", "href"]))
    return ("nonit",)


def rand_src(rng):
    r = rng.random()
    if r < 0.3:
        return ("none",)
    if r < 0.42:
        return ("nd", rng.choice(["str", "int", "list", "pair", "mproxy", "userdict", "pairs", "duck", "keyset"]))
    keys = [k for k in ["href", "subdir", "package", "x"] if rng.random() < 0.4]
    rng.shuffle(keys)
    return ("dict", keys)


def mat_dict(keys):
    """a dict with these keys; which kind of dict (plain / OrderedDict / defaultdict / user subclass)
    is a function of the keys"""
    d = {k: "v-" + k for k in keys}
    pick = (sum(map(len, keys)) + 3 * len(keys)) % 7
    if pick == 1:
        return collections.OrderedDict(d)
    if pick == 3:
        dd = collections.defaultdict(str)
        dd.update(d)
        return dd
    if pick == 5:
        return DictSub(d)
    return d


def mat_item(it, req=()):
    if it[0] == "d":
        return mat_dict(it[1])
    if it[1].startswith("+"):
        return NONDICT_REQ[it[1][1:]]({k: "v-" + k for k in req})
    return NONDICT[it[1]]


def mat_arg(a, req=()):
    if a[0] == "none":
        return None
    if a[0] == "dict":
        return mat_dict(a[1])
    if a[0] == "iter":
        l = [mat_item(x, req) for x in a[2]]
        return tuple(l) if a[1] == "tuple" else l
    if a[0] == "str":
        return a[1]
    return 7


def mat_src(s):
    if s[0] == "none":
        return None
    if s[0] == "nd":
        good = {"href": "u", "subdir": "d"}
        return {"str": "href", "int": 3, "list": ["href"], "pair": (("href", "x"),),
                "mproxy": types.MappingProxyType(good), "userdict": collections.UserDict(good),
                "pairs": list(good.items()), "duck": KeysAndGetitem(good), "keyset": set(good)}[s[1]]
    return mat_dict(s[1])


def keys_sx(keys):
    return [S(k) for k in keys]


def item_sx(it):
    return keys_sx(it[1]) if it[0] == "d" else 0


def arg_sx(a):
    if a[0] == "none":
        return 0
    if a[0] == "nonit":
        return 1
    if a[0] == "dict":
        return [2, keys_sx(a[1])]
    if a[0] == "iter":
        return [3, [item_sx(x) for x in a[2]]]
    return [3, [0] * len(a[1])]      # a str is iterated character by character


def src_sx(s):
    if s[0] == "none":
        return 0
    if s[0] == "nd":
        return 1
    return [keys_sx(s[1])]


def args_sx(c):
    return [4, [S(c["name"]), release(c["version"]), src_sx(c["source"]), arg_sx(c["script"]),
                arg_sx(c["stylesheet"]), arg_sx(c["meta"])]]


REQ = {"script": ["src"], "stylesheet": ["href"], "meta": ["name", "content"]}


def mat_args(c) -> dict:
    return {"source": mat_src(c["source"]), **{k: mat_arg(c[k], REQ[k]) for k in REQ}}


def construct(c, args=None):
    return HTMLDependency(c["name"], c["version"], **(mat_args(c) if args is None else args))


def obj_canon(d) -> list:
    """canonical form of a constructed dependency; an implementation that ACCEPTS malformed
    arguments may hold non-dict items: they are canonicalised too (never a harness crash)"""
    def items(xs):
        try:
            xs = list(xs)
        except TypeError:
            return ["not-iterable", type(xs).__name__]
        return [keys_sx(list(x)) if isinstance(x, dict) else ["non-dict", type(x).__name__] for x in xs]
    src = d.source
    return [S(d.name), list(d.version.release),
            [] if src is None else [keys_sx(list(src)) if isinstance(src, dict) else ["non-dict", type(src).__name__]],
            items(d.script), items(d.stylesheet), items(d.meta)]


def spec_item_ok(it, req) -> bool:
    return it[0] == "d" and all(k in it[1] for k in req)


def spec_arg_ok(a, req) -> bool:
    """None, one good dict, or a sequence of good dicts.  (A str is a sequence of its
    characters, none of which is a dict; the empty str has no items at all: see the note
    on this quirk in run().)"""
    if a[0] == "none":
        return True
    if a[0] == "dict":
        return spec_item_ok(("d", a[1]), req)
    if a[0] == "iter":
        return all(spec_item_ok(x, req) for x in a[2])
    if a[0] == "str":
        return len(a[1]) == 0
    return False


def spec_well_formed(c) -> bool:
    s = c["source"]
    src_ok = s[0] == "none" or (s[0] == "dict" and ("href" in s[1] or "subdir" in s[1]))
    return (src_ok and spec_arg_ok(c["script"], ["src"]) and spec_arg_ok(c["stylesheet"], ["href"])
            and spec_arg_ok(c["meta"], ["name", "content"]))


def rand_args(rng) -> dict:
    mostly_ok = rng.random() < 0.5
    c = {"name": rng.choice(NAMES), "version": rng.choice(VERSIONS),
         "source": rand_src(rng), "script": rand_arg(rng, ["src"]),
         "stylesheet": rand_arg(rng, ["href"]), "meta": rand_arg(rng, ["name", "content"])}
    if mostly_ok:   # keep at most one argument possibly bad, so later checks are reached
        keep = rng.choice(["source", "script", "stylesheet", "meta", None])
        if keep != "source":
            c["source"] = rng.choice([("none",), ("dict", ["subdir", "package"]), ("dict", ["href"])])
        for k, req in (("script", ["src"]), ("stylesheet", ["href"]), ("meta", ["name", "content"])):
            if keep != k:
                c[k] = rng.choice([("none",), ("dict", req + ["x"]), ("iter", "list", [("d", list(reversed(req)))]),
                                   ("iter", "tuple", [])])
    return c


def check_validation(ctx: Ctx, cases: list[dict]) -> None:
    model = run_model([args_sx(c) for c in cases], driver="c10")
    disagreements, kind_mismatch = [], []
    for c, m in zip(cases, model):
        wf = spec_well_formed(c)
        quirk = any(c[k] == ("str", "") for k in ("script", "stylesheet", "meta"))
        ctx.count(c, not wf or c["stylesheet"][0] != "none",
                  "constructor: " + ("well-formed" if wf else "malformed") + (" (empty str argument)" if quirk else ""))
        args = mat_args(c)
        r = safe_call(lambda: construct(c, args))
        iv = ("ok", obj_canon(r[1])) if r[0] == "ok" else r
        if (iv[0] == "ok") != wf:
            ctx.violation("HTMLDependency(...) " + ("rejects well-formed arguments" if wf else
                          "accepts malformed arguments (non-dict source/item, source without href/subdir, "
                          "or item missing a required key)"), c, {"impl_output": iv, "expected": "accepted" if wf else "rejected"})
        else:
            # the same definition a second time - from the very same argument objects, then from
            # fresh equal ones: accepted / rejected alike, with equal results (a definition is judged
            # on its own: nothing may be left behind by, or in the arguments of, an earlier construction)
            for how, a2 in (("the same argument objects", args), ("equal arguments", None)):
                r2 = safe_call(lambda: construct(c, a2))
                iv2 = ("ok", obj_canon(r2[1])) if r2[0] == "ok" else r2
                if iv2 != iv:
                    ctx.violation(f"HTMLDependency(...) constructed a second time from {how} gives another result",
                                  c, {"impl_output": iv2, "expected": iv})
        if isinstance(m, tuple):
            disagreements.append({"case": c, "impl_output": iv, "model_output": ("!", m[1])})
            continue
        mv = trees.res_decode(m[0])
        if mv != iv:
            disagreements.append({"case": c, "impl_output": iv, "model_output": mv})
        spec_err = None if m[1] == [] else m[1][0]
        got_err = None if iv[0] == "ok" else iv[1]
        if spec_err != got_err:
            kind_mismatch.append({"case": c, "impl_output": iv, "coq_spec_error": spec_err})
    ctx.corr_cases += len(cases)
    ctx.obligation(f"correspondence HTMLDependency.__init__ validation ({len(cases)} cases)", not disagreements)
    ctx.obligation("exception kind = Coq spec_error (first offending argument/item; TypeError vs KeyError)",
                   not kind_mismatch)
    if disagreements:
        disagreements.sort(key=lambda d: len(json.dumps(d["case"])))
        ctx.extra["disagree_validation"] = disagreements[:3]
    if kind_mismatch:
        ctx.extra["disagree_error_kind"] = kind_mismatch[:3]


def check_single_vs_list(ctx: Ctx, rng, n: int) -> None:
    for _ in range(n):
        which = rng.choice(["script", "stylesheet", "meta"])
        req = {"script": ["src"], "stylesheet": ["href"], "meta": ["name", "content"]}[which]
        it = rand_item(rng, req)
        if it[0] == "nd" and it[1] not in ("str", "int"):
            # a bare list IS the list form and None the absent form; not a single item (the other
            # non-dict kinds are judged by the validation oracle)
            continue
        base = {"name": rng.choice(NAMES), "version": rng.choice(VERSIONS),
                "source": ("dict", ["subdir", "package"]),
                "script": ("dict", ["src"]), "stylesheet": ("none",), "meta": ("none",)}
        single = dict(base)
        single[which] = ("dict", it[1]) if it[0] == "d" else ("str", NONDICT["str"]) if it[1] == "str" else ("nonit",)
        listed = dict(base)
        listed[which] = ("iter", "list", [it])
        case = {"which": which, "item": it}
        ctx.count(("single-vs-list", case), True, "single item vs one-element list")
        a = safe_call(lambda: construct(single))
        b = safe_call(lambda: construct(listed))
        ok = a[0] == b[0]
        if ok and a[0] == "ok":
            ok = (a[1] == b[1] and a[1].script == b[1].script and a[1].stylesheet == b[1].stylesheet
                  and a[1].meta == b[1].meta and obj_canon(a[1]) == obj_canon(b[1]))
        elif ok:
            # rejected in both forms, with the same exception kind (a non-dict single item that
            # is a str is iterated per character, an int fails in the for statement: TypeError)
            ok = a[1] == b[1]
        if not ok:
            ctx.violation(f"{which}= given as a single item and as a one-element list differ", case,
                          {"impl_output": repr(a), "expected": repr(b)})


# ------------------------------------------------------------------------------------
def in_model_range(a: str, b: str) -> bool:
    """the extracted model computes with native integers (63 bits) and parses a version string in
    quadratic time: numbers beyond 2**62 and strings of tens of thousands of characters go to the
    oracle only"""
    return len(a) + len(b) < 12000 and all(len(x.lstrip("0")) <= 18 for x in (a + "." + b).split("."))


def check_versions(ctx: Ctx, pairs: list[tuple[str, str]]) -> None:
    inm = [in_model_range(a, b) for a, b in pairs]
    mres = iter(run_model([[3, S(a), S(b)] for (a, b), ok in zip(pairs, inm) if ok], driver="c10"))
    bad = []
    for (a, b), ok in zip(pairs, inm):
        m = next(mres) if ok else None
        ctx.count(("ver", a if len(a) < 400 else [a[:20], len(a), a[-20:]], b if len(b) < 400 else [b[:20], len(b), b[-20:]]),
                  a != b, "version pair" if ok else "version pair (oracle only: beyond the model's integer range / very long)")
        va, vb = Version(a), Version(b)
        got = [0 if va < vb else 2 if va > vb else 1, list(va.release), list(vb.release), 1 if va > vb else 0]
        if va == vb and not (va <= vb and va >= vb):
            got[0] = -1
        want = 1 + spec_vcmp(release(a), release(b))
        if got[0] != want or got[1] != release(a):
            ctx.violation("Version ordering of dotted release numbers is not numeric component-wise "
                          "ordering (modulo trailing zeros)", [a, b], {"impl_output": got, "expected": want})
        if ok and (isinstance(m, tuple) or m != got):
            bad.append({"case": [a, b], "impl_output": got, "model_output": m})
    ctx.corr_cases += sum(inm)
    ctx.obligation(f"correspondence ver_cmp / parse_ver vs packaging.version.Version ({len(pairs)} pairs)", not bad)
    if bad:
        ctx.extra["disagree_versions"] = bad[:3]


# ------------------------------------------------------------------------------------
# TWO FEATURES TOGETHER: JSX components (which bring dependencies of their own: react, react-dom)
# inside ordinary tags, next to user dependencies of the same names, also built in a with-block.
# What a component expands to is C20's subject; here: whatever tree tagify() gives, the
# dependencies reported for the original are the resolved document-order collection of that tree.
# ------------------------------------------------------------------------------------
def live_walk(x) -> list:
    """document-order collection over live objects (transcribed from the statement)"""
    out = []
    for k in (x.children if isinstance(x, Tag) else x):
        if isinstance(k, HTMLDependency):
            out.append(k)
        elif isinstance(k, Tag):
            out += live_walk(k)
    return out


def live_key(d) -> list:
    return [d.name, [int(v) for v in d.version.release], [str(s_.get("src")) for s_ in d.script]]


def live_resolve(ds: list) -> list:
    keys = [live_key(d) for d in ds]
    picked = spec_resolve(list(range(len(ds))), [(k[0], ".".join(map(str, k[1])), 0) for k in keys])
    return [keys[i] for i in picked]


def check_jsx_mix(ctx: Ctx, rng, n: int) -> None:
    try:
        from htmltools._jsx import jsx_tag_create
    except Exception:       # the (private, experimental) JSX module is not there: nothing to mix
        return
    Comp = jsx_tag_create("Comp")
    for _ in range(n):
        vers = [rng.choice(["17.0.2", "17.0.2.0", "17.0.10", "17.0.1", "2", "18"]) for _ in range(3)]
        plan = {"versions": vers, "shape": rng.randrange(6), "with": rng.random() < 0.4, "observe": rng.choice(["render", "doc", "json"])}
        ctx.count(("jsx", plan), True, "jsx mix")

        def make():
            d = [HTMLDependency("react", vers[0], script={"src": "mine0.js"}),
                 HTMLDependency("react-dom", vers[1], script={"src": "mine1.js"}),
                 HTMLDependency("other", vers[2], script={"src": "mine2.js"})]
            sh = plan["shape"]
            comp = Comp(Tag("span", d[2], "t"), d[0]) if sh % 2 else Comp(d[1], Tag("b", Comp(d[2])))
            kids = [[d[0], comp, d[1]], [comp, d[0], Tag("p", d[1])], [Tag("div", comp, d[1]), d[0]],
                    [d[1], Tag("div", Tag("span", comp)), comp], [comp], [d[2], (comp, [d[0]])]][sh]
            if plan["with"]:
                return assemble({"build": "with", "container": "tag", "name": "div", "split": 0}, kids)
            return Tag("div", *kids)

        want = safe_call(lambda: live_resolve(live_walk(make().tagify())))
        if plan["observe"] == "render":
            got = safe_call(lambda: [live_key(d) for d in make().render()["dependencies"]])
        elif plan["observe"] == "doc":
            got = safe_call(lambda: [live_key(d) for d in HTMLDocument(make()).render(lib_prefix=None)["dependencies"]])
        else:
            def via_json():
                text = in_json_mode(lambda: str(make()))
                out = []
                for t in JSON_DEP_RE.findall(text):
                    j = json.loads(t)
                    out.append([j["name"], release(j["version"]), [str(s_.get("src")) for s_ in j["script"]]])
                return out
            got = safe_call(via_json)
        if want[0] == "ok" and got != want:
            ctx.violation("the dependencies reported for a tree holding JSX components are not the resolved document-order "
                          "collection of the tree it expands to", plan, {"impl_output": got, "expected": want})


def check_fresh_objects(ctx: Ctx) -> None:
    """STATE SHARED BETWEEN OBJECTS: two objects of every class in one process; the second is not
    influenced by what was done to the first"""
    probes = []
    dep = HTMLDependency("a", "1.0", script={"src": "x.js"})
    t1 = Tag("div")
    t1.append(dep)
    probes.append(("a second Tag() has the first one's dependencies", safe_call(lambda: ids_len(Tag("div").get_dependencies()))))
    l1 = TagList()
    l1.append(dep)
    l1 += [dep]
    probes.append(("a second TagList() has the first one's dependencies", safe_call(lambda: ids_len(TagList().get_dependencies(dedup=False)))))
    d1 = HTMLDocument()
    d1.append(Tag("div", dep))
    safe_call(lambda: d1.render())
    probes.append(("a second HTMLDocument() reports the first one's dependencies",
                   safe_call(lambda: ids_len(HTMLDocument().render()["dependencies"]))))
    h1 = HTMLTextDocument("<html><head>@@</head></html>", deps=[dep], deps_replace_pattern="@@")
    safe_call(lambda: h1.render())
    probes.append(("a second HTMLTextDocument() reports the first one's dependencies",
                   safe_call(lambda: ids_len(HTMLTextDocument("<html><head>@@</head></html>", deps_replace_pattern="@@").render()["dependencies"]))))
    e1 = HTMLDependency("e", "1")
    for attr in ("script", "stylesheet", "meta"):
        try:
            getattr(e1, attr).append({"src": "s", "href": "h", "name": "n", "content": "c"})
        except Exception:
            pass
    e2 = HTMLDependency("f", "1")
    probes.append(("a second HTMLDependency() constructed with defaults has the first one's items",
                   safe_call(lambda: len(list(e2.script)) + len(list(e2.stylesheet)) + len(list(e2.meta)))))
    for what, got in probes:
        ctx.count(("fresh", what), True, "fresh objects")
        if got != ("ok", 0):
            ctx.violation("state shared between objects: " + what, what, {"impl_output": got, "expected": ("ok", 0)})


def ids_len(lst) -> int:
    return len(list(lst))


def coqchk(ctx: Ctx) -> None:
    """thorough tier: re-check the compiled property file and everything it depends on with the
    independent checker; it must report no axioms"""
    import subprocess
    from ..common import COQ, Lock
    with Lock():
        try:
            p = subprocess.run(["coqchk", "-silent", "-o", "-Q", ".", "HT", "HT.Properties.C10"], cwd=COQ,
                               stdout=subprocess.PIPE, stderr=subprocess.STDOUT, text=True, timeout=900)
            out, rc = p.stdout, p.returncode
        except subprocess.TimeoutExpired:
            out, rc = "TIMEOUT", 124
    ok = rc == 0 and "* Axioms: <none>" in out
    ctx.obligation("coqchk -o HT.Properties.C10: accepted, no axioms", ok)
    if ok:
        ctx.trusted_base.append("coqchk -o: Axioms: <none>")
    else:
        ctx.extra["coqchk_tail"] = out[-1500:]


def load_corpus() -> list[dict]:
    out = []
    for p in sorted(glob.glob(os.path.join(VERIF, "corpus", "C10", "*.json"))):
        with open(p, encoding="utf-8") as f:
            out += json.load(f)
    return [untuple_case(c) for c in out]


def node_from_json(x):
    t = x[0]
    if t == "G":
        return ("G", x[1], x[2], [node_from_json(k) for k in x[3]])
    if t == "L":
        return ("L", x[1], [node_from_json(k) for k in x[2]])
    if t == "C":
        return ("C", [node_from_json(k) for k in x[1]], x[2])
    return tuple(x)


def untuple_case(c: dict) -> dict:
    return {"deps": [(d[0], d[1], d[2]) for d in c["deps"]], "forest": [node_from_json(x) for x in c["forest"]],
            "mode": c["mode"], "dedup": c["dedup"]}


def run(ctx: Ctx) -> None:
    rng = ctx.rng
    ctx.rule = ("forests: 1-8 dependency objects with names from a pool of 5 (so names collide) and versions "
                "from {1, 1.0, 1.9, 1.10, 1.10.0, 01.2, 2, 0.0.1} (plus random dotted versions with leading/"
                "trailing zeros and numbers up to 1e17 in the flat stream), placed at random in nested block/"
                "inline/void/script tags, list/tuple/TagList wrappers, the top-level list, several in a row, the "
                "same object more than once, next to text/HTML/None/_repr_html_/tagifiable objects; observed "
                "through TagList/Tag.get_dependencies(dedup=True/False) and render()['dependencies']; "
                "bounded-exhaustive: every sequence up to length 4 (thorough 5) over a pool of 6 (thorough 8) "
                "name/version combinations and every bracketing of fixed sequences into up to 2 (thorough 3) tags. "
                "A forest case is non-trivial when two placed dependencies share a name. Versions: random pairs of "
                "dotted strings incl. padded/zero-prefixed variants of each other. Constructor: random argument "
                "shapes (None / dict / list / tuple / str / int; items dict or non-dict; required keys dropped with "
                "p=0.14), half of them with at most one bad argument; non-trivial when malformed or a stylesheet "
                "is given. distinct = distinct canonical inputs. "
                "SIZES: a few big forests with 7..300 placements (just below / at / above 8, 16, 32, 64, 128, 256; 300) "
                "flat, as table rows, split over a TagList and a table, in sibling groups, along chains of 7..70 nested "
                "tags or list/tuple/TagList wrappers, over few names / n names / n versions of one name / versions of n "
                "components, names and versions of > 300, > 5000, > 70000 characters differing in the last character; the "
                "deciding placement is the last one; each through get_dependencies(dedup on/off), render() and a route. "
                "ROUTES (oracle): forests assembled by constructor / nested lists / append / extend / insert / + / reflected + "
                "/ += / with-block / tags.<name>() / attribute dicts between children, then copy / deepcopy / tagify, observed "
                "by get_dependencies (keyword, positional, default), render, HTMLDocument (children / TagList / lone html or "
                "body tag with dependencies before, after and inside; lang/class_/style; lib_prefix None, '', nested; "
                "include_version off; append; copy), save_html (libdir, include_version), str/repr/_repr_html_ in json "
                "dependency mode, HTMLTextDocument on that text and with deps= and a pattern of regex metacharacters; equal "
                "sub-trees may be one Tag object in two parents; tagifiable objects that are also self-rendering; JSX "
                "components next to user dependencies named react / react-dom. After every forest case the same question is "
                "asked again (the first answer modified by the caller) and the plain collection is taken. Constructor: "
                "non-dict items that carry the required keys (pair lists, mappingproxy, UserDict, ChainMap, items(), duck-typed "
                "mappings, key sets, ...), dict subclasses as items, lists of 7..300 items with the deciding item last, dicts of "
                "7..300 keys with the required key last; every definition constructed twice (same argument objects, equal ones).")
    ctx.assumptions = [
        "the extracted OCaml model behaves as the Gallina model (ExtrOcamlBasic only)",
        "packaging.version.Version is modelled, not verified: only dotted release numbers (no epoch, "
        "pre/post/dev release, local version); its ordering on those is validated against ver_cmp on every run",
        "object identity is observed through `is` and a marker attribute that copy() preserves",
        "dicts are modelled by their key lists, non-dict values by one anonymous value",
    ]
    ctx.proof()
    if not ctx.quick:
        coqchk(ctx)

    # ---- B/C 1: forests --------------------------------------------------------------
    fixed = load_corpus()
    if fixed:
        check_tree_cases(ctx, "corpus", fixed, "corpus")

    cases = []
    for _ in range(ctx.budget(5000, 60000)):
        deps = rand_deps(rng, hc=True)
        mode = rng.choice(["list", "list", "tag", "tag", "render_list", "render_tag"])
        forest = rand_kids(rng, rng.choice([1, 2, 2, 3, 4]), len(deps), custom=True)
        cases.append({"deps": deps, "forest": forest, "mode": mode,
                      "dedup": True if mode.startswith("render") else rng.random() < 0.6})
    check_tree_cases(ctx, "get_dependencies / render on random forests", cases, "forest")

    # flat lists with arbitrary dotted versions
    cases = []
    for _ in range(ctx.budget(2500, 30000)):
        deps = rand_deps(rng, anyver=True)
        seq = [rng.randrange(len(deps)) for _ in range(rng.choice([2, 3, 4, 6, 9]))]
        cases.append({"deps": deps, "forest": [("D", i) for i in seq], "mode": rng.choice(["list", "tag"]),
                      "dedup": True})
    check_tree_cases(ctx, "flat lists with random dotted versions", cases, "flat")

    # bounded-exhaustive: every sequence over a small pool
    pool = [("a", "1.9", 0), ("a", "1.10", 0), ("a", "1.10.0", 1), ("b", "1", 0), ("b", "1.0", 0), ("a", "01.2", 0)]
    if not ctx.quick:
        pool += [("b", "0.0.1", 0), ("a", "2", 0)]
    cases = []
    for n in range(0, ctx.budget(4, 5) + 1):
        for seq in itertools.product(range(len(pool)), repeat=n):
            cases.append({"deps": pool, "forest": [("D", i) for i in seq], "mode": "list", "dedup": True})
    check_tree_cases(ctx, "every sequence over a small pool", cases, "exhaustive-seq")

    # bounded-exhaustive: every bracketing of fixed sequences
    cases = []
    seqs = [[0, 1, 2], [1, 0, 3, 2], [3, 4, 0, 1]] if ctx.quick else \
        [[0, 1, 2], [1, 0, 3, 2], [3, 4, 0, 1], [2, 1, 0, 4, 3], [0, 0, 1, 1]]
    for seq in seqs:
        for f in forests_over(seq, ctx.budget(2, 3)):
            for mode, dd in (("list", True), ("tag", False), ("render_tag", True)):
                cases.append({"deps": pool, "forest": f, "mode": mode, "dedup": dd})
    check_tree_cases(ctx, "every bracketing of fixed sequences", cases, "exhaustive-placement")

    # SIZE AND DEPTH: few big forests, each through several observations (model + oracle), and
    # through the entry-point routes (oracle)
    bigs = big_forests(rng, ctx.quick)
    cases, rcases = [], []
    for deps, forest, label in bigs:
        combos = [(rng.choice(["list", "tag"]), False), (rng.choice(["list", "tag"]), True),
                  (rng.choice(["render_list", "render_tag"]), True)]
        if label.startswith("long/70000"):
            combos = combos[:2]
        for mode, dd in combos:
            cases.append({"deps": deps, "forest": forest, "mode": mode, "dedup": dd})
        for _ in range(ctx.budget(1, 3)):
            route = rand_route(rng)
            if route["container"] == "doc" and label.startswith(("chain", "wrappers")):
                route = rand_route(rng, "tag")
            rcases.append({"deps": deps, "forest": forest, "route": route})
    check_tree_cases(ctx, "big forests (sizes and depths around 8..300, long names and versions)", cases, "big")
    check_routes(ctx, rcases, "big")

    # ENTRY POINTS: random forests through every way of building and observing
    rcases = []
    for _ in range(ctx.budget(2500, 30000)):
        deps = rand_deps(rng, hc=True)
        route = rand_route(rng)
        if has_hc(deps) and route["observe"] in ("save", "json", "textdoc"):
            route["observe"] = "doc"        # head content has no script file by which to recognise it in markup
        if route["container"] == "doc" or (route["observe"] == "doc" and rng.random() < 0.3):
            forest = rand_doc_forest(rng, len(deps))
        else:
            forest = rand_kids(rng, rng.choice([1, 2, 2, 3]), len(deps), custom=True)
        rcases.append({"deps": deps, "forest": forest, "route": route})
    check_routes(ctx, rcases, "route")
    check_jsx_mix(ctx, rng, ctx.budget(150, 1500))
    check_fresh_objects(ctx)

    # ---- B/C 2: the version order -----------------------------------------------------
    pairs = [("1.9", "1.10"), ("1.10", "1.10.0"), ("01.2", "1.2"), ("0.0.1", "0"), ("1", "1.0.0.0"),
             ("10", "9"), ("1.0.1", "1"), ("0", "0.0"), ("2", "10"), ("1.01", "1.1")]
    pairs += list(itertools.product(VERSIONS, VERSIONS))
    for _ in range(ctx.budget(5000, 60000)):
        a = rand_version(rng)
        r = rng.random()
        if r < 0.15:
            b = a + ".0" * rng.choice([1, 2])
        elif r < 0.3:
            b = ".".join(("0" + p) if rng.random() < 0.5 else p for p in a.split("."))
        elif r < 0.45:
            ps = a.split(".")
            k = rng.randrange(len(ps))
            ps[k] = str(int(ps[k]) + rng.choice([1, 9, 10]))
            b = ".".join(ps)
        elif r < 0.55:
            b = a.rsplit(".", 1)[0]
        else:
            b = rand_version(rng)
        pairs.append((a, b) if rng.random() < 0.5 else (b, a))
    # many components / long strings: the difference (or the padding) sits at the very end
    for n in SIZES + [2500, 35000]:
        base = "1." * (n - 1)
        pairs += [(base + "7", base + "8"), (base + "8", base + "8.0"), (base + "08", base + "8"),
                  (base + "1", "1." * (n - 2) + "2"), ("2" + ".0" * (n - 1), "2"), ("2" + ".0" * (n - 1) + ".1", "2")]
    for digits in (9, 17, 33, 65, 129, 257, 300):
        big = "9" * digits
        pairs += [("1." + big, "1." + big[:-1] + "8"), ("1." + big, "1.1" + "0" * digits), ("0" * digits + "1", "1")]
    check_versions(ctx, pairs)

    # ---- B/C 3: constructor validation -------------------------------------------------
    cases = [rand_args(rng) for _ in range(ctx.budget(6000, 80000))]
    cases += [
        {"name": "a", "version": "1", "source": ("nd", "str"), "script": ("nonit",), "stylesheet": ("none",), "meta": ("none",)},
        {"name": "a", "version": "1", "source": ("dict", ["package"]), "script": ("none",), "stylesheet": ("none",), "meta": ("none",)},
        {"name": "a", "version": "1", "source": ("none",), "script": ("str", "src"), "stylesheet": ("none",), "meta": ("none",)},
        {"name": "a", "version": "1", "source": ("none",), "script": ("none",), "stylesheet": ("none",), "meta": ("dict", ["name"])},
        {"name": "a", "version": "1", "source": ("none",), "script": ("none",), "stylesheet": ("none",), "meta": ("dict", ["content"])},
        {"name": "a", "version": "1", "source": ("none",), "script": ("none",), "stylesheet": ("none",),
         "meta": ("iter", "list", [("d", ["name", "content"]), ("d", ["name"])])},
        {"name": "a", "version": "1", "source": ("none",), "script": ("iter", "list", [("d", ["src"]), ("nd", "int")]),
         "stylesheet": ("dict", ["rel", "href"]), "meta": ("none",)},
    ]
    # many items / many keys: the offending item (or the required key) comes last
    good = {"script": ("d", ["src"]), "stylesheet": ("d", ["href", "rel"]), "meta": ("d", ["content", "name"])}
    for n in SIZES:
        which = rng.choice(sorted(REQ))
        bad = rng.choice([("d", ["x"]), ("d", REQ[which][1:]), ("d", []), ("nd", "int"),
                          ("nd", "+" + rng.choice(sorted(NONDICT_REQ)))])
        filler = [f"k{i}" for i in range(n - 1)]
        for tail, seq_kind in ((bad, "list"), (good[which], "tuple"), (("d", filler + REQ[which]), "list"), (("d", filler), "list")):
            c = {"name": "a", "version": "1.0", "source": ("dict", filler[:n // 2] + ["subdir"]),
                 "script": ("none",), "stylesheet": ("none",), "meta": ("none",)}
            c[which] = ("iter", seq_kind, [good[which]] * (n - 1) + [tail])
            cases.append(c)
        cases.append({"name": "a", "version": "1.0", "source": ("dict", filler), "script": ("dict", filler + ["src"]),
                      "stylesheet": ("none",), "meta": ("none",)})
    check_validation(ctx, cases)
    check_single_vs_list(ctx, rng, ctx.budget(1500, 15000))
    # the stylesheet default is written into the caller's dict (documented quirk, follows the code)
    sheet = {"href": "a.css"}
    HTMLDependency("a", "1", stylesheet=sheet)
    ctx.extra["notes"] = [
        "script/stylesheet/meta given as a str is iterated per character: every non-empty str is a "
        "TypeError, the empty str is accepted (and stored as is)",
        "HTMLDependency.__init__ adds rel=stylesheet to the caller's stylesheet dicts: " + json.dumps(sheet),
    ]


def replay(ctx: Ctx, path: str) -> None:
    with open(path, encoding="utf-8") as f:
        r = json.load(f)
    print(json.dumps(r, indent=1)[:4000])
    c = r.get("case")
    if isinstance(c, dict) and "route" in c:
        ctx.rule = "replay of one entry-point case"
        ctx.proof()
        cc = untuple_case({**c, "mode": "route", "dedup": True})
        check_routes(ctx, [{"deps": cc["deps"], "forest": cc["forest"], "route": c["route"]}], "replay")
    elif isinstance(c, dict) and "forest" in c:
        ctx.rule = "replay of one forest case"
        ctx.proof()
        check_tree_cases(ctx, "replay", [untuple_case(c)], "replay")
    elif isinstance(c, dict) and "source" in c:
        ctx.rule = "replay of one constructor case"
        ctx.proof()
        cc = dict(c)
        for k in ("source", "script", "stylesheet", "meta"):
            v = cc[k]
            if v[0] == "iter":
                v = ("iter", v[1], [tuple(x) for x in v[2]])
            cc[k] = tuple(v)
        check_validation(ctx, [cc])
    elif isinstance(c, list) and len(c) == 2 and all(isinstance(x, str) for x in c):
        ctx.rule = "replay of one version pair"
        ctx.proof()
        check_versions(ctx, [(c[0], c[1])])
    else:
        run(ctx)

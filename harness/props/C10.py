"""C10  Dependencies are validated, then resolve one per name to the highest version.

Step B compares /repo with the extracted Coq model (driver c10, Model/DriverC10.v):
  op 1/2  TagList / Tag .get_dependencies(dedup) and render()['dependencies'] on forests
  op 3    packaging.version.Version ordering vs ver_cmp on dotted release strings
  op 4    HTMLDependency(...) argument validation (result attributes / exception kind)
Step C decides the property with Python oracles transcribed from the property text
(document order, first-occurrence order, earliest numeric maximum, well-formedness) and
with the extracted Coq specification functions (spec_get_dependencies, spec_error)."""
from __future__ import annotations

import glob
import itertools
import json
import os

from ..common import Ctx, S, VERIF, run_model
from .. import trees
from ..trees import safe_call

import htmltools
from htmltools import HTML, HTMLDependency, Tag, TagList
from packaging.version import Version

VERSIONS = ["1", "1.0", "1.9", "1.10", "1.10.0", "01.2", "2", "0.0.1"]
NAMES = ["a", "b", "jq", "A", "a "]


# ------------------------------------------------------------------------------------
# specification side (written from the property text, not from the code)
# ------------------------------------------------------------------------------------
def release(s: str) -> list[int]:
    """a dotted release string as its numbers"""
    return [int(x) for x in s.split(".")]


def spec_vcmp(a: list[int], b: list[int]) -> int:
    """version-number ordering: component-wise numeric, missing components count as 0"""
    n = max(len(a), len(b))
    pa, pb = a + [0] * (n - len(a)), b + [0] * (n - len(b))
    return (pa > pb) - (pa < pb)


def spec_resolve(seq: list[int], deps: list) -> list[int]:
    """seq: dependency indices in document order.  One per name, names by first occurrence,
    each represented by the earliest occurrence of maximal version."""
    names: list[str] = []
    for i in seq:
        if deps[i][0] not in names:
            names.append(deps[i][0])
    out = []
    for n in names:
        cands = [i for i in seq if deps[i][0] == n]
        best = cands[0]
        for i in cands:
            if all(spec_vcmp(release(deps[i][1]), release(deps[j][1])) >= 0 for j in cands):
                best = i
                break
        out.append(best)
    return out


def doc_order(kids: list, into_custom: bool) -> list[int]:
    """dependency placements of a forest description in document order"""
    out: list[int] = []
    for k in kids:
        t = k[0]
        if t == "D":
            out.append(k[1])
        elif t == "G":
            out += doc_order(k[3], into_custom)
        elif t == "L":
            out += doc_order(k[2], into_custom)
        elif t == "C" and into_custom:
            out += doc_order(k[1], into_custom)
    return out


def spec_deps(case: dict) -> list[int]:
    render = case["mode"].startswith("render")
    seq = doc_order(case["forest"], into_custom=render)
    if case["dedup"] or render:
        return spec_resolve(seq, case["deps"])
    return seq


# ------------------------------------------------------------------------------------
# forests
#   ('D', i)  dependency object i        ('T'|'H'|'R', s)  str / HTML / _repr_html_ object
#   ('N',)    None                        ('G', name, ws, kids)  Tag
#   ('L', how, kids)  list / tuple / TagList wrapper (flattened on construction)
#   ('C', exp, as_list)  tagifiable non-Tag object (only render() looks inside)
# ------------------------------------------------------------------------------------
def build_deps(deps: list) -> list:
    objs = []
    for i, (name, ver, content) in enumerate(deps):
        d = HTMLDependency(name, ver, script={"src": f"c{content}.js"})
        d._verif_id = i  # survives copy(), which tagify() applies to metadata nodes
        objs.append(d)
    return objs


def build(d, objs):
    k = d[0]
    if k == "D":
        return objs[d[1]]
    if k == "T":
        return d[1]
    if k == "H":
        return HTML(d[1])
    if k == "R":
        return trees.ReprObj(d[1])
    if k == "N":
        return None
    if k == "G":
        return Tag(d[1], *[build(x, objs) for x in d[3]], _add_ws=d[2])
    if k == "L":
        kb = [build(x, objs) for x in d[2]]
        return {"list": list, "tuple": tuple}.get(d[1], lambda l: TagList(*l))(kb)
    if k == "C":
        return trees.CustomObj([build(x, objs) for x in d[1]], d[2])
    raise ValueError(d)


def dep_sx(i: int, deps: list) -> list:
    name, ver, _ = deps[i]
    return [S(name), release(ver), i]


def kids_sx(kids: list, deps: list, expand: bool) -> list:
    out = []
    for k in kids:
        t = k[0]
        if t == "D":
            out.append([3, dep_sx(k[1], deps)])
        elif t == "T":
            out.append([0, S(k[1])])
        elif t == "H":
            out.append([1, S(k[1])])
        elif t == "R":
            out.append([2, S(k[1])])
        elif t == "N":
            pass
        elif t == "G":
            out.append([4, S(k[1]), 1 if k[2] else 0, [], kids_sx(k[3], deps, expand)])
        elif t == "L":
            out += kids_sx(k[2], deps, expand)
        elif t == "C":
            if expand:      # what tagify() leaves in the sibling list
                out += kids_sx(k[1], deps, expand)
            else:
                out.append([5, [], kids_sx(k[1], deps, expand)])
        else:
            raise ValueError(k)
    return out


def case_sx(case: dict) -> list:
    mode, deps = case["mode"], case["deps"]
    render = mode.startswith("render")
    kids = kids_sx(case["forest"], deps, expand=render)
    dedup = 1 if (case["dedup"] or render) else 0
    if mode.endswith("tag"):
        return [2, dedup, [4, S("div"), 1, [], kids]]
    return [1, dedup, kids]


def run_impl(case: dict):
    """-> (canonical result, identity_ok)"""
    objs = build_deps(case["deps"])
    mode = case["mode"]
    built = [build(x, objs) for x in case["forest"]]
    if mode == "list":
        r = safe_call(lambda: TagList(*built).get_dependencies(dedup=case["dedup"]))
    elif mode == "tag":
        r = safe_call(lambda: Tag("div", *built).get_dependencies(dedup=case["dedup"]))
    elif mode == "render_list":
        r = safe_call(lambda: TagList(*built).render()["dependencies"])
    elif mode == "render_tag":
        r = safe_call(lambda: Tag("div", *built).render()["dependencies"])
    else:
        raise ValueError(mode)
    if r[0] != "ok":
        return r, True
    ids = [getattr(x, "_verif_id", -1) for x in r[1]]
    same = True
    if not mode.startswith("render"):
        same = all(0 <= i < len(objs) and x is objs[i] for x, i in zip(r[1], ids))
    return ("ok", ids), same


def rand_node(rng, depth: int, nd: int, custom: bool):
    r = rng.random()
    if depth > 0 and r < 0.30:
        name, ws = trees.rand_name(rng, "bbbiivsc")
        return ("G", name, ws, rand_kids(rng, depth - 1, nd, custom))
    if depth > 0 and r < 0.38:
        return ("L", rng.choice(["list", "tuple", "taglist"]), rand_kids(rng, depth - 1, nd, custom))
    if custom and depth > 0 and r < 0.47:
        n = rng.choice([0, 1, 1, 2, 3])
        as_list = n != 1 or rng.random() < 0.6
        exp = [rand_node(rng, depth - 1, nd, False) for _ in range(n)]
        if not as_list:
            while exp[0][0] in "LN":
                exp = [rand_node(rng, depth - 1, nd, False)]
        return ("C", exp, as_list)
    if r < 0.86 and nd > 0:
        return ("D", rng.randrange(nd))
    k = rng.choice("THRN")
    if k == "N":
        return ("N",)
    return (k, trees.rand_text(rng, 4))


def rand_kids(rng, depth: int, nd: int, custom: bool) -> list:
    return [rand_node(rng, depth, nd, custom) for _ in range(rng.choice([0, 1, 1, 2, 2, 3, 4]))]


def rand_version(rng) -> str:
    comp = ["0", "1", "2", "9", "10", "00", "01", "010", "11", "100", "3"]
    n = rng.choice([1, 1, 2, 2, 2, 3, 3, 4, 5])
    parts = []
    for _ in range(n):
        r = rng.random()
        if r < 0.75:
            parts.append(rng.choice(comp))
        elif r < 0.9:
            parts.append(str(rng.randrange(0, 1000)))
        else:
            parts.append(("0" if rng.random() < 0.3 else "") + str(rng.randrange(10**6, 10**17)))
    return ".".join(parts)


def rand_deps(rng, anyver: bool = False) -> list:
    nd = rng.choice([1, 2, 3, 3, 4, 5, 6, 8])
    names = rng.sample(NAMES, rng.choice([1, 1, 2, 2, 3]))
    out = []
    for _ in range(nd):
        ver = rand_version(rng) if anyver and rng.random() < 0.6 else rng.choice(VERSIONS)
        out.append((rng.choice(names), ver, rng.choice([0, 0, 1, 2])))
    return out


def collisions(case: dict) -> bool:
    seq = doc_order(case["forest"], into_custom=case["mode"].startswith("render"))
    names = [case["deps"][i][0] for i in seq]
    return len(set(names)) < len(names)


def forests_over(seq: list, k: int) -> list:
    """all forests whose dependency leaves are seq (in order) using at most k non-empty tags"""
    if not seq:
        return [[]]
    out = [[("D", seq[0])] + rest for rest in forests_over(seq[1:], k)]
    if k > 0:
        for j in range(1, len(seq) + 1):
            for k1 in range(0, k):
                for inner in forests_over(seq[:j], k1):
                    for rest in forests_over(seq[j:], k - 1 - k1):
                        out.append([("G", "div" if j % 2 else "span", bool(j % 2), inner)] + rest)
    # the same forest can be produced with different budgets: dedup
    seen, uniq = set(), []
    for f in out:
        key = json.dumps(f)
        if key not in seen:
            seen.add(key)
            uniq.append(f)
    return uniq


def check_tree_cases(ctx: Ctx, name: str, cases: list[dict], kind: str) -> None:
    model = run_model([case_sx(c) for c in cases], driver="c10")
    disagreements, spec_mismatch, ident_bad = [], [], []
    for c, m in zip(cases, model):
        ctx.count(c, collisions(c), kind + ":" + c["mode"] + ("" if c["dedup"] else ":nodedup"))
        iv, same = run_impl(c)
        want = ("ok", spec_deps(c))
        if iv != want:
            ctx.violation("reported dependencies are not the document-order collection " +
                          ("resolved to the earliest highest version per name in first-occurrence order"
                           if c["dedup"] else "(dedup disabled: nothing dropped or reordered)"),
                          c, {"impl_output": iv, "expected": want})
        elif not same:
            ctx.violation("get_dependencies does not return the placed objects themselves",
                          c, {"impl_output": iv, "expected": "the same objects"})
        if isinstance(m, tuple):
            mv, sv = ("!", m[1]), None
        elif c["mode"].endswith("tag"):
            mv, sv = trees.res_decode(m), None
        else:
            mv, sv = ("ok", m[0]), ("ok", m[1])
        if mv != iv:
            disagreements.append({"case": c, "impl_output": iv, "model_output": mv})
        if sv is not None and sv != want:
            spec_mismatch.append({"case": c, "coq_spec": sv, "python_spec": want})
    ctx.corr_cases += len(cases)
    ctx.obligation(f"correspondence {name} ({len(cases)} cases)", not disagreements)
    ctx.obligation(f"Coq spec_get_dependencies = Python transcription of the statement on {name}",
                   not spec_mismatch)
    for what, l in (("disagree_" + name, disagreements), ("specmismatch_" + name, spec_mismatch)):
        if l:
            l.sort(key=lambda d: len(json.dumps(d["case"])))
            ctx.extra[what] = l[:3]


# ------------------------------------------------------------------------------------
# constructor arguments
#   item: ('d', [keys]) | ('nd', which)
#   arg : ('none',) | ('dict', [keys]) | ('iter', 'list'|'tuple', [items]) | ('str', s) | ('nonit',)
#   src : ('none',) | ('nd', which) | ('dict', [keys])
# ------------------------------------------------------------------------------------
EXTRA_KEYS = ["src", "href", "name", "content", "rel", "x", "subdir", "package"]
NONDICT = {"str": "src", "int": 7, "none": None, "list": ["src", "href"], "pair": (("src", "a"),)}


def rand_keys(rng, req: list[str]) -> list[str]:
    keys = [k for k in req if rng.random() > 0.14]
    for _ in range(rng.choice([0, 0, 1, 2])):
        k = rng.choice(EXTRA_KEYS)
        if k not in keys:
            keys.append(k)
    rng.shuffle(keys)
    return keys


def rand_item(rng, req):
    if rng.random() < 0.1:
        return ("nd", rng.choice(sorted(NONDICT)))
    return ("d", rand_keys(rng, req))


def rand_arg(rng, req):
    r = rng.random()
    if r < 0.14:
        return ("none",)
    if r < 0.40:
        return ("dict", rand_keys(rng, req))
    if r < 0.86:
        return ("iter", rng.choice(["list", "list", "tuple"]),
                [rand_item(rng, req) for _ in range(rng.choice([0, 1, 1, 2, 3]))])
    if r < 0.94:
        return ("str", rng.choice(["", "src", "ab", "href"]))
    return ("nonit",)


def rand_src(rng):
    r = rng.random()
    if r < 0.3:
        return ("none",)
    if r < 0.42:
        return ("nd", rng.choice(["str", "int", "list", "pair"]))
    keys = [k for k in ["href", "subdir", "package", "x"] if rng.random() < 0.4]
    rng.shuffle(keys)
    return ("dict", keys)


def mat_dict(keys):
    return {k: "v-" + k for k in keys}


def mat_item(it):
    return mat_dict(it[1]) if it[0] == "d" else NONDICT[it[1]]


def mat_arg(a):
    if a[0] == "none":
        return None
    if a[0] == "dict":
        return mat_dict(a[1])
    if a[0] == "iter":
        l = [mat_item(x) for x in a[2]]
        return tuple(l) if a[1] == "tuple" else l
    if a[0] == "str":
        return a[1]
    return 7


def mat_src(s):
    if s[0] == "none":
        return None
    if s[0] == "nd":
        return {"str": "href", "int": 3, "list": ["href"], "pair": (("href", "x"),)}[s[1]]
    return mat_dict(s[1])


def keys_sx(keys):
    return [S(k) for k in keys]


def item_sx(it):
    return keys_sx(it[1]) if it[0] == "d" else 0


def arg_sx(a):
    if a[0] == "none":
        return 0
    if a[0] == "nonit":
        return 1
    if a[0] == "dict":
        return [2, keys_sx(a[1])]
    if a[0] == "iter":
        return [3, [item_sx(x) for x in a[2]]]
    return [3, [0] * len(a[1])]      # a str is iterated character by character


def src_sx(s):
    if s[0] == "none":
        return 0
    if s[0] == "nd":
        return 1
    return [keys_sx(s[1])]


def args_sx(c):
    return [4, [S(c["name"]), release(c["version"]), src_sx(c["source"]), arg_sx(c["script"]),
                arg_sx(c["stylesheet"]), arg_sx(c["meta"])]]


def construct(c):
    return HTMLDependency(c["name"], c["version"], source=mat_src(c["source"]),
                          script=mat_arg(c["script"]), stylesheet=mat_arg(c["stylesheet"]),
                          meta=mat_arg(c["meta"]))


def obj_canon(d) -> list:
    """canonical form of a constructed dependency; an implementation that ACCEPTS malformed
    arguments may hold non-dict items: they are canonicalised too (never a harness crash)"""
    def items(xs):
        try:
            xs = list(xs)
        except TypeError:
            return ["not-iterable", type(xs).__name__]
        return [keys_sx(list(x)) if isinstance(x, dict) else ["non-dict", type(x).__name__] for x in xs]
    src = d.source
    return [S(d.name), list(d.version.release),
            [] if src is None else [keys_sx(list(src)) if isinstance(src, dict) else ["non-dict", type(src).__name__]],
            items(d.script), items(d.stylesheet), items(d.meta)]


def spec_item_ok(it, req) -> bool:
    return it[0] == "d" and all(k in it[1] for k in req)


def spec_arg_ok(a, req) -> bool:
    """None, one good dict, or a sequence of good dicts.  (A str is a sequence of its
    characters, none of which is a dict; the empty str has no items at all: see the note
    on this quirk in run().)"""
    if a[0] == "none":
        return True
    if a[0] == "dict":
        return spec_item_ok(("d", a[1]), req)
    if a[0] == "iter":
        return all(spec_item_ok(x, req) for x in a[2])
    if a[0] == "str":
        return len(a[1]) == 0
    return False


def spec_well_formed(c) -> bool:
    s = c["source"]
    src_ok = s[0] == "none" or (s[0] == "dict" and ("href" in s[1] or "subdir" in s[1]))
    return (src_ok and spec_arg_ok(c["script"], ["src"]) and spec_arg_ok(c["stylesheet"], ["href"])
            and spec_arg_ok(c["meta"], ["name", "content"]))


def rand_args(rng) -> dict:
    mostly_ok = rng.random() < 0.5
    c = {"name": rng.choice(NAMES), "version": rng.choice(VERSIONS),
         "source": rand_src(rng), "script": rand_arg(rng, ["src"]),
         "stylesheet": rand_arg(rng, ["href"]), "meta": rand_arg(rng, ["name", "content"])}
    if mostly_ok:   # keep at most one argument possibly bad, so later checks are reached
        keep = rng.choice(["source", "script", "stylesheet", "meta", None])
        if keep != "source":
            c["source"] = rng.choice([("none",), ("dict", ["subdir", "package"]), ("dict", ["href"])])
        for k, req in (("script", ["src"]), ("stylesheet", ["href"]), ("meta", ["name", "content"])):
            if keep != k:
                c[k] = rng.choice([("none",), ("dict", req + ["x"]), ("iter", "list", [("d", list(reversed(req)))]),
                                   ("iter", "tuple", [])])
    return c


def check_validation(ctx: Ctx, cases: list[dict]) -> None:
    model = run_model([args_sx(c) for c in cases], driver="c10")
    disagreements, kind_mismatch = [], []
    for c, m in zip(cases, model):
        wf = spec_well_formed(c)
        quirk = any(c[k] == ("str", "") for k in ("script", "stylesheet", "meta"))
        ctx.count(c, not wf or c["stylesheet"][0] != "none",
                  "constructor: " + ("well-formed" if wf else "malformed") + (" (empty str argument)" if quirk else ""))
        r = safe_call(lambda: construct(c))
        iv = ("ok", obj_canon(r[1])) if r[0] == "ok" else r
        if (iv[0] == "ok") != wf:
            ctx.violation("HTMLDependency(...) " + ("rejects well-formed arguments" if wf else
                          "accepts malformed arguments (non-dict source/item, source without href/subdir, "
                          "or item missing a required key)"), c, {"impl_output": iv, "expected": "accepted" if wf else "rejected"})
        if isinstance(m, tuple):
            disagreements.append({"case": c, "impl_output": iv, "model_output": ("!", m[1])})
            continue
        mv = trees.res_decode(m[0])
        if mv != iv:
            disagreements.append({"case": c, "impl_output": iv, "model_output": mv})
        spec_err = None if m[1] == [] else m[1][0]
        got_err = None if iv[0] == "ok" else iv[1]
        if spec_err != got_err:
            kind_mismatch.append({"case": c, "impl_output": iv, "coq_spec_error": spec_err})
    ctx.corr_cases += len(cases)
    ctx.obligation(f"correspondence HTMLDependency.__init__ validation ({len(cases)} cases)", not disagreements)
    ctx.obligation("exception kind = Coq spec_error (first offending argument/item; TypeError vs KeyError)",
                   not kind_mismatch)
    if disagreements:
        disagreements.sort(key=lambda d: len(json.dumps(d["case"])))
        ctx.extra["disagree_validation"] = disagreements[:3]
    if kind_mismatch:
        ctx.extra["disagree_error_kind"] = kind_mismatch[:3]


def check_single_vs_list(ctx: Ctx, rng, n: int) -> None:
    for _ in range(n):
        which = rng.choice(["script", "stylesheet", "meta"])
        req = {"script": ["src"], "stylesheet": ["href"], "meta": ["name", "content"]}[which]
        it = rand_item(rng, req)
        if it[0] == "nd" and it[1] in ("list", "pair", "none"):
            # a bare list IS the list form and None the absent form; not a single item
            continue
        base = {"name": rng.choice(NAMES), "version": rng.choice(VERSIONS),
                "source": ("dict", ["subdir", "package"]),
                "script": ("dict", ["src"]), "stylesheet": ("none",), "meta": ("none",)}
        single = dict(base)
        single[which] = ("dict", it[1]) if it[0] == "d" else ("str", NONDICT["str"]) if it[1] == "str" else ("nonit",)
        listed = dict(base)
        listed[which] = ("iter", "list", [it])
        case = {"which": which, "item": it}
        ctx.count(("single-vs-list", case), True, "single item vs one-element list")
        a = safe_call(lambda: construct(single))
        b = safe_call(lambda: construct(listed))
        ok = a[0] == b[0]
        if ok and a[0] == "ok":
            ok = (a[1] == b[1] and a[1].script == b[1].script and a[1].stylesheet == b[1].stylesheet
                  and a[1].meta == b[1].meta and obj_canon(a[1]) == obj_canon(b[1]))
        elif ok:
            # rejected in both forms, with the same exception kind (a non-dict single item that
            # is a str is iterated per character, an int fails in the for statement: TypeError)
            ok = a[1] == b[1]
        if not ok:
            ctx.violation(f"{which}= given as a single item and as a one-element list differ", case,
                          {"impl_output": repr(a), "expected": repr(b)})


# ------------------------------------------------------------------------------------
def check_versions(ctx: Ctx, pairs: list[tuple[str, str]]) -> None:
    model = run_model([[3, S(a), S(b)] for a, b in pairs], driver="c10")
    bad = []
    for (a, b), m in zip(pairs, model):
        ctx.count(("ver", a, b), a != b, "version pair")
        va, vb = Version(a), Version(b)
        got = [0 if va < vb else 2 if va > vb else 1, list(va.release), list(vb.release), 1 if va > vb else 0]
        if va == vb and not (va <= vb and va >= vb):
            got[0] = -1
        want = 1 + spec_vcmp(release(a), release(b))
        if got[0] != want or got[1] != release(a):
            ctx.violation("Version ordering of dotted release numbers is not numeric component-wise "
                          "ordering (modulo trailing zeros)", [a, b], {"impl_output": got, "expected": want})
        if isinstance(m, tuple) or m != got:
            bad.append({"case": [a, b], "impl_output": got, "model_output": m})
    ctx.corr_cases += len(pairs)
    ctx.obligation(f"correspondence ver_cmp / parse_ver vs packaging.version.Version ({len(pairs)} pairs)", not bad)
    if bad:
        ctx.extra["disagree_versions"] = bad[:3]


def coqchk(ctx: Ctx) -> None:
    """thorough tier: re-check the compiled property file and everything it depends on with the
    independent checker; it must report no axioms"""
    import subprocess
    from ..common import COQ, Lock
    with Lock():
        try:
            p = subprocess.run(["coqchk", "-silent", "-o", "-Q", ".", "HT", "HT.Properties.C10"], cwd=COQ,
                               stdout=subprocess.PIPE, stderr=subprocess.STDOUT, text=True, timeout=900)
            out, rc = p.stdout, p.returncode
        except subprocess.TimeoutExpired:
            out, rc = "TIMEOUT", 124
    ok = rc == 0 and "* Axioms: <none>" in out
    ctx.obligation("coqchk -o HT.Properties.C10: accepted, no axioms", ok)
    if ok:
        ctx.trusted_base.append("coqchk -o: Axioms: <none>")
    else:
        ctx.extra["coqchk_tail"] = out[-1500:]


def load_corpus() -> list[dict]:
    out = []
    for p in sorted(glob.glob(os.path.join(VERIF, "corpus", "C10", "*.json"))):
        with open(p, encoding="utf-8") as f:
            out += json.load(f)
    return [untuple_case(c) for c in out]


def node_from_json(x):
    t = x[0]
    if t == "G":
        return ("G", x[1], x[2], [node_from_json(k) for k in x[3]])
    if t == "L":
        return ("L", x[1], [node_from_json(k) for k in x[2]])
    if t == "C":
        return ("C", [node_from_json(k) for k in x[1]], x[2])
    return tuple(x)


def untuple_case(c: dict) -> dict:
    return {"deps": [tuple(d) for d in c["deps"]], "forest": [node_from_json(x) for x in c["forest"]],
            "mode": c["mode"], "dedup": c["dedup"]}


def run(ctx: Ctx) -> None:
    rng = ctx.rng
    ctx.rule = ("forests: 1-8 dependency objects with names from a pool of 5 (so names collide) and versions "
                "from {1, 1.0, 1.9, 1.10, 1.10.0, 01.2, 2, 0.0.1} (plus random dotted versions with leading/"
                "trailing zeros and numbers up to 1e17 in the flat stream), placed at random in nested block/"
                "inline/void/script tags, list/tuple/TagList wrappers, the top-level list, several in a row, the "
                "same object more than once, next to text/HTML/None/_repr_html_/tagifiable objects; observed "
                "through TagList/Tag.get_dependencies(dedup=True/False) and render()['dependencies']; "
                "bounded-exhaustive: every sequence up to length 4 (thorough 5) over a pool of 6 (thorough 8) "
                "name/version combinations and every bracketing of fixed sequences into up to 2 (thorough 3) tags. "
                "A forest case is non-trivial when two placed dependencies share a name. Versions: random pairs of "
                "dotted strings incl. padded/zero-prefixed variants of each other. Constructor: random argument "
                "shapes (None / dict / list / tuple / str / int; items dict or non-dict; required keys dropped with "
                "p=0.14), half of them with at most one bad argument; non-trivial when malformed or a stylesheet "
                "is given. distinct = distinct canonical inputs.")
    ctx.assumptions = [
        "the extracted OCaml model behaves as the Gallina model (ExtrOcamlBasic only)",
        "packaging.version.Version is modelled, not verified: only dotted release numbers (no epoch, "
        "pre/post/dev release, local version); its ordering on those is validated against ver_cmp on every run",
        "object identity is observed through `is` and a marker attribute that copy() preserves",
        "dicts are modelled by their key lists, non-dict values by one anonymous value",
    ]
    ctx.proof()
    if not ctx.quick:
        coqchk(ctx)

    # ---- B/C 1: forests --------------------------------------------------------------
    fixed = load_corpus()
    if fixed:
        check_tree_cases(ctx, "corpus", fixed, "corpus")

    cases = []
    for _ in range(ctx.budget(5000, 60000)):
        deps = rand_deps(rng)
        mode = rng.choice(["list", "list", "tag", "tag", "render_list", "render_tag"])
        forest = rand_kids(rng, rng.choice([1, 2, 2, 3, 4]), len(deps), custom=True)
        cases.append({"deps": deps, "forest": forest, "mode": mode,
                      "dedup": True if mode.startswith("render") else rng.random() < 0.6})
    check_tree_cases(ctx, "get_dependencies / render on random forests", cases, "forest")

    # flat lists with arbitrary dotted versions
    cases = []
    for _ in range(ctx.budget(2500, 30000)):
        deps = rand_deps(rng, anyver=True)
        seq = [rng.randrange(len(deps)) for _ in range(rng.choice([2, 3, 4, 6, 9]))]
        cases.append({"deps": deps, "forest": [("D", i) for i in seq], "mode": rng.choice(["list", "tag"]),
                      "dedup": True})
    check_tree_cases(ctx, "flat lists with random dotted versions", cases, "flat")

    # bounded-exhaustive: every sequence over a small pool
    pool = [("a", "1.9", 0), ("a", "1.10", 0), ("a", "1.10.0", 1), ("b", "1", 0), ("b", "1.0", 0), ("a", "01.2", 0)]
    if not ctx.quick:
        pool += [("b", "0.0.1", 0), ("a", "2", 0)]
    cases = []
    for n in range(0, ctx.budget(4, 5) + 1):
        for seq in itertools.product(range(len(pool)), repeat=n):
            cases.append({"deps": pool, "forest": [("D", i) for i in seq], "mode": "list", "dedup": True})
    check_tree_cases(ctx, "every sequence over a small pool", cases, "exhaustive-seq")

    # bounded-exhaustive: every bracketing of fixed sequences
    cases = []
    seqs = [[0, 1, 2], [1, 0, 3, 2], [3, 4, 0, 1]] if ctx.quick else \
        [[0, 1, 2], [1, 0, 3, 2], [3, 4, 0, 1], [2, 1, 0, 4, 3], [0, 0, 1, 1]]
    for seq in seqs:
        for f in forests_over(seq, ctx.budget(2, 3)):
            for mode, dd in (("list", True), ("tag", False), ("render_tag", True)):
                cases.append({"deps": pool, "forest": f, "mode": mode, "dedup": dd})
    check_tree_cases(ctx, "every bracketing of fixed sequences", cases, "exhaustive-placement")

    # ---- B/C 2: the version order -----------------------------------------------------
    pairs = [("1.9", "1.10"), ("1.10", "1.10.0"), ("01.2", "1.2"), ("0.0.1", "0"), ("1", "1.0.0.0"),
             ("10", "9"), ("1.0.1", "1"), ("0", "0.0"), ("2", "10"), ("1.01", "1.1")]
    pairs += list(itertools.product(VERSIONS, VERSIONS))
    for _ in range(ctx.budget(5000, 60000)):
        a = rand_version(rng)
        r = rng.random()
        if r < 0.15:
            b = a + ".0" * rng.choice([1, 2])
        elif r < 0.3:
            b = ".".join(("0" + p) if rng.random() < 0.5 else p for p in a.split("."))
        elif r < 0.45:
            ps = a.split(".")
            k = rng.randrange(len(ps))
            ps[k] = str(int(ps[k]) + rng.choice([1, 9, 10]))
            b = ".".join(ps)
        elif r < 0.55:
            b = a.rsplit(".", 1)[0]
        else:
            b = rand_version(rng)
        pairs.append((a, b) if rng.random() < 0.5 else (b, a))
    check_versions(ctx, pairs)

    # ---- B/C 3: constructor validation -------------------------------------------------
    cases = [rand_args(rng) for _ in range(ctx.budget(6000, 80000))]
    cases += [
        {"name": "a", "version": "1", "source": ("nd", "str"), "script": ("nonit",), "stylesheet": ("none",), "meta": ("none",)},
        {"name": "a", "version": "1", "source": ("dict", ["package"]), "script": ("none",), "stylesheet": ("none",), "meta": ("none",)},
        {"name": "a", "version": "1", "source": ("none",), "script": ("str", "src"), "stylesheet": ("none",), "meta": ("none",)},
        {"name": "a", "version": "1", "source": ("none",), "script": ("none",), "stylesheet": ("none",), "meta": ("dict", ["name"])},
        {"name": "a", "version": "1", "source": ("none",), "script": ("none",), "stylesheet": ("none",), "meta": ("dict", ["content"])},
        {"name": "a", "version": "1", "source": ("none",), "script": ("none",), "stylesheet": ("none",),
         "meta": ("iter", "list", [("d", ["name", "content"]), ("d", ["name"])])},
        {"name": "a", "version": "1", "source": ("none",), "script": ("iter", "list", [("d", ["src"]), ("nd", "int")]),
         "stylesheet": ("dict", ["rel", "href"]), "meta": ("none",)},
    ]
    check_validation(ctx, cases)
    check_single_vs_list(ctx, rng, ctx.budget(1500, 15000))
    # the stylesheet default is written into the caller's dict (documented quirk, follows the code)
    sheet = {"href": "a.css"}
    HTMLDependency("a", "1", stylesheet=sheet)
    ctx.extra["notes"] = [
        "script/stylesheet/meta given as a str is iterated per character: every non-empty str is a "
        "TypeError, the empty str is accepted (and stored as is)",
        "HTMLDependency.__init__ adds rel=stylesheet to the caller's stylesheet dicts: " + json.dumps(sheet),
    ]


def replay(ctx: Ctx, path: str) -> None:
    with open(path, encoding="utf-8") as f:
        r = json.load(f)
    print(json.dumps(r, indent=1)[:4000])
    c = r.get("case")
    if isinstance(c, dict) and "forest" in c:
        ctx.rule = "replay of one forest case"
        ctx.proof()
        check_tree_cases(ctx, "replay", [untuple_case(c)], "replay")
    elif isinstance(c, dict) and "source" in c:
        ctx.rule = "replay of one constructor case"
        ctx.proof()
        cc = dict(c)
        for k in ("source", "script", "stylesheet", "meta"):
            v = cc[k]
            if v[0] == "iter":
                v = ("iter", v[1], [tuple(x) for x in v[2]])
            cc[k] = tuple(v)
        check_validation(ctx, [cc])
    elif isinstance(c, list) and len(c) == 2 and all(isinstance(x, str) for x in c):
        ctx.rule = "replay of one version pair"
        ctx.proof()
        check_versions(ctx, [(c[0], c[1])])
    else:
        run(ctx)

"""C16  Class/style helpers and css() act as token-set and declaration algebra."""
from __future__ import annotations

import copy as pycopy
import html as pyhtml
import itertools
import json
import os
import zlib

from .. import common
from ..common import Ctx, S, unS, run_model, VERIF
from .. import trees
from ..trees import safe_call

import htmltools
from htmltools import HTML, Tag, css

DRIVER = "c16"

# Set to False to treat the HTML-valued-class inconsistency (see oracle_add) as outside the
# promise instead of reporting it.
HTML_CLASS_MERGE_IS_VIOLATION = True
WHAT_HTML_MERGE = ("add_class on an HTML-valued class attribute stores the plain token html-escaped: "
                   "has_class(token) is False right after add_class(token)")


@common.known_matcher("C16-html-class-merge")
def _known_html_merge(what, case, detail):
    return what == WHAT_HTML_MERGE and detail.get("pre_class_is_html") is True \
        and any(ch in detail.get("token", "") for ch in "&<>\"'")


# ------------------------------------------------------------------------------------
# values
# ------------------------------------------------------------------------------------
def mk(v):
    """('S'|'H', text) -> str | HTML ; None -> None"""
    if v is None:
        return None
    return HTML(v[1]) if v[0] == "H" else v[1]


def av_sx(v):
    return [1 if v[0] == "H" else 0, S(v[1])]


def items_of(t):
    """the attribute map as an ordered list with a str/HTML marker"""
    out = []
    for k, v in dict.items(t.attrs):
        if type(v) is str:
            out.append([k, "S", v])
        elif type(v) is HTML:
            out.append([k, "H", v.as_string()])
        else:
            out.append([k, "?" + type(v).__name__, str(v)])
    return out


def sx_items(x):
    return [[unS(k), "H" if v[0] == 1 else "S", unS(v[1])] for k, v in x]


# ------------------------------------------------------------------------------------
# independent specification (from the property text)
# ------------------------------------------------------------------------------------
def tokens(s: str) -> list[str]:
    """whitespace-separated tokens, by str.isspace (not str.split)"""
    out, cur = [], ""
    for ch in s:
        if ch.isspace():
            if cur:
                out.append(cur)
            cur = ""
        else:
            cur += ch
    if cur:
        out.append(cur)
    return out


def is_token(c) -> bool:
    return isinstance(c, str) and c != "" and not any(ch.isspace() for ch in c)


def get(items, key):
    for k, m, v in items:
        if k == key:
            return (m, v)
    return None


def others(items, key):
    return [x for x in items if x[0] != key]


def keys_ok(pre, post, key):
    """an existing key keeps its position, a new key goes last, nothing else moves"""
    kp, kq = [x[0] for x in pre], [x[0] for x in post]
    if key in kp or key not in kq:
        return kq == [k for k in kp if k in kq]
    return kq == kp + [key]


def spec_key(k: str) -> str:
    out = ""
    for ch in k:
        if "A" <= ch <= "Z":
            out += "-" + chr(ord(ch) + 32)
        elif ch == "_":
            out += "-"
        else:
            out += ch
    return out


def unesc(v):
    """meaning of a stored value: markup is decoded, plain text is itself"""
    return pyhtml.unescape(v[1]) if v[0] == "H" else v[1]


# ------------------------------------------------------------------------------------
# running a history on the implementation
# ------------------------------------------------------------------------------------
def build_tag(init):
    t = Tag("div", {k: mk(v) for k, v in init})
    return t


def run_history(ctx, case):
    """returns (observations, notes) ; the oracle runs on the way"""
    init, ops = case
    # the tag the history runs on is reached by one of five routes (decided by the case itself, so that a
    # replay takes the same one): built directly; a copy.copy / tagify() of a built tag, with that tag as a
    # bystander; the built tag itself, with a copy.copy / tagify() of it as a bystander.  The helpers act on
    # the tag they are called on: a bystander never changes.
    route = zlib.crc32(common.canon(case).encode("utf-8", "surrogatepass")) % 5
    base = build_tag(init)
    t, by = base, None
    if route == 1:
        t, by = pycopy.copy(base), base
    elif route == 2:
        t, by = base.tagify(), base
    elif route == 3:
        by = pycopy.copy(base)
    elif route == 4:
        by = base.tagify()
    by0 = items_of(by) if by is not None else None
    want0 = [[k, v[0], v[1]] for k, v in init]
    if items_of(t) != want0:
        return [("build", items_of(t))]
    obs = []
    br = ctx.extra.setdefault("branch_distribution", {})

    def hit(name):
        br[name] = br.get(name, 0) + 1

    for op in ops:
        pre = items_of(t)
        kind = op[0]
        cv = get(pre, "class")
        if kind in ("add", "rm", "has"):
            arg = op[1][1] if kind == "add" else op[1]
            hit(f"{kind}: class " + ("absent" if cv is None else "empty" if cv[1] == "" else
                                     "whitespace-only" if not tokens(cv[1]) else "HTML" if cv[0] == "H" else "plain")
                + ", arg " + ("token" if is_token(arg) else "empty" if arg == "" else "with whitespace"))
            if kind != "add" and is_token(arg) and cv is not None:
                toks = tokens(cv[1])
                hit(f"{kind}: token " + ("absent but substring/superstring of one present"
                                         if arg not in toks and any(arg in x or x in arg for x in toks)
                                         else "absent" if arg not in toks
                                         else "present more than once" if toks.count(arg) > 1
                                         else "the only token" if len(toks) == 1 else "present"))
        else:
            sv = get(pre, "style")
            hit("sty: style " + ("absent" if sv is None else "HTML" if sv[0] == "H" else "plain") + ", arg "
                + ("None" if op[1] is None else ("HTML" if op[1][0] == "H" else "plain")
                   + (" accepted" if op[1][1].endswith(";") else " rejected")))
        if kind == "has":
            r = safe_call(lambda: t.has_class(op[1]))
            post = items_of(t)
            obs.append(["has", r[1]] if r[0] == "ok" and post == pre else ["has?", repr(r), post])
            oracle_has(ctx, case, op, pre, r)
            continue
        if kind == "add":
            r = safe_call(lambda: t.add_class(mk(op[1]), prepend=op[2]))
        elif kind == "rm":
            r = safe_call(lambda: t.remove_class(op[1]))
        else:
            r = safe_call(lambda: t.add_style(mk(op[1]), prepend=op[2]))
        post = items_of(t)
        if by is not None and items_of(by) != by0:
            ctx.violation(f"{kind}: changed the class/style of ANOTHER tag (a copy.copy / tagify() of the same tag, or the "
                          "tag it was copied from): has_class / tokens of a tag that never received the operation differ",
                          case, {"route": ["direct", "copy.copy(tag)", "tag.tagify()", "tag, bystander copy.copy(tag)",
                                           "tag, bystander tag.tagify()"][route],
                                 "bystander_before": by0, "bystander_after": items_of(by)})
            by0 = items_of(by)
        if r[0] == "ok":
            obs.append(["st", post])
            if r[1] is not t:
                ctx.violation(f"{kind}: does not return the tag itself", case,
                              {"impl_output": repr(r[1]), "expected": "the tag (identity)"})
        else:
            obs.append(["err", r[1]] if post == pre else ["err-mutated", r[1], post])
        if kind == "add":
            oracle_add(ctx, case, op, pre, r, post, t)
        elif kind == "rm":
            oracle_rm(ctx, case, op, pre, r, post)
        else:
            oracle_style(ctx, case, op, pre, r, post)
    return obs


def mini(pre, op):
    """the one-step history that reproduces a step: the state before it as initial map"""
    return [[[k, [m, v]] for k, m, v in pre], [list(op)]]


def class_tokens(items):
    v = get(items, "class")
    return [] if v is None else tokens(v[1])


def oracle_has(ctx, case, op, pre, r):
    c = op[1]
    want = c in class_tokens(pre)
    if r != ("ok", want):
        ctx.violation("has_class is not whitespace-token membership", mini(pre, op),
                      {"impl_output": repr(r), "expected": want, "history": case})


def oracle_add(ctx, case, op, pre, r, post, t):
    _, c, p = op
    if c[0] != "S" or not is_token(c[1]):
        return          # the property promises nothing for such arguments
    c = c[1]
    old = get(pre, "class")
    want = [c] + class_tokens(pre) if p else class_tokens(pre) + [c]
    problems = []
    if r[0] != "ok":
        problems.append(f"raised {r}")
    else:
        if class_tokens(post) != want:
            problems.append("tokens after add_class are not the old tokens with the new one "
                            + ("first" if p else "last"))
        if t.has_class(c) is not True:
            problems.append("has_class false after add_class")
        if others(post, "class") != others(pre, "class") or not keys_ok(pre, post, "class"):
            problems.append("another attribute changed or moved")
    if not problems:
        return
    if old is not None and old[0] == "H" and problems and all("attribute" not in x and "raised" not in x for x in problems):
        if HTML_CLASS_MERGE_IS_VIOLATION:
            ctx.violation(WHAT_HTML_MERGE, mini(pre, op),
                          {"impl_output": post, "expected_tokens": want, "history": case,
                           "pre_class_is_html": True, "token": c, "problems": problems})
        return
    ctx.violation("add_class: " + problems[0], mini(pre, op),
                  {"impl_output": post, "expected_tokens": want, "history": case, "problems": problems})


def oracle_rm(ctx, case, op, pre, r, post):
    c = op[1]
    if not is_token(c):
        return
    old = get(pre, "class")
    want = [x for x in class_tokens(pre) if x != c]
    problems = []
    if r[0] != "ok":
        problems.append(f"raised {r}")
    else:
        if class_tokens(post) != want:
            problems.append("tokens after remove_class are not the old tokens without that token")
        new = get(post, "class")
        if old is None or old[1] == "":
            # nothing to remove from: remove_class leaves the state alone (an empty class
            # value the caller put there stays)
            if post != pre:
                problems.append("state changed although there was no class token")
        else:
            if (new is None) != (want == []):
                problems.append("class attribute not dropped exactly when no token remains")
        if others(post, "class") != others(pre, "class") or \
                [x[0] for x in post] != [x[0] for x in pre if x[0] != "class" or new is not None]:
            problems.append("another attribute changed or moved")
    if problems:
        ctx.violation("remove_class: " + problems[0], mini(pre, op),
                      {"impl_output": post, "expected_tokens": want, "history": case, "problems": problems})


def oracle_style(ctx, case, op, pre, r, post):
    _, s, p = op
    old = get(pre, "style")
    problems = []
    if s is not None and not s[1].endswith(";"):
        if r != ("err", 5):
            problems.append("no ValueError for a declaration without trailing semicolon")
        if post != pre:
            problems.append("tag modified by a rejected add_style")
    elif r[0] != "ok":
        problems.append(f"raised {r} for an acceptable declaration")
    else:
        new = get(post, "style")
        if s is None:
            if post != pre:
                problems.append("add_style(None) changed the tag")
        elif old is None:
            if new != (s[0], s[1]):
                problems.append("style attribute not created with the declaration as given")
        else:
            a, b = (s, old) if p else (old, s)
            if old[0] == "S" and s[0] == "S":
                if new != ("S", a[1] + " " + b[1]):
                    problems.append("plain declarations not " + ("prepended" if p else "appended") + " with one space")
            else:
                # HTML involved: result is HTML; the plain operand is escaped so that the
                # decoded text is the concatenation
                if new is None or new[0] != "H" or unesc(new) != unesc(a) + " " + unesc(b):
                    problems.append("HTML/plain declarations not " + ("prepended" if p else "appended"))
        if others(post, "style") != others(pre, "style") or not keys_ok(pre, post, "style"):
            problems.append("another attribute changed or moved")
    if problems:
        ctx.violation("add_style: " + problems[0], mini(pre, op),
                      {"impl_output": post, "result": repr(r), "history": case, "problems": problems})


# ------------------------------------------------------------------------------------
# wire format
# ------------------------------------------------------------------------------------
def hist_sx(case):
    init, ops = case
    sx_ops = []
    for op in ops:
        if op[0] == "add":
            sx_ops.append([0, av_sx(op[1]), 1 if op[2] else 0])
        elif op[0] == "rm":
            sx_ops.append([1, S(op[1])])
        elif op[0] == "has":
            sx_ops.append([2, S(op[1])])
        else:
            sx_ops.append([3, [] if op[1] is None else [av_sx(op[1])], 1 if op[2] else 0])
    return [1, [[S(k), av_sx(v)] for k, v in init], sx_ops]


def hist_decode(m):
    """-> (observations, spec tokens / spec has per step)"""
    obs, spec = [], []
    for o in m:
        if o[0] == 0:
            obs.append(["st", sx_items(o[1])])
            spec.append([unS(x) for x in o[2]])
        elif o[0] == 1:
            obs.append(["err", o[1]])
            spec.append(None)
        else:
            obs.append(["has", bool(o[1])])
            spec.append(bool(o[2]))
    return obs, spec


# ------------------------------------------------------------------------------------
# generators
# ------------------------------------------------------------------------------------
TOKENS = ["foo", "foobar", "foo-x", "bar", "foo", "fo", "o", "x-foo", "Foo", "a&b", "<x>", "\u00e9", "a\"b", "b;"]
ODD = ["", " ", " foo", "foo ", " foo ", "foo bar", "foo\tbar", "\nfoo", "foo\u00a0bar", "\u2003", "foo\x1fx",
       "\u200b", "foo\u200bbar", "  ", "foo  foobar", "bar foo"]
STYLES = ["a:b;", "color:red;", "x:y", "", ";", " ; ", "a:b; ", "w:'<';", "q:&amp;;", "top:1px;left:2px;", "a:b;\n",
          "\u00e9:1;", "z"]


def rand_token(rng, odd=0.25):
    r = rng.random()
    if r < odd:
        return rng.choice(ODD)
    if r < 0.93:
        return rng.choice(TOKENS)
    return trees.rand_text(rng, 5)


def rand_class_value(rng):
    r = rng.random()
    if r < 0.12:
        return rng.choice(["", " ", "\t\n ", "\u00a0"])
    n = rng.choice([1, 1, 2, 3, 4, 6])
    seps = [" ", " ", " ", "  ", "\t", "\n ", "\u2003", "\x1f"]
    s = rng.choice(["", "", "", " ", "\n"])
    for i in range(n):
        s += rng.choice(TOKENS) + (rng.choice(seps) if i < n - 1 else "")
    return s + rng.choice(["", "", "", " ", "\r\n"])


def rand_init(rng):
    keys = ["id", "class", "data-x", "style", "title"]
    rng.shuffle(keys)
    init = []
    for k in keys:
        if k == "class":
            if rng.random() < 0.25:
                continue
            v = rand_class_value(rng)
            init.append((k, ("H" if rng.random() < 0.18 else "S", v)))
        elif k == "style":
            if rng.random() < 0.4:
                continue
            init.append((k, ("H" if rng.random() < 0.3 else "S", rng.choice(STYLES))))
        elif rng.random() < 0.35:
            init.append((k, ("H" if rng.random() < 0.2 else "S", trees.rand_text(rng, 4))))
    return init


def rand_op(rng):
    r = rng.random()
    if r < 0.32:
        return ("add", ("H" if rng.random() < 0.06 else "S", rand_token(rng, 0.2)), rng.random() < 0.5)
    if r < 0.57:
        return ("rm", rand_token(rng))
    if r < 0.8:
        return ("has", rand_token(rng))
    if rng.random() < 0.06:
        return ("sty", None, rng.random() < 0.5)
    return ("sty", ("H" if rng.random() < 0.3 else "S", rng.choice(STYLES)), rng.random() < 0.5)


def rand_history(rng):
    return (rand_init(rng), [rand_op(rng) for _ in range(rng.choice([1, 2, 3, 4, 6, 8, 12]))])


def exhaustive_histories(maxlen):
    inits = [None, "", " ", "foo", "foobar foo", "foo  foobar\tfoo"]
    ops = [("add", ("S", "foo"), True), ("add", ("S", "foo"), False), ("add", ("S", "foobar"), False),
           ("rm", "foo"), ("rm", "foobar"), ("has", "foo"), ("sty", ("S", "a:b;"), False),
           ("sty", ("S", "a:b"), True)]
    # a tag with no attribute at all
    for n in range(1, min(maxlen, 3) + 1):
        for seq in itertools.product(ops, repeat=n):
            yield ([], list(seq))
    for i in inits:
        init = [("id", ("S", "i"))] + ([] if i is None else [("class", ("S", i))])
        for n in range(1, maxlen + 1):
            for seq in itertools.product(ops, repeat=n):
                yield (init, list(seq))


KEYS = ["fontSize", "font_size", "backgroundColor", "_lead", "trail_", "__x__", "ABC", "aBC", "x1Y2", "a", "Z",
        "borderTopLeftRadius", "margin_Top", "WebkitTransition", "x_", "_", "a1_b2C3", "color"]


def rand_key(rng):
    if rng.random() < 0.6:
        return rng.choice(KEYS)
    return "".join(rng.choice("abzAMZ_019-x") for _ in range(rng.randrange(0, 7)))


def rand_css_value(rng):
    r = rng.random()
    if r < 0.18:
        return None
    if r < 0.45:
        return rng.choice(["red", "12px", "", "a b", "x;y", "<", "url('a')", trees.rand_text(rng, 5)])
    if r < 0.6:
        return rng.choice([0, 1, -3, 10 ** 20, True, False])
    if r < 0.72:
        return rng.choice([1.5, 0.1, -0.0, 1e22, 1e-7, float("inf"), 2.0, rng.random()])
    if r < 0.78:
        return HTML(rng.choice(["<b>", "x", ""]))
    if r < 0.94:
        return [rng.choice(["1px", "solid", "", "a b", "red"]) for _ in range(rng.choice([0, 1, 2, 3]))]
    if r < 0.97:
        return [rng.choice(["1px", 2, None, HTML("h")]) for _ in range(rng.choice([1, 2, 3]))]
    return ("t", "u")


def rand_css(rng):
    r = rng.random()
    if r < 0.6:
        col = ""
    elif r < 0.9:
        col = rng.choice(["\n", " ", ";", "x", "\n  "])
    else:
        col = rng.choice([None, 3, 1.5, b"", HTML(""), ["a"]])
    kw = {}
    for _ in range(rng.choice([0, 1, 1, 2, 3, 4, 6])):
        k = rand_key(rng)
        if k != "collapse_":
            kw[k] = rand_css_value(rng)
    return (col, list(kw.items()))


def css_case_json(c):
    col, kw = c
    return [repr(col), [[k, repr(v)] for k, v in kw]]


def css_sx(c):
    col, kw = c
    args = []
    for k, v in kw:
        if v is None:
            sv = []
        elif isinstance(v, list):
            sv = [[1, [[S(x)] if isinstance(x, str) else [] for x in v]]]
        else:
            sv = [[0, S(str(v))]]         # Python's own str(v) (floats are not modelled)
        args.append([S(k), sv])
    return [2, [S(col)] if isinstance(col, str) else [], args]


def css_impl(c):
    col, kw = c
    return safe_call(lambda: css(col, **dict(kw)))


def css_res(m):
    if m[0] == 0:
        return ("ok", unS(m[1][0]) if m[1] else None)
    return ("err", m[1])


def css_oracle(ctx, c, out):
    col, kw = c
    if not isinstance(col, str):
        if out != ("err", 3):
            ctx.violation("css: no TypeError for a non-str collapse_", css_case_json(c), {"impl_output": repr(out)})
        return
    if any(isinstance(v, list) and not all(isinstance(x, str) for x in v) for _, v in kw):
        return      # list with non-str items: nothing promised
    want = ""
    for k, v in kw:
        if v is None:
            continue
        want += spec_key(k) + ":" + (" ".join(v) if isinstance(v, list) else str(v)) + ";" + col
    want = None if not any(v is not None for _, v in kw) else want
    if out != ("ok", want):
        ctx.violation("css: output is not one name:value; per non-None argument with hyphenated lower-case names",
                      css_case_json(c), {"impl_output": repr(out), "expected": want})
        return
    if col == "":
        if want is not None and not want.endswith(";"):
            ctx.violation("css: output does not end with a semicolon", css_case_json(c), {"impl_output": want})
        for p in (False, True):
            t = Tag("div", style="k:v;")
            r = safe_call(lambda: t.add_style(out[1], prepend=p))
            exp = "k:v;" if want is None else (want + " k:v;" if p else "k:v; " + want)
            if r[0] != "ok" or r[1] is not t or items_of(t) != [["style", "S", exp]]:
                ctx.violation("css: output with the default separator is not accepted by add_style",
                              css_case_json(c), {"impl_output": repr(r), "attrs": items_of(t), "expected": exp})


# ------------------------------------------------------------------------------------
def check_histories(ctx, name, cases, kind):
    model = run_model([hist_sx(c) for c in cases], driver=DRIVER)
    disagreements = []
    spec_bad = []
    for c, m in zip(cases, model):
        init, ops = c
        nontriv = any(o[0] in ("add", "rm") for o in ops) and (get([[k, v[0], v[1]] for k, v in init], "class") is not None
                                                               or sum(o[0] == "add" for o in ops) > 0)
        ctx.count(c, nontriv, kind)
        obs = run_history(ctx, c)
        if isinstance(m, tuple) or m == common.SX_BAD:
            disagreements.append({"case": c, "impl_output": obs, "model_output": repr(m)})
            continue
        mobs, mspec = hist_decode(m)
        if mobs != obs:
            k = next((i for i, (a, b) in enumerate(zip(obs, mobs)) if a != b), min(len(obs), len(mobs)))
            disagreements.append({"case": c, "first_differing_step": k,
                                  "impl_output": obs[k:k + 1], "model_output": mobs[k:k + 1]})
            continue
        # the extracted Coq specification (token-list algebra) against the implementation, on the
        # theorem's domain: plain / absent class value, plain whitespace-free tokens added,
        # tokens or anything strippable removed
        pre0 = [[k, v[0], v[1]] for k, v in init]
        cv = get(pre0, "class")
        in_dom = (cv is None or cv[0] == "S") and all(
            (o[0] != "add" or (o[1][0] == "S" and is_token(o[1][1]))) and (o[0] != "rm" or is_token(o[1]))
            for o in ops)
        if in_dom:
            for o, ob, sp in zip(ops, obs, mspec):
                if ob[0] == "st" and class_tokens(ob[1]) != sp:
                    spec_bad.append((c, o, ob, sp))
                    break
                if ob[0] == "has" and ob[1] != sp:
                    spec_bad.append((c, o, ob, sp))
                    break
    ctx.corr_cases += len(cases)
    ctx.obligation(f"correspondence {name} ({len(cases)} histories)", not disagreements)
    if disagreements:
        disagreements.sort(key=lambda d: len(common.canon(d["case"])))
        ctx.extra.setdefault("disagreements", []).extend(disagreements[:3])
        ctx.extra[f"disagree_{name}"] = disagreements[:3]
    for c, o, ob, sp in spec_bad[:1]:
        ctx.violation("class tokens differ from the Coq specification fold (spec_run)", c,
                      {"impl_output": ob, "expected_tokens": sp, "op": o})


def load_corpus():
    d = os.path.join(VERIF, "corpus", "C16")
    hist, cs = [], []
    if os.path.isdir(d):
        for fn in sorted(os.listdir(d)):
            if fn.endswith(".json"):
                with open(os.path.join(d, fn), encoding="utf-8") as f:
                    j = json.load(f)
                for h in j.get("histories", []):
                    hist.append(norm_history(h))
                for c in j.get("css", []):
                    cs.append((c[0], [(k, v) for k, v in c[1]]))
    return hist, cs


def norm_history(h):
    init, ops = h
    init = [(k, tuple(v)) for k, v in init]
    out = []
    for o in ops:
        if o[0] == "add":
            out.append(("add", tuple(o[1]), bool(o[2])))
        elif o[0] == "sty":
            out.append(("sty", None if o[1] is None else tuple(o[1]), bool(o[2])))
        else:
            out.append((o[0], o[1]))
    return (init, out)


def run(ctx: Ctx) -> None:
    rng = ctx.rng
    ctx.rule = ("histories: a random initial attribute map (class absent / empty / whitespace-only / 1-6 tokens from a "
                "pool of mutually-substring tokens foo foobar foo-x fo o x-foo Foo a&b <x> with mixed Unicode "
                "separators, plain or HTML; style and three other attributes in random order) followed by 1-12 "
                "operations add_class / remove_class / has_class / add_style (both prepend settings; arguments: "
                "pool tokens, repeated tokens, tokens with surrounding or internal whitespace, empty string, "
                "HTML values, declarations with and without trailing semicolon, None), compared with the "
                "extracted model after every step (ordered item list with str/HTML marker, has_class result, "
                "exception kind, state after a rejected call); plus all operation sequences up to length 3 "
                "(thorough 4) over an 8-operation alphabet from 6 initial class values. css(): random keyword "
                "sets (camelCase, snake_case, leading/trailing/double underscores, digits, consecutive capitals, "
                "random ASCII keys) with values None/str/int/float/bool/HTML/list/tuple, str and non-str collapse_. "
                "str.isspace is compared with the model's whitespace list over every code point. A history is "
                "non-trivial when it contains an add_class or remove_class acting on a class attribute; a css case "
                "when it has a non-None argument; distinct = distinct canonical inputs.")
    ctx.assumptions = [
        "the extracted OCaml model behaves as the Gallina model (ExtrOcamlBasic only)",
        "Python's str is a sequence of code points; str.split()/str.strip() with no argument split/strip on str.isspace "
        "(validated per code point against the model's literal list on every run)",
        "css() keyword names are ASCII (str.lower is modelled for ASCII letters only); float/int/bool values are passed "
        "to the model as Python's own str(x)",
        "dict is insertion-ordered with in-place replacement (Python >= 3.7)",
        "class_ arguments of remove_class/has_class are str; add_class/add_style arguments are str | HTML (| None for add_style)",
    ]
    ctx.proof()

    # ---- B 0: the whitespace set, str.split, str.strip ---------------------------------------
    ws_model = run_model([[5]], driver=DRIVER)[0]
    bound = 0x110000
    ws_py = [c for c in range(bound) if chr(c).isspace()]
    ctx.count(("isspace", bound), True, "whitespace set sweep")
    ctx.obligation(f"whitespace list of the model == {{c : chr(c).isspace()}} over all code points < {hex(bound)}",
                   sorted(ws_model) == ws_py and len(set(ws_model)) == len(ws_model))
    strs = ["a" + chr(c) + "b" for c in ws_py] + [chr(c) + "ab" + chr(c) for c in ws_py]
    step = 1 if not ctx.quick else 37
    probe = [c for c in range(0, 0x3100)] + list(range(0x3100, 0x110000, 997 if ctx.quick else 13))
    probe = [c for c in probe[::step] if not 0xD800 <= c <= 0xDFFF]
    for i in range(0, len(probe), 16):
        strs.append("x".join(chr(c) for c in probe[i:i + 16]))
    strs += ["".join(rng.choice([" ", "\t", "a", "b", "foo", "\u00a0", "\u2003", "\x1c", "\u200b", "\n", "-"])
                     for _ in range(rng.randrange(0, 9))) for _ in range(ctx.budget(1500, 20000))]
    strs += [trees.rand_text(rng, 10) for _ in range(ctx.budget(500, 10000))]
    strs += ["", " ", "  a", "a  ", " a  b ", "\u3000a\u3000"]
    m_split = run_model([[3, S(s)] for s in strs], driver=DRIVER)
    m_strip = run_model([[4, S(s)] for s in strs], driver=DRIVER)
    bad = []
    for s, a, b in zip(strs, m_split, m_strip):
        ctx.count(("split", s), any(ch.isspace() for ch in s), "str.split/strip")
        if isinstance(a, tuple) or isinstance(b, tuple) or [unS(x) for x in a] != s.split() or unS(b) != s.strip() \
                or tokens(s) != s.split():
            bad.append(s)
    ctx.corr_cases += len(strs)
    ctx.obligation(f"correspondence split_ws / strip vs str.split() / str.strip() ({len(strs)} strings)", not bad)
    if bad:
        ctx.extra["disagree_split"] = [repr(x) for x in bad[:3]]

    # ---- B/C 1: histories -----------------------------------------------------------------------
    corpus_h, corpus_c = load_corpus()
    if corpus_h:
        check_histories(ctx, "class/style histories (corpus)", corpus_h, "corpus history")
    cases = [rand_history(rng) for _ in range(ctx.budget(4000, 80000))]
    check_histories(ctx, "class/style histories (random)", cases, "random history")
    ex = list(exhaustive_histories(ctx.budget(3, 4)))
    check_histories(ctx, "class/style histories (bounded-exhaustive)", ex, "exhaustive history")

    # ---- B/C 2: css() ----------------------------------------------------------------------------
    ccases = corpus_c + [rand_css(rng) for _ in range(ctx.budget(4000, 60000))]
    for n in (1, 2):
        for ks in itertools.product(["aB", "a_b", "AB", "_a", "b_"], repeat=n):
            if len(set(ks)) == n:
                for vs in itertools.product([None, "v", 1, ["x", "y"], []], repeat=n):
                    ccases.append(("", list(zip(ks, vs))))
    model = run_model([css_sx(c) for c in ccases], driver=DRIVER)
    dis = []
    key_dis = []
    for c, m in zip(ccases, model):
        ctx.count(css_case_json(c), any(v is not None for _, v in c[1]), "css call")
        out = css_impl(c)
        css_oracle(ctx, c, out)
        if isinstance(m, tuple) or m == common.SX_BAD:
            dis.append({"case": css_case_json(c), "impl_output": repr(out), "model_output": repr(m)})
            continue
        mv = css_res(m[0])
        if mv != out:
            dis.append({"case": css_case_json(c), "impl_output": repr(out), "model_output": repr(mv)})
        elif isinstance(c[0], str) and css_res(m[1]) != out:
            # extracted Coq specification vs implementation
            ctx.violation("css: output differs from the Coq specification spec_css", css_case_json(c),
                          {"impl_output": repr(out), "expected": repr(css_res(m[1]))})
    ctx.corr_cases += len(ccases)
    ctx.obligation(f"correspondence css() ({len(ccases)} calls)", not dis)
    if dis:
        dis.sort(key=lambda d: len(common.canon(d["case"])))
        ctx.extra.setdefault("disagreements", []).extend(dis[:3])
        ctx.extra["disagree_css"] = dis[:3]
    # key normalisation alone, against the two regex substitutions as written in the statement
    import re
    keys = sorted({k for c in ccases for k, _ in c[1]} | {"".join(t) for n in range(0, 5) for t in itertools.product("aZ_1", repeat=n)})
    mk_ = run_model([[6, S(k)] for k in keys], driver=DRIVER)
    kbad = [k for k, m in zip(keys, mk_)
            if isinstance(m, tuple) or not (unS(m[0]) == unS(m[1]) == spec_key(k) == re.sub("_", "-", re.sub("([A-Z])", "-\\1", k).lower()))]
    for k in keys:
        ctx.count(("key", k), any(ch == "_" or "A" <= ch <= "Z" for ch in k), "css key")
    ctx.corr_cases += len(keys)
    ctx.obligation(f"correspondence css key normalisation ({len(keys)} keys)", not kbad)
    if kbad:
        ctx.extra["disagree_css_keys"] = kbad[:5]


def replay(ctx: Ctx, path: str) -> None:
    with open(path, encoding="utf-8") as f:
        r = json.load(f)
    print(json.dumps(r, indent=1)[:4000])
    case = r.get("case")
    try:
        if isinstance(case, list) and len(case) == 2 and isinstance(case[1], list) and case[1] \
                and isinstance(case[1][0], list) and case[1][0] and case[1][0][0] in ("add", "rm", "has", "sty"):
            check_histories(ctx, "replayed history", [norm_history(case)], "replay")
    except Exception as e:       # a replay file of another shape: fall through to the full run
        print("replay of the single case failed:", e)
    run(ctx)

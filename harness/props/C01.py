"""C01  Rendered markup parses back to the same element tree.

PUBLIC ENTRY POINTS AND ARGUMENTS THAT REACH THE RENDERED MARKUP OF A TREE OF ORDINARY ELEMENTS
(each is exercised below with non-default values and judged by the parse-back oracle; the step that
does it is named in brackets):

  rendering
    Tag.get_html_string(indent=, eol=)                          [main differential; ROUTES "get_html_string"]
    TagList.get_html_string(indent=, eol=, add_ws=True|False)   [ROUTES "get_html_string" on top-level lists]
    str() / repr() / _repr_html_() / render()["html"] / tagify().get_html_string() of Tag and TagList,
    str() with htmltools.html_dependency_render_mode = "json"   [trees.render_routes: main oracle, ROUTES "all routes"]
    Tag.save_html / TagList.save_html(file, libdir=, include_version=)            [ROUTES "save_html"]
    HTMLDocument(*children, **html_attrs).render(lib_prefix=, include_version=)   [ROUTES "document"]
    HTMLDocument.save_html(file, libdir=, include_version=)                       [ROUTES "document file"]
    HTMLDocument around the user's own <html>/<head>/<body>, HTMLDocument.append  [ROUTES "own html", "document append"]
    head_content(tree) hoisted into the <head> of a document                      [ROUTES "head_content"]
    HTMLTextDocument(template, deps=, deps_replace_pattern=<regex metacharacters>).render(lib_prefix=,
      include_version=) around markup produced in json dependency mode            [ROUTES "json text document"]
    the with-block route (Tag.__enter__/__exit__, sys.displayhook, wrap_displayhook_handler)  [ROUTES "with block"]
  building the tree that is rendered
    Tag(name, *children and attribute dicts, _add_ws=, **attributes); the tag functions of htmltools.tags,
      htmltools.svg and the top-level re-exports (htmltools.div ...)              [public_api; ROUTES "tag functions"]
    children given as nested lists / tuples / TagLists / None                      [ROUTES "nested containers"]
    Tag.append / extend / insert, TagList.append / extend / insert, attrs[...] = , attrs.update
      (two objects of each class built interleaved)                               [histories; ROUTES "incremental"]
    TagList.__add__ / __radd__ / __iadd__ (with lists, tuples, strings)           [ROUTES "list arithmetic"]
    copy.copy / copy.deepcopy / tagify() of a tree, the original afterwards        [ROUTES "copies"]
    consolidate_attrs(*args, **kwargs) and back into a tag; another tag's .attrs passed as an attribute
      dict; add_class / add_style(prepend=)                                        [ROUTES "tag functions"; public_api]
    one object placed in two parents; a tag used as a context manager and then copied / rendered
                                                                                   [ROUTES "two parents", "with block"]
    tagifiable objects (also ones that are self-rendering too) whose expansion is ordinary; HTMLDependency /
      head_content() metadata nodes among the children                            [ROUTES trees with 'C' / dependency nodes]
  not exercised here: Tag.show / TagList.show (opens a browser or needs IPython; it is save_html / str underneath),
    HTMLDependency.serialize_to_script_json(indent=) (the dependency's own markup: C13), __eq__ (C17).
"""
from __future__ import annotations

import copy as _copy
import os
import random as _random
import shutil
import sys
import tempfile
from html.parser import HTMLParser

from ..common import Ctx, S, unS, differential, run_model
from .. import trees
from ..trees import build, to_sx, safe_call, res_decode

import htmltools
from htmltools import HTML, Tag, TagList

WS = " \t\n\f\r"
EOLS = ["\n", "\r\n", "", " ", "\t\n", "\n\n", "\f"]
VOID = ["area", "base", "br", "col", "command", "embed", "hr", "img", "input", "keygen",
        "link", "meta", "param", "source", "track", "wbr"]


# ---- independent parser: html.parser -> forest ------------------------------------------
class P(HTMLParser):
    def __init__(self, doctype=False):
        super().__init__(convert_charrefs=True)
        self.doctype = doctype        # accept one <!DOCTYPE html> before anything else
        self.root = []
        self.stack = [self.root]
        self.names = []
        self.err = None
        self.events = []

    def handle_starttag(self, tag, attrs):
        kids = []
        self.stack[-1].append(["E", tag, [[k, "" if v is None else v] for k, v in attrs], kids])
        self.stack.append(kids)
        self.names.append(tag)
        self.events.append(("S", tag, False))

    def handle_startendtag(self, tag, attrs):
        self.stack[-1].append(["E", tag, [[k, "" if v is None else v] for k, v in attrs], []])
        self.events.append(("S", tag, True))

    def handle_endtag(self, tag):
        self.events.append(("E", tag))
        if not self.names or self.names[-1] != tag:
            self.err = f"end tag </{tag}> does not match open element {self.names[-1:]}"
            return
        self.names.pop()
        self.stack.pop()

    def handle_data(self, data):
        self.stack[-1].append(["T", data])

    def handle_comment(self, data):
        self.err = "comment"

    def handle_decl(self, decl):
        if self.doctype and not self.events and not self.root and decl.strip().lower() == "doctype html":
            self.doctype = False
            return
        self.err = "declaration"

    def handle_pi(self, data):
        self.err = "processing instruction"

    def unknown_decl(self, data):
        self.err = "unknown declaration"


def py_parse(s: str, doctype=False):
    p = P(doctype)
    p.feed(s)
    p.close()
    if p.err:
        return ("err", p.err)
    if p.names:
        return ("err", f"unclosed {p.names}")
    return ("ok", canon(p.root), p.events)


def expected_events(d, acc):
    """start/end tag events the statement demands: one self-closed tag for a childless void
    element, own start and end tag otherwise"""
    if d[0] in "LC":
        for k in (d[1] if d[0] == "L" else d[2]):
            expected_events(k, acc)
        return acc
    if d[0] != "G":
        return acc
    name = lower_ascii(d[1])
    if not real_kids(d[4]) and d[1] in VOID:
        acc.append(("S", name, True))
        return acc
    acc.append(("S", name, False))
    for k in d[4]:
        expected_events(k, acc)
    acc.append(("E", name))
    return acc


def real_kids(kids):
    """the children an element has once tagifiable objects are expanded, metadata nodes apart"""
    out = []
    for k in kids:
        if k[0] == "C":
            out.extend(real_kids(k[2]))
        elif k[0] != "M":
            out.append(k)
    return out


def canon(forest):
    out = []
    pend = None
    def flush():
        nonlocal pend
        if pend is not None:
            t = pend.strip(WS)
            if t:
                out.append(["T", t])
        pend = None
    for e in forest:
        if e[0] == "T":
            pend = e[1] if pend is None else pend + e[1]
        else:
            flush()
            out.append(["E", e[1], e[2], canon(e[3])])
    flush()
    return out


def lower_ascii(s):
    return "".join(chr(ord(c) + 32) if "A" <= c <= "Z" else c for c in s)


def expected(d):
    """element forest of an ordinary tree description, straight from the statement"""
    k = d[0]
    if k == "T":
        return [["T", d[1]]]
    if k == "G":
        kids = []
        for x in d[4]:
            kids.extend(expected(x))
        return [["E", lower_ascii(d[1]), [[lower_ascii(a), v] for a, (_, v) in d[3]], kids]]
    if k in "LC":          # a top-level list / a tagifiable object: the forests of the members / of the expansion
        out = []
        for x in (d[1] if k == "L" else d[2]):
            out.extend(expected(x))
        return out
    return []


def forest_of_sx(m):
    out = []
    for e in m:
        if e[0] == 0:
            out.append(["T", unS(e[1])])
        else:
            out.append(["E", unS(e[1]), [[unS(k), unS(v)] for k, v in e[2]], forest_of_sx(e[3])])
    return out


# ---- generator of ordinary trees ----------------------------------------------------------
CUSTOM_NAMES = ["my-el", "x", "H1", "BR", "Img", "svg:g", "textPath", "a1", "DIV", "foreignObject", "b.c", "q_r"]
ATTR_NAMES = ["id", "class", "href", "data-x", "title", "onclick", "viewBox", "a:b", "xml:lang", "aria-label",
              "x-y", "CamelCase", "data-1"]


def ord_tree(rng, depth, catalogue):
    r = rng.random()
    if r < 0.45:
        name = rng.choice(catalogue)
    elif r < 0.65:
        name = rng.choice(VOID)
    elif r < 0.85:
        name = rng.choice(["div", "span", "p", "b", "ul", "li"])
    else:
        name = rng.choice(CUSTOM_NAMES)
    if lower_ascii(name) in ("script", "style"):
        name = "div"
    ws = rng.random() < 0.5
    keys, seen = [], set()
    for k in rng.sample(ATTR_NAMES, rng.choice([0, 0, 1, 2, 3, 5])):
        if lower_ascii(k) not in seen:
            seen.add(lower_ascii(k))
            keys.append(k)
    attrs = [(k, ("S", trees.rand_text(rng, 7) if rng.random() < 0.94 else uni_text(rng, rng.randrange(1, 7)))) for k in keys]
    kids = []
    if depth > 0:
        for _ in range(rng.choice([0, 0, 1, 1, 2, 3, 4])):
            q = rng.random()
            if q < 0.5:
                kids.append(ord_tree(rng, depth - 1, catalogue))
            elif q < 0.9:
                kids.append(("T", rng.choice([trees.rand_text(rng, 8), str(rng.randrange(-5, 100)), str(rng.random())])
                             if rng.random() < 0.94 else uni_text(rng, rng.randrange(1, 9))))
            else:
                kids.append(("M", None))
    return ("G", name, ws, attrs, kids)


def run(ctx: Ctx) -> None:
    rng = ctx.rng
    ctx.rule = ("ordinary trees: tag names from the full tags/svg catalogue (all 16 void names over-sampled) and valid "
                "custom names incl. upper case and namespaces, both whitespace flags, 0..5 attributes with distinct "
                "names and metacharacter-heavy values, text over all of Unicode + numbers, metadata nodes, depth <= 5, "
                "indent 0..5, 7 whitespace eol strings. Oracles: html.parser rebuilds the forest from the "
                "implementation's output; the Coq spec tokenizer+builder does the same; both must equal the tree's "
                "canonical forest. Non-trivial = tree has >= 3 elements and a text leaf with a metacharacter; "
                "distinct = canonical (tree, indent, eol). SIZES: wide (7..300 children of one kind / mixed, text on both "
                "sides of every power of two), 7..300 attributes, chains of depth 7..70, full trees, strings of 300..70001 "
                "characters (text, attribute values, names) with the telling content in the tail and at block seams, files "
                "> 256 KiB, indents up to 300, long eol strings. ROUTES: every public entry point and argument that reaches "
                "the markup (list at the top of harness/props/C01.py), each on a tree holding every boundary code point, on "
                "the big cases in turn, and on random ordinary trees with dependency nodes, tagifiable objects and "
                "top-level lists; documents and files are parsed as documents (the <body> content must be the tree).")
    ctx.assumptions = ["html.parser is a faithful HTML tokenizer on the renderer's output language",
                       "the spec tokenizer covers only the tokenizer states the renderer can reach (fails otherwise)"]
    ctx.proof()

    catalogue = [n for n in trees.all_catalogue_names()]
    cases = []
    # every catalogue name once, childless and with a child, both flags
    for n in catalogue + VOID:
        if n in ("script", "style"):
            continue
        for ws in (True, False):
            cases.append((("G", n, ws, [("id", ("S", "a\"<&'"))], []), 0, "\n"))
            cases.append((("G", n, ws, [], [("T", "x<"), ("G", "br", False, [], [])]), 1, "\n"))
    for _ in range(ctx.budget(2500, 40000)):
        d = ord_tree(rng, rng.choice([1, 2, 3, 3, 4, 5]), catalogue)
        cases.append((d, rng.randrange(0, 6), rng.choice(EOLS)))
    # sizes and depths: the big cases the extracted model can take (all of them go through ROUTES below)
    bigs = big_cases(ctx, catalogue)
    fit = []
    for d, what in bigs:
        i, eol = rng.choice([0, 1, 2, 5]), rng.choice(EOLS)
        if model_cost_ok(d, i, eol):
            fit.append((d, i, eol))
    cases.extend(rng.sample(fit, min(len(fit), ctx.budget(40, 400))))
    # large indent / long eol arguments on small trees
    for _ in range(ctx.budget(12, 120)):
        d, i, eol = ord_tree(rng, rng.choice([0, 1, 2]), catalogue), rng.choice(BIG_INDENTS), rng.choice(EOLS + BIG_EOLS)
        if model_cost_ok(d, i, eol):
            cases.append((d, i, eol))

    cases = ctx.select("Tag.get_html_string (ordinary trees)", cases)
    # spec side: ordinary? + canonical forest of the tree
    spec = run_model([[12, to_sx(d), S(eol)] for d, i, eol in cases])
    ok_all = True
    want = {}
    for c, m in zip(cases, spec):
        if not m[0]:
            ok_all = False
            ctx.extra.setdefault("not_ordinary", []).append(c)
        want[id(c)] = forest_of_sx(m[1])
        if want[id(c)] != canon(expected(c[0])):
            ok_all = False
            ctx.extra.setdefault("spec_forest_mismatch", []).append(c)
    ctx.obligation("spec `ordinary` accepts every generated tree and spec canonical forest == Python transcription", ok_all)

    outs = {}

    def impl(c):
        r = safe_call(lambda: build(c[0], share=True).get_html_string(c[1], c[2]))
        outs[id(c)] = r
        return r

    def n_elems(d):
        return 1 + sum(n_elems(k) for k in d[4] if k[0] == "G") if d[0] == "G" else 0

    def has_meta_text(d):
        if d[0] == "T":
            return any(ch in d[1] for ch in "&<>\"'")
        return d[0] == "G" and any(has_meta_text(k) for k in d[4])

    def oracle(c, out):
        if out[0] != "ok":
            return f"rendering an ordinary tree raised {out}"
        p = py_parse(out[1])
        if p[0] != "ok":
            return f"output does not parse as balanced HTML: {p[1]}"
        if p[1] != want[id(c)]:
            return "html.parser rebuilds a different element tree from the output"
        if p[2] != expected_events(c[0], []):
            return "tag events differ: self-closed form must be used exactly for childless void elements"
        # every other way of obtaining the markup parses back to the same tree
        x = build(c[0], share=True)
        for name, f in trees.render_routes(x):
            r = safe_call(f)
            if r[0] != "ok":
                return f"{name} raised {r} on an ordinary tree"
            q = py_parse(r[1])
            if q[0] != "ok" or q[1] != want[id(c)]:
                return f"the output of {name} does not parse back to the tree"
        return None

    differential(ctx, "Tag.get_html_string (ordinary trees)", cases,
                 to_sx=lambda c: [2, to_sx(c[0]), c[1], S(c[2])],
                 impl=impl, decode=lambda m: res_decode(m, unS), oracle=oracle,
                 nontrivial=lambda c: n_elems(c[0]) >= 3 and has_meta_text(c[0]), kind=lambda c: "tree")

    # the spec tokenizer+builder on the implementation's output (validates the spec against
    # html.parser and decides the property a second time)
    strs = [outs[id(c)][1] for c in cases if outs[id(c)][0] == "ok"]
    sp = run_model([[11, S(s)] for s in strs])
    agree = True
    k = 0
    for c in cases:
        if outs[id(c)][0] != "ok":
            continue
        m = sp[k]
        k += 1
        got = forest_of_sx(m[1][0]) if m[1] else None
        if got != want[id(c)]:
            ctx.violation("the specification tokenizer/tree builder rebuilds a different element tree from the output",
                          c, {"impl_output": outs[id(c)][1], "spec_parse": got, "expected": want[id(c)]})
        pp = py_parse(outs[id(c)][1])
        if pp[0] == "ok" and got != pp[1]:
            agree = False
            ctx.extra.setdefault("tokenizer_vs_htmlparser", []).append(outs[id(c)][1][:200])
    ctx.obligation("spec tokenizer+builder agrees with html.parser on every rendered string", agree)
    histories(ctx, catalogue)
    public_api(ctx, catalogue)
    routes(ctx, catalogue, bigs)



def live_expected(t):
    """element forest straight from the LIVE objects (attribute dict and child list as they are now)"""
    if isinstance(t, Tag):
        kids = []
        for c in t.children:
            kids.extend(live_expected(c))
        import html as _html
        # a trusted-markup (HTML) value is emitted verbatim: the parser decodes its character references
        return [["E", lower_ascii(t.name),
                 [[lower_ascii(k), _html.unescape(str(v)) if isinstance(v, HTML) else str(v)] for k, v in t.attrs.items()],
                 kids]]
    if isinstance(t, str):
        return [["T", t]]
    return []


def histories(ctx: Ctx, catalogue) -> None:
    """render, then change attributes / children through the public API (item assignment and
    deletion, pop, popitem, clear, update, add_class, remove_class, append, insert, child
    removal), then render again: the second rendering must parse back to the tree AS IT IS NOW
    (nothing remembered from the first rendering)."""
    rng = ctx.rng
    for _ in range(ctx.budget(600, 8000)):
        d = ord_tree(rng, rng.choice([1, 2, 3]), catalogue)
        t = build(d)
        for key in ("class",):   # make remove_class meaningful on some tags
            if rng.random() < 0.5:
                t.attrs["class"] = rng.choice(["a", "a b", "b"])
        first = rng.choice(["html", "str", "render", "none"])
        if first == "html":
            safe_call(lambda: t.get_html_string(rng.randrange(0, 3)))
        elif first == "str":
            safe_call(lambda: str(t))
        elif first == "render":
            safe_call(lambda: t.render())
        tags_ = []
        def walk(x):
            if isinstance(x, Tag):
                tags_.append(x)
                for c in x.children:
                    walk(c)
        walk(t)
        log = []
        # mostly short histories; now and then one of 7 .. 300 operations (just below / at / above the powers of two)
        for _ in range(rng.choice([1, 2, 3]) if rng.random() < 0.97 else rng.choice(SIZES)):
            u = rng.choice(tags_)
            keys = list(u.attrs)
            op = rng.choice(["del", "pop", "popitem", "clear", "set", "update", "add_class", "remove_class",
                             "append", "insert", "delchild"])
            log.append(op)
            try:
                if op == "del" and keys:
                    del u.attrs[rng.choice(keys)]
                elif op == "pop" and keys:
                    u.attrs.pop(rng.choice(keys))
                elif op == "popitem" and keys:
                    u.attrs.popitem()
                elif op == "clear":
                    u.attrs.clear()
                elif op == "set":
                    u.attrs[rng.choice(["id", "title", "data-z"])] = trees.rand_text(rng, 5)
                elif op == "update":
                    u.attrs.update({"data-u": trees.rand_text(rng, 4)})
                elif op == "add_class":
                    u.add_class(rng.choice(["a", "b", "c"]))
                elif op == "remove_class":
                    u.remove_class(rng.choice(["a", "b"]))
                elif op == "append":
                    u.append(trees.rand_text(rng, 4))
                elif op == "insert":
                    u.insert(0, Tag("b", "i"))
                elif op == "delchild" and len(u.children):
                    del u.children[rng.randrange(0, len(u.children))]
            except (KeyError, TypeError):
                pass
        ctx.count(("history", d, first, log), True, "render, mutate, render again")
        want = canon(live_expected(t))
        out = safe_call(lambda: t.get_html_string(rng.randrange(0, 3)))
        if out[0] != "ok":
            ctx.violation(f"rendering after {log} raised {out}", [d, first, log], {})
            continue
        p = py_parse(out[1])
        if p[0] != "ok" or p[1] != want:
            ctx.violation("after rendering once and then changing attributes/children through the public API, the next "
                          "rendering does not parse back to the tree as it is now", [d, first, log],
                          {"impl_output": out[1], "expected_forest": want})
        s2 = safe_call(lambda: str(t))
        if s2[0] == "ok":
            p2 = py_parse(s2[1])
            if p2[0] != "ok" or p2[1] != want:
                ctx.violation("str(tag) after a mutation does not parse back to the tree as it is now", [d, first, log],
                              {"impl_output": s2[1], "expected_forest": want})


RAW_KEYS = ["data_x", "a__b", "class_", "for_", "http_equiv", "x__", "_y", "data_row__id", "aria_label", "xml:lang",
            "CamelCase", "x-y", "a_b_c", "id", "title", "b__", "__c", "d___e"]


def public_api(ctx: Ctx, catalogue) -> None:
    """Trees built the way users build them -- tag functions and Tag() with keyword attributes and
    positional attribute dicts whose names still carry underscores, numbers / True as values,
    numbers as children -- then rendered every way there is: each output must parse back to the
    tree AS STORED (names and values as the attribute dict holds them after construction)."""
    from htmltools import tags as T
    rng = ctx.rng

    def mk(depth):
        name = rng.choice(["div", "span", "p", "a", "li", "td", "img", "input", "br", "section"] + catalogue[:0])
        if rng.random() < 0.3:
            name = rng.choice(catalogue)
        if name in ("script", "style"):
            name = "div"
        kw, pos = {}, []
        for k in rng.sample(RAW_KEYS, rng.choice([0, 1, 2, 3])):
            v = rng.choice([trees.rand_text(rng, 6), 0, 1.5, True, "v", None, False, HTML("&amp;<i>")])
            if rng.random() < 0.6:
                kw[k] = v
            else:
                pos.append({k: v})
        kids = []
        if depth > 0:
            for _ in range(rng.choice([0, 1, 2, 3])):
                q = rng.random()
                if q < 0.5:
                    kids.append(mk(depth - 1))
                else:
                    kids.append(rng.choice([trees.rand_text(rng, 6), 0, 0.0, 7, 2.5]))
        f = getattr(T, name, None)
        args = pos[:1] + kids + pos[1:]
        desc = [name, [(k, repr(v)) for d_ in pos for k, v in d_.items()], sorted((k, repr(v)) for k, v in kw.items()),
                [a[0] if isinstance(a, tuple) else repr(a) for a in kids]]
        args = [a[1] if isinstance(a, tuple) else a for a in args]
        if f is not None and rng.random() < 0.7:
            return (desc, f(*args, **kw))
        return (desc, Tag(name, *args, **kw))

    for _ in range(ctx.budget(800, 10000)):
        r = safe_call(lambda: mk(rng.choice([0, 1, 2])))
        if r[0] != "ok":
            ctx.violation("constructing an ordinary tag through the public API raised", repr(r), {})
            continue
        desc, t = r[1]
        ctx.count(("public", repr(desc)), True, "tag built with keyword / dict attributes")
        # class / style helpers (plain and HTML() values, both ends), then the attributes through
        # consolidate_attrs() and back into a new tag of the same name with the same children
        helpers = []
        for _ in range(rng.choice([0, 0, 1, 2, 3]) if rng.random() < 0.98 else rng.choice(SIZES)):
            h = rng.choice(["add_class", "add_style", "add_style_html", "remove_class"])
            pre = rng.random() < 0.5
            # (trusted markup put into an attribute must itself be valid attribute-value markup: no raw double quote)
            v = (rng.choice(["a", "b"]) if h == "remove_class" else rng.choice(["a", "b c", "x<y", "q&quot;r", "&amp;", "it's"])
                 if h == "add_style_html" else rng.choice(["a", "b c", "x<y", "q\"r", "&amp;", "it's"]))
            helpers.append((h, v, pre))
            rr = safe_call(lambda: t.add_class(v, prepend=pre) if h == "add_class" else t.remove_class(v) if h == "remove_class"
                           else t.add_style(v + ";", prepend=pre) if h == "add_style" else t.add_style(HTML(v + ";"), prepend=pre))
            if rr[0] != "ok" or rr[1] is not t:
                ctx.violation("a class / style helper raised or did not return the tag", [desc, helpers], {"result": repr(rr)})
        desc = desc + [helpers]
        want = canon(live_expected(t))
        for name, f in trees.render_routes(t):
            out = safe_call(f)
            p = py_parse(out[1]) if out[0] == "ok" else ("err", out)
            if p[0] != "ok" or p[1] != want:
                ctx.violation("a tag built through the public API (keyword / dict attributes with underscores, number "
                              "values and children) does not parse back to the tree it stores", desc,
                              {"route": name, "impl_output": out, "expected_forest": want})
                break
        back = safe_call(lambda: (lambda a, k: Tag(t.name, a, *k, _add_ws=t.add_ws))(*htmltools.consolidate_attrs(t.attrs, *t.children)))
        out = safe_call(lambda: back[1].get_html_string()) if back[0] == "ok" else back
        p = py_parse(out[1]) if out[0] == "ok" else ("err", out)
        if p[0] != "ok" or p[1] != want:
            ctx.violation("the attributes of a tag taken through consolidate_attrs() and put into a new tag with the same "
                          "children do not parse back to the same tree", desc, {"impl_output": out, "expected_forest": want})


# ==========================================================================================
# SIZES AND DEPTHS: generators that reach just below / at / above 8, 16, 32, 64, 128, 256 (and 300)
# for every countable thing of the statement, with the telling content BEYOND the threshold
# ==========================================================================================
SIZES = [7, 8, 9, 15, 16, 17, 31, 32, 33, 63, 64, 65, 66, 127, 128, 129, 130, 255, 256, 257, 300]
DEPTHS = [7, 8, 9, 15, 16, 17, 31, 32, 33, 63, 64, 65, 70]
STRLENS = [300, 4095, 4097, 5000, 8193, 65535, 65537, 70001]
BIG_INDENTS = [7, 8, 9, 16, 33, 64, 65, 300]
BIG_EOLS = ["\n" * 9, " " * 65, "\r\n\t" * 100, "\n" + " " * 300]
# code points at the edges of the Unicode blocks / encodings' length classes, C0 and C1 controls, characters
# str.isspace() accepts but HTML does not treat as whitespace, non-characters, the BOM
BOUNDARY_CPS = [0x01, 0x08, 0x0B, 0x0E, 0x1F, 0x7F, 0x80, 0x85, 0x91, 0x93, 0x99, 0x9F, 0xA0, 0xAD, 0xFF, 0x100,
                0x17F, 0x7FF, 0x800, 0x1680, 0x2003, 0x2028, 0x2029, 0x200B, 0x202E, 0x3000, 0xD7FF, 0xE000, 0xFDD0,
                0xFEFF, 0xFFFD, 0xFFFE, 0xFFFF, 0x10000, 0x1F600, 0xE0001, 0x10FFFF]
SNIPPETS = ["<", "&", ">", '"', "'", "&amp;", "&lt;", "</p>", "<!--", "\r\n", "\u0085", "\u0093", " ",
            "\U0001F600", "&#147;", "]]>", "<br/>", "\t", "&#x", " "]
UNITS = ["a", "ab c ", "é", "日本", "\U0001F600x", "x<y & ", "q\u0093", "'\"", "&amp;"]


def uni_text(rng, n=6):
    """text over the boundary code points (plus one markup metacharacter now and then)"""
    return "".join(chr(rng.choice(BOUNDARY_CPS)) if rng.random() < 0.85 else rng.choice("<&\"'>a ") for _ in range(n))


def long_text(rng, n):
    """>= n characters of filler with telling snippets in the tail, in the middle and on both sides of
    every block boundary (64, 256, 4 Ki, 8 Ki, 64 Ki, 128 Ki, 256 Ki) below n"""
    unit = rng.choice(UNITS)
    chars = list((unit * (n // len(unit) + 1))[:n])
    marks = {n - 1, n - 2, n // 2}
    for b in (64, 256, 4096, 8192, 65536, 131072, 262144):
        if b + 1 < n:
            marks.update((b - 1, b, b + 1))
    for p in sorted(marks):
        chars[p] = rng.choice(SNIPPETS)
    return "".join(chars)


def small_text(rng, i):
    """a short text leaf that is different for every index i (a lost, repeated or moved leaf shows)"""
    r = rng.random()
    if r < 0.15:
        return str(i)                              # numeric text
    return "t%d%s" % (i, rng.choice(["", "", "<", "&", " ", "\u0093", '"', "\n", " ", ";"]))


def small_elem(rng, i):
    r = rng.random()
    if r < 0.3:
        return ("G", rng.choice(VOID), rng.random() < 0.5, [("id", ("S", "v%d" % i))], [])
    name, ws = rng.choice([("span", False), ("b", False), ("a", False), ("li", True), ("div", True), ("td", True),
                           ("p", True), ("my-el", False)])
    if rng.random() < 0.15:
        ws = not ws
    return ("G", name, ws, [("id", ("S", "e%d" % i))] if rng.random() < 0.6 else [],
            [("T", "x%d" % i)] if rng.random() < 0.7 else [])


def wide_kids(rng, n, mix):
    """n children.  mix: 'T' text / numeric leaves only (ONE run of text: every seam between two
    leaves is inside it), 'G' elements only, 'M' text leaves separated by runs of metadata nodes,
    'X' everything, with text on both sides of every power of two often"""
    kids = []
    for i in range(n):
        if mix == "T":
            kids.append(("T", small_text(rng, i)))
        elif mix == "G":
            kids.append(small_elem(rng, i))
        elif mix == "M":
            kids.append(("T", small_text(rng, i)) if i in (0, n - 1) or rng.random() < 0.1 else ("M", None))
        else:
            r = rng.random()
            kids.append(("T", small_text(rng, i)) if r < 0.45 else small_elem(rng, i) if r < 0.9 else ("M", None))
    if mix == "X" and rng.random() < 0.6:
        for b in (8, 16, 32, 64, 128, 256):
            if b < n:
                kids[b - 1] = ("T", small_text(rng, b - 1))
                kids[b] = ("T", small_text(rng, b))
    return kids


def many_attrs(rng, n):
    """n attributes with distinct names (also after lower-casing); the richest values come last"""
    out = []
    for i in range(n):
        nm = rng.choice(["data-a%d", "aria-x%d", "x%d", "A%d", "ns:a%d", "v%dB"]) % i
        tail = i >= n - 3
        v = (rng.choice(SNIPPETS) + "v%d" % i + rng.choice(SNIPPETS)) if tail or rng.random() < 0.2 else "v%d" % i
        out.append((nm, ("S", v)))
    return out


def deep_chain(rng, n, bottom):
    """the tree `bottom` under n nested elements (both whitespace flags, siblings before / after at
    some levels, attributes at some levels)"""
    t = bottom
    for i in range(n):
        name, ws = rng.choice([("div", True), ("span", False), ("ul", True), ("li", True), ("b", False), ("section", True),
                               ("a", False), ("x", rng.random() < 0.5)])
        kids = [t]
        r = rng.random()
        if r < 0.2:
            kids = [("T", "p%d<" % i), t]
        elif r < 0.4:
            kids = [t, ("T", "&s%d" % i)]
        elif r < 0.5:
            kids = [("G", "br", False, [], []), t, ("M", None)]
        t = ("G", name, ws, [("id", ("S", "d%d\"" % i))] if rng.random() < 0.2 else [], kids)
    return t


def bushy(rng, depth, fan, path="r"):
    """a full tree: `fan` children at each of `depth` levels, every node marked with its path"""
    name, ws = rng.choice([("div", True), ("span", False), ("p", True), ("b", False)])
    if depth == 0:
        return ("G", name, ws, [], [("T", path + rng.choice(["", "<", "&"]))])
    return ("G", name, ws, [("id", ("S", path))], [bushy(rng, depth - 1, fan, path + str(i)) for i in range(fan)])


def big_cases(ctx, catalogue):
    """(description, what is big) -- the same families in both tiers; the thorough tier draws each
    several times"""
    rng = ctx.rng
    out = []
    for _ in range(ctx.budget(1, 4)):
        for n in SIZES:
            for mix in "TGMX":
                kids = wide_kids(rng, n, mix)
                where = rng.choice(["block", "inline", "list", "nested", "void"])
                if where == "block":
                    d = ("G", rng.choice(["div", "p", "ul", "table", "section"]), True, [], kids)
                elif where == "inline":
                    d = ("G", rng.choice(["span", "a", "b", "textPath"]), rng.random() < 0.15, [], kids)
                elif where == "list":
                    d = ("L", kids)
                elif where == "void":
                    d = ("G", rng.choice(VOID), rng.random() < 0.5, [], kids)
                else:
                    d = ("G", "div", True, [], [("T", "before<"), ("G", rng.choice(["ul", "span"]), rng.random() < 0.5, [], kids),
                                                ("T", "&after")])
                out.append((d, "%d children (%s) in %s" % (n, mix, where)))
            d = ("G", rng.choice(["div", "img", "a", "my-el"]), rng.random() < 0.5, many_attrs(rng, n),
                 [("T", "x<")] if rng.random() < 0.5 else [])
            out.append((d, "%d attributes" % n))
        for n in DEPTHS:
            bottom = rng.choice([("T", "bottom<&"), ("G", "br", False, [("id", ("S", "b\"'"))], []),
                                 ("G", "p", True, [], wide_kids(rng, 9, "X")), ord_tree(rng, 2, catalogue)])
            out.append((deep_chain(rng, n, bottom), "depth %d" % n))
            out.append((("L", [("T", "a<"), deep_chain(rng, n, bottom), ("T", "z&")]), "depth %d in a list" % n))
        for n in STRLENS:
            s = long_text(rng, n)
            out.append((("G", "div", rng.random() < 0.5, [], [("G", "br", False, [], []), ("T", s)]), "text of %d characters" % n))
            out.append((("G", "a", rng.random() < 0.5, [("id", ("S", "i")), ("title", ("S", long_text(rng, n)))],
                         [("T", "x")]), "attribute value of %d characters" % n))
            out.append((("G", "p", True, [], [("T", s)]), "only child: text of %d characters" % n))
        n = rng.choice([300, 4097])
        out.append((("G", "x-" + "a" * n, rng.random() < 0.5, [("data-" + "b" * n, ("S", "v<"))], [("T", "&")]),
                    "tag and attribute names of %d characters" % n))
        out.append((bushy(rng, 8, 2), "full binary tree of depth 8"))
        out.append((bushy(rng, 3, 7), "full tree, 7 children at 3 levels"))
        out.append((("G", "div", True, [], [("T", uni_text(rng, 1)) for _ in range(300)]), "300 one-character leaves"))
    return out


def model_cost_ok(d, indent, eol):
    """the extracted specification is cubic in the length of a run of text leaves and quadratic in the
    length of the rendered string: only cases within its reach go to the model (all of them go to the
    html.parser oracle)"""
    if d[0] != "G":
        return False
    worst = [0]

    def walk(x, depth):
        pad = 2 * (indent + depth) + len(eol)
        if x[0] == "T":
            return 2 * len(x[1]) + pad
        if x[0] != "G":
            return 0
        run = 0
        tot = 2 * (len(x[1]) + pad) + 5 + sum(len(a) + 2 * len(v[1]) + 4 for a, v in x[3])
        for k in x[4]:
            run = run + 1 if k[0] in "TM" else 0
            worst[0] = max(worst[0], run)
            tot += walk(k, depth + 1)
        return tot
    return walk(d, 0) <= 5000 and worst[0] <= 70


# ==========================================================================================
# ROUTES: every entry point that reaches the markup of an ordinary tree, with non-default arguments
# ==========================================================================================
STEP = "entry points and arguments"
DEP_PAYLOADS = [{"name": "a", "version": "1.0", "head": "<meta name='x'/>"},
                {"name": "b-c", "version": "2.10.1", "head": "<link rel=\"x\" href=\"y&amp;z\"/>"},
                {"name": "a", "version": "1.2"}]
PATTERNS = ["<!-- HEAD (.*)+ [deps] \\1 ^$ -->", "<!--[if deps]?{2}|*-->", "<!-- $& \\g<0> (?P<x>) -->", "<!--.-->"]
FILE_NAMES = ["index.html", "a b.htm", "é.html", "x"]
HTML_KW = [{}, {"lang": "en"}, {"lang": "en", "class_": "a b", "style": "x:y;"}, {"data_theme": "d\"<&'k", "lang": "fr-CA"}]


def kw_expected(kw):
    """attributes of the root element for keyword arguments: the documented spelling rule (a trailing
    underscore is dropped, the other underscores become hyphens); insertion order"""
    return [[(k[:-1] if k.endswith("_") else k).replace("_", "-"), v] for k, v in kw.items()]


class Broken(Exception):
    """a clause of the oracle that is decided inside a builder"""


def depth_of(d):
    kids = d[4] if d[0] == "G" else d[1] if d[0] == "L" else d[2] if d[0] == "C" else []
    return 1 + max([depth_of(k) for k in kids], default=0)


def has_kind(d, kind):
    if d[0] == kind:
        return True
    kids = d[4] if d[0] == "G" else d[1] if d[0] == "L" else d[2] if d[0] == "C" else []
    return any(has_kind(k, kind) for k in kids)


def top_items(d):
    return list(d[1]) if d[0] == "L" else [d]


def mk(d):
    """live object of a description (top-level lists and dependency nodes included)"""
    if d[0] == "L":
        return TagList(*[mk(k) for k in d[1]])
    if d[0] == "M" and d[1] is not None:
        return htmltools.HTMLDependency(**d[1])
    if d[0] == "G":
        t = Tag(d[1], *[trees.mk_child_text(k[1]) if k[0] == "T" else mk(k) for k in d[4]], _add_ws=d[2])
        for key, (m, v) in d[3]:
            dict.__setitem__(t.attrs, key, trees.mk_text(v))
        return t
    if d[0] == "C":
        _, sh, exp, as_list = d
        exp_b = [trees.mk_text(k[1]) if k[0] == "T" else mk(k) for k in exp]     # tagify() may return a str, not a number
        return trees.CustomObj(exp_b, as_list) if sh is None else trees.CustomReprObj(exp_b, as_list, sh)
    return build(d)


def doc_safe(d):
    """HTMLDocument treats a single top-level <html> / <body> element as the document's own: for the
    routes that wrap the tree into a document the root gets another name"""
    if d[0] == "G" and d[1] in ("html", "body"):
        return ("G", "div") + tuple(d[2:])
    return d


def find(forest, name):
    return [e for e in forest if e[0] == "E" and e[1] == name]


LAST = {}


def judge_fragment(label, markup, d, events=True):
    LAST["output"] = markup
    if not isinstance(markup, str):
        return f"{label}: the result is {type(markup).__name__}, not str"
    p = py_parse(markup)
    if p[0] != "ok":
        return f"{label}: output does not parse as balanced HTML: {p[1]}"
    if p[1] != canon(expected(d)):
        return f"{label}: the output does not parse back to the tree"
    if events and p[2] != expected_events(d, []):
        return f"{label}: tag events differ: self-closed form must be used exactly for childless void elements"
    return None


def judge_document(label, markup, d, html_attrs=None, body_attrs=(), in_head=None, doctype=True):
    """a complete document: one <html> element holding <head> then <body>; the <body>'s content parses
    back to the tree (in_head: the <head>'s content after <meta charset> and the dependency list does)"""
    LAST["output"] = markup
    if not isinstance(markup, str):
        return f"{label}: the result is {type(markup).__name__}, not str"
    p = py_parse(markup, doctype=doctype)
    if p[0] != "ok":
        return f"{label}: document does not parse as balanced HTML: {p[1]}"
    roots = [e for e in p[1] if e[0] == "E"]
    if len(roots) != 1 or roots[0][1] != "html" or len(p[1]) != 1:
        return f"{label}: the document is not exactly one <html> element"
    html = roots[0]
    if html_attrs is not None and html[2] != html_attrs:
        return f"{label}: the <html> element's attributes do not decode to the given ones"
    if [e[1] for e in html[3] if e[0] == "E"] != ["head", "body"] or len(html[3]) != 2:
        return f"{label}: <html> does not hold exactly <head> and <body>"
    head, body = html[3]
    if body[2] != [list(a) for a in body_attrs]:
        return f"{label}: the <body> element's attributes differ"
    if body[3] != canon(expected(d)):
        return f"{label}: the <body> content does not parse back to the tree"
    if in_head is not None:
        rest = [e for e in head[3][1:] if not (e[0] == "E" and e[1] == "script" and ["type", "application/html-dependencies"] in e[2])]
        if rest != canon(expected(in_head)):
            return f"{label}: the head_content() part of <head> does not parse back to the tree"
    return None


def read_file(path):
    """the file's bytes, decoded the way the document itself declares (<meta charset="utf-8">)"""
    with open(path, "rb") as f:
        return f.read().decode("utf-8")


class Collect:
    def __init__(self):
        self.got = []

    def __call__(self, v):
        self.got.append(v)


def snap(o):
    """identity structure of the caller's containers (to see that a call left them alone)"""
    if isinstance(o, (list, tuple)):
        return (type(o), len(o), [(id(x), snap(x)) for x in o])
    if isinstance(o, TagList):
        return (type(o), len(o.data), [(id(x), snap(x)) for x in o.data])
    if isinstance(o, dict):
        return (type(o), list(o.keys()), [(id(v), str(v)) for v in o.values()])
    if isinstance(o, Tag):
        return ("Tag", o.name, o.add_ws, snap(dict(o.attrs)), snap(o.children))
    return None


def nest(objs, rs, depth):
    """arguments whose flattening is objs: slices wrapped into lists / tuples / TagLists (one of them
    `depth` containers deep), None sprinkled in"""
    args = list(objs)
    for _ in range(rs.choice([1, 2, 3])):
        if not args:
            break
        i = rs.randrange(0, len(args))
        j = rs.randrange(i, min(len(args), i + 70)) + 1
        sl = args[i:j]
        w = rs.choice(["list", "tuple", "taglist"])
        box = list(sl) if w == "list" else tuple(sl) if w == "tuple" else TagList(*sl)
        args[i:j] = [box]
    if args:
        i = rs.randrange(0, len(args))
        x = args[i]
        for k in range(depth):
            x = [x] if k % 3 == 0 else (x,) if k % 3 == 1 else [None, x, None]
        args[i] = x
    for _ in range(rs.choice([0, 1, 2])):
        args.insert(rs.randrange(0, len(args) + 1), None)
    return args


def fn_build(d, rs, attr_how=None):
    """the tree built the way users do: tag functions of htmltools.tags / htmltools.svg / the top-level
    re-exports (Tag() for other names); attributes as keyword arguments (also spelled with underscores),
    as a positional dict, as another tag's .attrs, or through consolidate_attrs()"""
    from htmltools import svg, tags
    if d[0] == "T":
        return leaf_obj(d[1], rs)
    if d[0] != "G":
        return mk(d)
    name, ws, attrs = d[1], d[2], [(k, trees.mk_text(v[1])) for k, v in d[3]]
    kids = [fn_build(k, rs, attr_how) for k in d[4]]
    fs = []
    for m in (tags, svg):
        g = vars(m).get(name)
        if callable(g) and getattr(g, "__module__", None) == m.__name__:
            fs.append(g)
            if name in htmltools.__all__ and callable(getattr(htmltools, name, None)) and m is tags:
                fs.append(getattr(htmltools, name))          # the top-level re-export
    f = rs.choice(fs) if fs and rs.random() < 0.85 else (lambda *a, **k: Tag(name, *a, **k))
    how = attr_how or rs.choice(["kw", "kw_", "dict", "dicts", "attrs", "consolidate", "setitem"])
    plain = all("_" not in k for k, _ in attrs)
    if how == "kw" or not plain:
        t = f(*kids, _add_ws=ws, **dict(attrs))
    elif how == "kw_":
        t = f(*kids, _add_ws=ws, **{("class_" if k == "class" else k.replace("-", "_") if rs.random() < 0.5 else k): v
                                    for k, v in attrs})
    elif how == "dict":
        dd = dict(attrs)
        t = f(dd, *kids, _add_ws=ws)
        if list(dd.items()) != attrs:
            raise Broken("the caller's attribute dict was changed")
    elif how == "dicts":
        cut = rs.randrange(0, len(attrs) + 1)
        t = f(dict(attrs[:cut]), *kids, dict(attrs[cut:]), _add_ws=ws)
    elif how == "attrs":
        other = Tag("other", "its child", dict(attrs))
        before = other.get_html_string()
        t = f(other.attrs, *kids, _add_ws=ws)
        t.attrs["data-probe"] = "p"
        del t.attrs["data-probe"]
        if other.get_html_string() != before or (t.attrs is other.attrs):
            raise Broken("the tag whose .attrs were passed is affected")
    elif how == "consolidate":
        cut = rs.randrange(0, len(attrs) + 1)
        a2, k2 = htmltools.consolidate_attrs(dict(attrs[:cut]), *kids, **dict(attrs[cut:]))
        if len(k2) != len(kids) or any(x is not y for x, y in zip(k2, kids)):
            raise Broken("consolidate_attrs() does not return the children as given")
        t = f(a2, *k2, _add_ws=ws)
    else:
        t = f(*kids, _add_ws=ws)
        for k, v in attrs:
            if rs.random() < 0.5:
                t.attrs[k] = v
            else:
                t.attrs.update({k: v})
    return t


def as_number(s):
    """the number whose str() is s, if there is one (else None): a numeric leaf can be given as the number"""
    for f in (int, float):
        try:
            v = f(s)
        except (ValueError, OverflowError):
            continue
        if str(v) == s:
            return v
    return None


def leaf_obj(s, rs):
    n = as_number(s)
    return n if n is not None and rs.random() < 0.6 else trees.mk_child_text(s)


def with_build(d, rs):
    """the tree built with with-blocks: every element is a context manager, its children are what
    sys.displayhook is given inside the block"""
    t = Tag(d[1], _add_ws=d[2])
    for key, (m, v) in d[3]:
        dict.__setitem__(t.attrs, key, trees.mk_text(v))
    with t:
        for k in d[4]:
            if k[0] == "G":
                with_build(k, rs)           # leaving its block hands it to the enclosing hook
            else:
                sys.displayhook(leaf_obj(k[1], rs) if k[0] == "T" else mk(k))
                if k[0] == "T":
                    sys.displayhook(None)   # nothing to show
    return t


def incremental(d, rs, noise):
    """the element built empty and filled through append / extend / insert and attribute assignment;
    `noise` is a second object of the same class that is filled in between (it must not matter)"""
    t = Tag(d[1], _add_ws=d[2])
    kids = [leaf_obj(k[1], rs) if k[0] == "T" else incremental(k, rs, noise) if k[0] == "G" else mk(k) for k in d[4]]
    attrs = [(k, trees.mk_text(v[1])) for k, v in d[3]]
    if attrs and all("_" not in k for k, _ in attrs) and rs.random() < 0.7:
        for k, v in attrs:
            noise.attrs["data-noise"] = "n<"
            if rs.random() < 0.5:
                t.attrs[k] = v
            else:
                t.attrs.update({k: v})
    else:
        for k, v in attrs:
            dict.__setitem__(t.attrs, k, v)
    i = 0
    target = t if rs.random() < 0.5 else t.children        # Tag methods or those of its TagList
    while i < len(kids):
        noise.append("noise&")
        op = rs.choice(["append", "appendN", "extend", "insert_end", "insert_mid"])
        if op == "append":
            target.append(kids[i])
            i += 1
        elif op == "appendN":
            n = rs.choice([2, 3, 70])
            target.append(*kids[i:i + n])
            i += n
        elif op == "extend":
            n = rs.choice([0, 1, 3, 70])
            target.extend(tuple(kids[i:i + n]) if rs.random() < 0.5 else list(kids[i:i + n]))
            i += n
        elif op == "insert_end":
            target.insert(len(t.children), kids[i])
            i += 1
        else:
            # the next two, the second first, the first then inserted before it
            if i + 1 < len(kids):
                pos = len(t.children)
                target.append(kids[i + 1])
                target.insert(pos, kids[i])
                i += 2
            else:
                target.insert(len(t.children) + 5, kids[i])
                i += 1
    return t


def run_route(route, d, seed, tmp):
    """-> None or a message.  Everything random is drawn from Random(seed) (a replay repeats it)."""
    rs = _random.Random(seed)
    tagifiable = has_kind(d, "C")
    indent = rs.choice([0, 1, 2, 3, 5] + BIG_INDENTS) if rs.random() < 0.8 else rs.randrange(0, 40)
    eol = rs.choice(EOLS + BIG_EOLS)
    lib_prefix = rs.choice([None, "lib", "a/b c/d", "", "x<y"])
    inc_ver = rs.random() < 0.5

    if route == "get_html_string":
        x = mk(d)
        if tagifiable:
            x = x.tagify()
        if d[0] == "L":
            add_ws = rs.random() < 0.5
            return judge_fragment(f"TagList.get_html_string({indent}, {eol!r}, add_ws={add_ws})",
                                  x.get_html_string(indent, eol, add_ws=add_ws), d)
        kw = rs.random() < 0.5
        return judge_fragment(f"Tag.get_html_string({indent}, {eol!r})",
                              x.get_html_string(indent=indent, eol=eol) if kw else x.get_html_string(indent, eol), d)

    if route == "all routes":
        x = mk(d)
        for name, f in trees.render_routes(x) + [("get_html_string() again", lambda: x.get_html_string())]:
            if tagifiable and name.startswith("get_html_string()"):
                continue          # a tree holding objects not yet expanded is not rendered directly
            out = f()
            msg = judge_fragment(name, out, d)
            if msg:
                return msg
        return None

    if route == "save_html":
        x = mk(doc_safe(d))
        path = os.path.join(tmp, rs.choice(FILE_NAMES))
        libdir = rs.choice([None, "lib", "a/b"])
        r = x.save_html(path, libdir=libdir, include_version=inc_ver)
        if r != path or not os.path.isfile(path):
            return "save_html() does not return the path of the file it wrote"
        return judge_document(f"{type(x).__name__}.save_html(libdir={libdir!r}, include_version={inc_ver}) file",
                              read_file(path), doc_safe(d))

    if route in ("document", "document file"):
        dd = doc_safe(d)
        kw = rs.choice(HTML_KW)
        items = [mk(k) for k in top_items(dd)]
        doc = htmltools.HTMLDocument(*items, **kw) if rs.random() < 0.6 else htmltools.HTMLDocument(TagList(*items), **kw)
        if len(top_items(dd)) == 1 and top_items(dd)[0][0] == "G" and top_items(dd)[0][1] in ("html", "body"):
            return None
        if route == "document":
            out = doc.render(lib_prefix=lib_prefix, include_version=inc_ver)["html"]
            msg = judge_document(f"HTMLDocument(**{kw}).render(lib_prefix={lib_prefix!r}, include_version={inc_ver})",
                                 out, dd, html_attrs=kw_expected(kw))
            if msg:
                return msg
            out2 = _copy.copy(doc).render()["html"]
            return judge_document("copy.copy(HTMLDocument).render()", out2, dd, html_attrs=kw_expected(kw))
        path = os.path.join(tmp, rs.choice(FILE_NAMES))
        libdir = rs.choice([None, "lib", "a/b"])
        doc.save_html(path, libdir, inc_ver) if rs.random() < 0.5 else doc.save_html(path, libdir=libdir, include_version=inc_ver)
        return judge_document(f"HTMLDocument(**{kw}).save_html(libdir={libdir!r}, include_version={inc_ver}) file",
                              read_file(path), dd, html_attrs=kw_expected(kw))

    if route == "own html":
        # a document that has its own <html> / <head> / <body> (or only its own <body>), dependencies inside
        x = mk(d)
        kw = rs.choice(HTML_KW)
        battrs = [("class", "b<\"")] if rs.random() < 0.5 else []
        body = Tag("body", x, **dict(battrs))
        if rs.random() < 0.5:
            top = body
            hattrs = kw_expected(kw)
        else:
            own = [("id", "own&")] if rs.random() < 0.5 else []
            top = Tag("html", Tag("head"), body, **dict(own))
            hattrs = [list(a) for a in own] + kw_expected(kw)
        doc = htmltools.HTMLDocument(top, **kw)
        out = doc.render(lib_prefix=lib_prefix, include_version=inc_ver)["html"]
        msg = judge_document("HTMLDocument(own <html>/<body>).render()", out, d, html_attrs=hattrs, body_attrs=battrs)
        if msg:
            return msg
        # the user's own elements are left as they were
        return judge_fragment("the user's <body> after the document was rendered", body.tagify().get_html_string(),
                              ("G", "body", True, [(k, ("S", v)) for k, v in battrs], top_items(d)), events=False)

    if route == "document append":
        dd = doc_safe(d)
        items = top_items(dd)
        if len(items) == 1 and items[0][0] == "G" and items[0][1] in ("html", "body"):
            return None
        doc, other = htmltools.HTMLDocument(), htmltools.HTMLDocument()
        i = rounds = 0
        while i < len(items):
            n = rs.choice([1, 1, 2, 70])
            rounds += 1
            other.append("other<", Tag("i", "o"))
            doc.append(*[mk(k) for k in items[i:i + n]])
            i += n
        msg = judge_document("HTMLDocument().append(...) render()", doc.render(lib_prefix=lib_prefix)["html"], dd, html_attrs=[])
        if msg:
            return msg
        return judge_document("a second HTMLDocument that was filled in between", other.render()["html"],
                              ("L", [("T", "other<"), ("G", "i", True, [], [("T", "o")])] * rounds), html_attrs=[])

    if route == "head_content":
        # the tree goes into the <head> through head_content(), from deep inside the body of a document
        x = mk(d)
        if tagifiable:
            x = x.tagify()          # head_content() renders its arguments at once
        hc = htmltools.head_content(x, mk(("M", DEP_PAYLOADS[0]))) if rs.random() < 0.3 else htmltools.head_content(x)
        holder = Tag("div", "in body<", hc)
        if rs.random() < 0.5:
            doc = htmltools.HTMLDocument(holder)
        else:
            doc = htmltools.HTMLDocument(Tag("html", Tag("head"), Tag("body", holder)))
        out = doc.render(lib_prefix=lib_prefix, include_version=inc_ver)["html"]
        return judge_document("HTMLDocument(div(head_content(tree))).render()", out, ("G", "div", True, [], [("T", "in body<")]),
                              in_head=d)

    if route == "json text document":
        x = mk(d)
        old = htmltools.html_dependency_render_mode
        try:
            htmltools.html_dependency_render_mode = "json"
            s = str(x)
        finally:
            htmltools.html_dependency_render_mode = old
        pat = rs.choice(PATTERNS)
        extra = [mk(("M", rs.choice(DEP_PAYLOADS)))] if rs.random() < 0.5 else []
        doc = htmltools.HTMLTextDocument(f"<html><head>{pat}</head><body>{s}</body></html>", deps=extra, deps_replace_pattern=pat)
        out = doc.render(lib_prefix=lib_prefix, include_version=inc_ver)["html"]
        msg = judge_document("HTMLTextDocument(<markup of json mode>, deps_replace_pattern=%r).render()" % pat, out, d, doctype=False)
        if msg:
            return msg
        out2 = doc.render()["html"]
        return judge_document("HTMLTextDocument.render() a second time", out2, d, doctype=False)

    if route == "with block":
        if d[0] != "G" or tagifiable:
            return None
        got = Collect()
        old = sys.displayhook
        sys.displayhook = got
        try:
            t = with_build(d, rs)
        finally:
            hook_after = sys.displayhook
            sys.displayhook = old
        if hook_after is not got:
            return "after the with-block sys.displayhook is not the one that was installed before it"
        if len(got.got) != 1 or got.got[0] is not t:
            return "leaving the outermost with-block does not hand exactly the tag to the previous sys.displayhook"
        ys = [("tag built in with-blocks", t), ("copy.copy of a tag that was a context manager", _copy.copy(t))]
        if depth_of(d) <= 40:
            ys.append(("copy.deepcopy of a tag that was a context manager", _copy.deepcopy(t)))
        for label, y in ys:
            for name, f in (trees.render_routes(y) if y is t else trees.render_routes(y)[:1] + trees.render_routes(y)[3:4]):
                msg = judge_fragment(f"{label}, {name}", f(), d)
                if msg:
                    return msg
        return None

    if route == "tag functions":
        t = TagList(*[fn_build(k, rs) for k in d[1]]) if d[0] == "L" else fn_build(d, rs)
        if tagifiable:
            t = t.tagify()
        out = t.get_html_string(indent, eol)
        return judge_fragment("tree built with tag functions / keyword, dict, .attrs, consolidate_attrs attributes", out, d)

    if route == "nested containers":
        if d[0] == "C":
            return None
        kids = d[1] if d[0] == "L" else d[4]
        objs = [leaf_obj(k[1], rs) if k[0] == "T" else mk(k) for k in kids]
        args = nest(objs, rs, rs.choice([0, 3] + DEPTHS))
        before = snap(args)
        if d[0] == "L":
            x = TagList(*args) if rs.random() < 0.6 else TagList(args)
        else:
            x = Tag(d[1], *args, _add_ws=d[2]) if rs.random() < 0.6 else Tag(d[1], args, _add_ws=d[2])
            for key, (m, v) in d[3]:
                dict.__setitem__(x.attrs, key, v)
        y = x.tagify() if tagifiable else x
        msg = judge_fragment("children given as nested lists / tuples / TagLists / None", y.get_html_string(indent, eol), d)
        if msg is None and snap(args) != before:
            msg = "the caller's containers of children were changed by building / rendering the tree"
        return msg

    if route == "incremental":
        noise = Tag("div")
        if d[0] == "L":
            x, other = TagList(), TagList()
            for k in d[1]:
                other.append("o")
                o = leaf_obj(k[1], rs) if k[0] == "T" else incremental(k, rs, noise) if k[0] == "G" else mk(k)
                rs.choice([x.append, lambda v: x.extend([v]), lambda v: x.insert(len(x), v)])(o)
        else:
            x = incremental(d, rs, noise)
        y = x.tagify() if tagifiable else x
        msg = judge_fragment("tree built with append / extend / insert / attrs[...] =", y.get_html_string(indent, eol), d)
        if msg:
            return msg
        fresh = Tag("div")                       # a new object of the class starts empty
        return judge_fragment("a Tag created after others were filled", fresh.get_html_string(), ("G", "div", True, [], []))

    if route == "list arithmetic":
        items = top_items(d)
        objs = [trees.mk_child_text(k[1]) if k[0] == "T" else mk(k) for k in items]
        cut = rs.randrange(0, len(objs) + 1)
        a, b = objs[:cut], objs[cut:]
        want_d = ("L", items)
        outs = []
        la, lb = TagList(*a), rs.choice([list, tuple])(b)
        r1 = la + lb
        outs.append(("TagList + list/tuple", r1))
        outs.append(("TagList + TagList", TagList(*a) + TagList(*b)))
        outs.append(("list/tuple + TagList (__radd__)", rs.choice([list, tuple])(a) + TagList(*b) if rs.random() < 0.5
                     else TagList(*b).__radd__(a)))
        l3 = TagList(*a)
        l3 += lb
        outs.append(("TagList += list/tuple", l3))
        if len(a) == 1 and isinstance(a[0], str):
            outs.append(("str + TagList", a[0] + TagList(*b)))
        if len(b) == 1 and isinstance(b[0], str):
            outs.append(("TagList + str", TagList(*a) + b[0]))
        outs.append(("the left operand after +", la))
        for label, v in outs:
            if not isinstance(v, TagList):
                return f"{label} is not a TagList"
            dd = ("L", items[:cut]) if label == "the left operand after +" else want_d
            vv = v.tagify() if tagifiable else v
            msg = judge_fragment(label, vv.get_html_string(indent, eol, add_ws=rs.random() < 0.5), dd)
            if msg:
                return msg
        return None

    if route == "copies":
        x = mk(d)
        ys = [("copy.copy", _copy.copy(x)), ("tagify()", x.tagify()), ("copy of a copy", _copy.copy(_copy.copy(x)))]
        if depth_of(d) <= 40:       # copy.deepcopy needs ~10 interpreter frames per level (the interpreter's limit, not the library's)
            ys.append(("copy.deepcopy", _copy.deepcopy(x)))
        for label, y in ys + [("the original after copying", x)]:
            yy = y.tagify() if tagifiable else y
            msg = judge_fragment(label, yy.get_html_string(indent, eol), d)
            if msg:
                return msg
            msg = judge_fragment(label + ", str()", str(y), d)
            if msg:
                return msg
        return None

    if route == "two parents":
        # the same objects in two parents (and twice in one of them): each parent parses back to its own tree
        items = top_items(d)
        objs = [trees.mk_child_text(k[1]) if k[0] == "T" else mk(k) for k in items]
        p1 = Tag("div", *objs, "one<", *objs, _add_ws=rs.random() < 0.5)
        p2 = Tag("span", TagList(*objs), id="two", _add_ws=rs.random() < 0.5)
        p3 = TagList(p1, p2, *objs)
        d1 = ("G", "div", True, [], items + [("T", "one<")] + items)
        d2 = ("G", "span", False, [("id", ("S", "two"))], items)
        for label, y, dd in (("first parent", p1, d1), ("second parent", p2, d2), ("list holding both", p3, ("L", [d1, d2] + items)),
                             ("first parent again", p1, d1)):
            for name, f in trees.render_routes(y)[1:4:2]:       # tagify().get_html_string(), str()
                msg = judge_fragment(f"one object in two parents: {label}, {name}", f(), dd, events=True)
                if msg:
                    return msg
        return None

    raise ValueError(route)


ROUTES = ["get_html_string", "all routes", "save_html", "document", "document file", "own html", "document append",
          "head_content", "json text document", "with block", "tag functions", "nested containers", "incremental",
          "list arithmetic", "copies", "two parents"]


def decorate(d, rng, top=True):
    """an ordinary tree with, here and there: text over the boundary code points, dependency nodes
    (HTMLDependency / head_content), tagifiable objects (some self-rendering too) whose expansion is
    ordinary; at the top sometimes a list of several trees and leaves"""
    if d[0] == "T":
        return ("T", uni_text(rng, rng.randrange(1, 9))) if rng.random() < 0.12 else d
    if d[0] != "G":
        return d
    kids = []
    for k in d[4]:
        k = decorate(k, rng, False)
        r = rng.random()
        if r < 0.04:
            kids.append(("M", rng.choice(DEP_PAYLOADS)))
        if r > 0.95:
            n = rng.choice([0, 1, 1, 2])
            exp = ([k] + [("T", trees.rand_text(rng, 4)), ("M", None)])[:n]
            k = ("C", rng.choice([None, None, "<i>own markup</i>"]), exp, n != 1 or rng.random() < 0.5)
        kids.append(k)
    attrs = [(a, ("S", uni_text(rng, rng.randrange(1, 7)))) if rng.random() < 0.1 else (a, v) for a, v in d[3]]
    g = ("G", d[1], d[2], attrs, kids)
    if top and rng.random() < 0.3:
        n = rng.choice([0, 1, 2, 3, 5])
        return ("L", [rng.choice([("T", trees.rand_text(rng, 6)), g, ("M", None), ("G", "hr", True, [], [])]) for _ in range(n)] + [g]
                + ([("T", uni_text(rng, 3))] if rng.random() < 0.5 else []))
    return g


def routes(ctx: Ctx, catalogue, bigs) -> None:
    """Every entry point and argument listed at the top of this file, on (a) a tree holding every
    boundary code point, (b) the big cases (every case through three routes, the routes taking turns),
    (c) random ordinary trees with dependency nodes / tagifiable objects / top-level lists."""
    rng = ctx.rng
    cases = []
    allcp = "".join(chr(c) for c in BOUNDARY_CPS)
    for r in ROUTES:
        d = ("G", "div", rng.random() < 0.5, [("title", ("S", allcp)), ("data-x", ("S", uni_text(rng, 8)))],
             [("T", allcp), ("G", "span", False, [("id", ("S", uni_text(rng, 5)))], [("T", uni_text(rng, 8))]),
              ("T", uni_text(rng, 8)), ("G", "img", False, [("alt", ("S", allcp[::-1]))], [])])
        cases.append((r, d, rng.randrange(2 ** 32)))
        cases.append((r, ("L", [("T", uni_text(rng, 8)), d, ("T", allcp)]), rng.randrange(2 ** 32)))
    start = rng.randrange(len(ROUTES))
    for i, (d, what) in enumerate(bigs):
        for j in range(3):
            cases.append((ROUTES[(start + 3 * i + j) % len(ROUTES)], d, rng.randrange(2 ** 32)))
    # one document on disk of more than 256 KiB (not a multiple of 64 KiB), the telling text at the block seams and in the tail
    cases.append(("save_html", ("G", "div", True, [], [("T", long_text(rng, 270011)), ("G", "br", False, [], []), ("T", "tail<&\u0093")]),
                  rng.randrange(2 ** 32)))
    cases.append(("document file", ("L", [("G", "p", True, [("title", ("S", long_text(rng, 140001)))], [("T", long_text(rng, 131073))])]),
                  rng.randrange(2 ** 32)))
    for _ in range(ctx.budget(400, 6000)):
        d = decorate(ord_tree(rng, rng.choice([1, 2, 3, 3, 4]), catalogue), rng)
        for r in rng.sample(ROUTES, 2):
            cases.append((r, d, rng.randrange(2 ** 32)))
    cases = ctx.select(STEP, cases)
    tmp = tempfile.mkdtemp(prefix="c01-")
    old_hook, old_mode = sys.displayhook, htmltools.html_dependency_render_mode

    def guarded(route, d, seed):
        try:
            return run_route(route, d, seed, tmp)
        except Broken as e:
            return str(e)
    try:
        for c in cases:
            route, d, seed = c
            ctx.count(("route", route, seed, d), True, "route: " + route)
            LAST.clear()
            r = safe_call(guarded, route, d, seed)
            msg = r[1] if r[0] == "ok" else f"raised {r[1]!r} on an ordinary tree"
            if sys.displayhook is not old_hook or htmltools.html_dependency_render_mode != old_mode:
                sys.displayhook, htmltools.html_dependency_render_mode = old_hook, old_mode
                msg = msg or "sys.displayhook / html_dependency_render_mode is not restored"
            if msg:
                out = LAST.get("output")
                ctx.violation(f"{STEP}: {route}: {msg}", c,
                              {"impl_output": out if not isinstance(out, str) or len(out) <= 4000 else out[:2000] + " ... " + out[-2000:],
                               "expected_forest_size": len(canon(expected(d)))})
    finally:
        shutil.rmtree(tmp, ignore_errors=True)


def replay(ctx: Ctx, path: str) -> None:
    """re-run the recorded input (the step that reported it runs that single case)"""
    ctx.load_replay(path)
    run(ctx)

"""C01  Rendered markup parses back to the same element tree."""
from __future__ import annotations

from html.parser import HTMLParser

from ..common import Ctx, S, unS, differential, run_model
from .. import trees
from ..trees import build, to_sx, safe_call, res_decode

import htmltools
from htmltools import HTML, Tag, TagList

WS = " \t\n\f\r"
EOLS = ["\n", "\r\n", "", " ", "\t\n", "\n\n", "\f"]
VOID = ["area", "base", "br", "col", "command", "embed", "hr", "img", "input", "keygen",
        "link", "meta", "param", "source", "track", "wbr"]


# ---- independent parser: html.parser -> forest ------------------------------------------
class P(HTMLParser):
    def __init__(self):
        super().__init__(convert_charrefs=True)
        self.root = []
        self.stack = [self.root]
        self.names = []
        self.err = None
        self.events = []

    def handle_starttag(self, tag, attrs):
        kids = []
        self.stack[-1].append(["E", tag, [[k, "" if v is None else v] for k, v in attrs], kids])
        self.stack.append(kids)
        self.names.append(tag)
        self.events.append(("S", tag, False))

    def handle_startendtag(self, tag, attrs):
        self.stack[-1].append(["E", tag, [[k, "" if v is None else v] for k, v in attrs], []])
        self.events.append(("S", tag, True))

    def handle_endtag(self, tag):
        self.events.append(("E", tag))
        if not self.names or self.names[-1] != tag:
            self.err = f"end tag </{tag}> does not match open element {self.names[-1:]}"
            return
        self.names.pop()
        self.stack.pop()

    def handle_data(self, data):
        self.stack[-1].append(["T", data])

    def handle_comment(self, data):
        self.err = "comment"

    def handle_decl(self, decl):
        self.err = "declaration"

    def handle_pi(self, data):
        self.err = "processing instruction"

    def unknown_decl(self, data):
        self.err = "unknown declaration"


def py_parse(s: str):
    p = P()
    p.feed(s)
    p.close()
    if p.err:
        return ("err", p.err)
    if p.names:
        return ("err", f"unclosed {p.names}")
    return ("ok", canon(p.root), p.events)


def expected_events(d, acc):
    """start/end tag events the statement demands: one self-closed tag for a childless void
    element, own start and end tag otherwise"""
    if d[0] != "G":
        return acc
    name = lower_ascii(d[1])
    if not [k for k in d[4] if k[0] != "M"] and d[1] in VOID:
        acc.append(("S", name, True))
        return acc
    acc.append(("S", name, False))
    for k in d[4]:
        expected_events(k, acc)
    acc.append(("E", name))
    return acc


def canon(forest):
    out = []
    pend = None
    def flush():
        nonlocal pend
        if pend is not None:
            t = pend.strip(WS)
            if t:
                out.append(["T", t])
        pend = None
    for e in forest:
        if e[0] == "T":
            pend = e[1] if pend is None else pend + e[1]
        else:
            flush()
            out.append(["E", e[1], e[2], canon(e[3])])
    flush()
    return out


def lower_ascii(s):
    return "".join(chr(ord(c) + 32) if "A" <= c <= "Z" else c for c in s)


def expected(d):
    """element forest of an ordinary tree description, straight from the statement"""
    k = d[0]
    if k == "T":
        return [["T", d[1]]]
    if k == "G":
        kids = []
        for x in d[4]:
            kids.extend(expected(x))
        return [["E", lower_ascii(d[1]), [[lower_ascii(a), v] for a, (_, v) in d[3]], kids]]
    return []


def forest_of_sx(m):
    out = []
    for e in m:
        if e[0] == 0:
            out.append(["T", unS(e[1])])
        else:
            out.append(["E", unS(e[1]), [[unS(k), unS(v)] for k, v in e[2]], forest_of_sx(e[3])])
    return out


# ---- generator of ordinary trees ----------------------------------------------------------
CUSTOM_NAMES = ["my-el", "x", "H1", "BR", "Img", "svg:g", "textPath", "a1", "DIV", "foreignObject", "b.c", "q_r"]
ATTR_NAMES = ["id", "class", "href", "data-x", "title", "onclick", "viewBox", "a:b", "xml:lang", "aria-label",
              "x-y", "CamelCase", "data-1"]


def ord_tree(rng, depth, catalogue):
    r = rng.random()
    if r < 0.45:
        name = rng.choice(catalogue)
    elif r < 0.65:
        name = rng.choice(VOID)
    elif r < 0.85:
        name = rng.choice(["div", "span", "p", "b", "ul", "li"])
    else:
        name = rng.choice(CUSTOM_NAMES)
    if lower_ascii(name) in ("script", "style"):
        name = "div"
    ws = rng.random() < 0.5
    keys, seen = [], set()
    for k in rng.sample(ATTR_NAMES, rng.choice([0, 0, 1, 2, 3, 5])):
        if lower_ascii(k) not in seen:
            seen.add(lower_ascii(k))
            keys.append(k)
    attrs = [(k, ("S", trees.rand_text(rng, 7))) for k in keys]
    kids = []
    if depth > 0:
        for _ in range(rng.choice([0, 0, 1, 1, 2, 3, 4])):
            q = rng.random()
            if q < 0.5:
                kids.append(ord_tree(rng, depth - 1, catalogue))
            elif q < 0.9:
                kids.append(("T", rng.choice([trees.rand_text(rng, 8), str(rng.randrange(-5, 100)), str(rng.random())])))
            else:
                kids.append(("M", None))
    return ("G", name, ws, attrs, kids)


def run(ctx: Ctx) -> None:
    rng = ctx.rng
    ctx.rule = ("ordinary trees: tag names from the full tags/svg catalogue (all 16 void names over-sampled) and valid "
                "custom names incl. upper case and namespaces, both whitespace flags, 0..5 attributes with distinct "
                "names and metacharacter-heavy values, text over all of Unicode + numbers, metadata nodes, depth <= 5, "
                "indent 0..5, 7 whitespace eol strings. Oracles: html.parser rebuilds the forest from the "
                "implementation's output; the Coq spec tokenizer+builder does the same; both must equal the tree's "
                "canonical forest. Non-trivial = tree has >= 3 elements and a text leaf with a metacharacter; "
                "distinct = canonical (tree, indent, eol).")
    ctx.assumptions = ["html.parser is a faithful HTML tokenizer on the renderer's output language",
                       "the spec tokenizer covers only the tokenizer states the renderer can reach (fails otherwise)"]
    ctx.proof()

    catalogue = [n for n in trees.all_catalogue_names()]
    cases = []
    # every catalogue name once, childless and with a child, both flags
    for n in catalogue + VOID:
        if n in ("script", "style"):
            continue
        for ws in (True, False):
            cases.append((("G", n, ws, [("id", ("S", "a\"<&'"))], []), 0, "\n"))
            cases.append((("G", n, ws, [], [("T", "x<"), ("G", "br", False, [], [])]), 1, "\n"))
    for _ in range(ctx.budget(2500, 40000)):
        d = ord_tree(rng, rng.choice([1, 2, 3, 3, 4, 5]), catalogue)
        cases.append((d, rng.randrange(0, 6), rng.choice(EOLS)))

    cases = ctx.select("Tag.get_html_string (ordinary trees)", cases)
    # spec side: ordinary? + canonical forest of the tree
    spec = run_model([[12, to_sx(d), S(eol)] for d, i, eol in cases])
    ok_all = True
    want = {}
    for c, m in zip(cases, spec):
        if not m[0]:
            ok_all = False
            ctx.extra.setdefault("not_ordinary", []).append(c)
        want[id(c)] = forest_of_sx(m[1])
        if want[id(c)] != canon(expected(c[0])):
            ok_all = False
            ctx.extra.setdefault("spec_forest_mismatch", []).append(c)
    ctx.obligation("spec `ordinary` accepts every generated tree and spec canonical forest == Python transcription", ok_all)

    outs = {}

    def impl(c):
        r = safe_call(lambda: build(c[0], share=True).get_html_string(c[1], c[2]))
        outs[id(c)] = r
        return r

    def n_elems(d):
        return 1 + sum(n_elems(k) for k in d[4] if k[0] == "G") if d[0] == "G" else 0

    def has_meta_text(d):
        if d[0] == "T":
            return any(ch in d[1] for ch in "&<>\"'")
        return d[0] == "G" and any(has_meta_text(k) for k in d[4])

    def oracle(c, out):
        if out[0] != "ok":
            return f"rendering an ordinary tree raised {out}"
        p = py_parse(out[1])
        if p[0] != "ok":
            return f"output does not parse as balanced HTML: {p[1]}"
        if p[1] != want[id(c)]:
            return "html.parser rebuilds a different element tree from the output"
        if p[2] != expected_events(c[0], []):
            return "tag events differ: self-closed form must be used exactly for childless void elements"
        # every other way of obtaining the markup parses back to the same tree
        x = build(c[0], share=True)
        for name, f in trees.render_routes(x):
            r = safe_call(f)
            if r[0] != "ok":
                return f"{name} raised {r} on an ordinary tree"
            q = py_parse(r[1])
            if q[0] != "ok" or q[1] != want[id(c)]:
                return f"the output of {name} does not parse back to the tree"
        return None

    differential(ctx, "Tag.get_html_string (ordinary trees)", cases,
                 to_sx=lambda c: [2, to_sx(c[0]), c[1], S(c[2])],
                 impl=impl, decode=lambda m: res_decode(m, unS), oracle=oracle,
                 nontrivial=lambda c: n_elems(c[0]) >= 3 and has_meta_text(c[0]), kind=lambda c: "tree")

    # the spec tokenizer+builder on the implementation's output (validates the spec against
    # html.parser and decides the property a second time)
    strs = [outs[id(c)][1] for c in cases if outs[id(c)][0] == "ok"]
    sp = run_model([[11, S(s)] for s in strs])
    agree = True
    k = 0
    for c in cases:
        if outs[id(c)][0] != "ok":
            continue
        m = sp[k]
        k += 1
        got = forest_of_sx(m[1][0]) if m[1] else None
        if got != want[id(c)]:
            ctx.violation("the specification tokenizer/tree builder rebuilds a different element tree from the output",
                          c, {"impl_output": outs[id(c)][1], "spec_parse": got, "expected": want[id(c)]})
        pp = py_parse(outs[id(c)][1])
        if pp[0] == "ok" and got != pp[1]:
            agree = False
            ctx.extra.setdefault("tokenizer_vs_htmlparser", []).append(outs[id(c)][1][:200])
    ctx.obligation("spec tokenizer+builder agrees with html.parser on every rendered string", agree)
    histories(ctx, catalogue)
    public_api(ctx, catalogue)



def live_expected(t):
    """element forest straight from the LIVE objects (attribute dict and child list as they are now)"""
    if isinstance(t, Tag):
        kids = []
        for c in t.children:
            kids.extend(live_expected(c))
        import html as _html
        # a trusted-markup (HTML) value is emitted verbatim: the parser decodes its character references
        return [["E", lower_ascii(t.name),
                 [[lower_ascii(k), _html.unescape(str(v)) if isinstance(v, HTML) else str(v)] for k, v in t.attrs.items()],
                 kids]]
    if isinstance(t, str):
        return [["T", t]]
    return []


def histories(ctx: Ctx, catalogue) -> None:
    """render, then change attributes / children through the public API (item assignment and
    deletion, pop, popitem, clear, update, add_class, remove_class, append, insert, child
    removal), then render again: the second rendering must parse back to the tree AS IT IS NOW
    (nothing remembered from the first rendering)."""
    rng = ctx.rng
    for _ in range(ctx.budget(600, 8000)):
        d = ord_tree(rng, rng.choice([1, 2, 3]), catalogue)
        t = build(d)
        for key in ("class",):   # make remove_class meaningful on some tags
            if rng.random() < 0.5:
                t.attrs["class"] = rng.choice(["a", "a b", "b"])
        first = rng.choice(["html", "str", "render", "none"])
        if first == "html":
            safe_call(lambda: t.get_html_string(rng.randrange(0, 3)))
        elif first == "str":
            safe_call(lambda: str(t))
        elif first == "render":
            safe_call(lambda: t.render())
        tags_ = []
        def walk(x):
            if isinstance(x, Tag):
                tags_.append(x)
                for c in x.children:
                    walk(c)
        walk(t)
        log = []
        for _ in range(rng.choice([1, 2, 3])):
            u = rng.choice(tags_)
            keys = list(u.attrs)
            op = rng.choice(["del", "pop", "popitem", "clear", "set", "update", "add_class", "remove_class",
                             "append", "insert", "delchild"])
            log.append(op)
            try:
                if op == "del" and keys:
                    del u.attrs[rng.choice(keys)]
                elif op == "pop" and keys:
                    u.attrs.pop(rng.choice(keys))
                elif op == "popitem" and keys:
                    u.attrs.popitem()
                elif op == "clear":
                    u.attrs.clear()
                elif op == "set":
                    u.attrs[rng.choice(["id", "title", "data-z"])] = trees.rand_text(rng, 5)
                elif op == "update":
                    u.attrs.update({"data-u": trees.rand_text(rng, 4)})
                elif op == "add_class":
                    u.add_class(rng.choice(["a", "b", "c"]))
                elif op == "remove_class":
                    u.remove_class(rng.choice(["a", "b"]))
                elif op == "append":
                    u.append(trees.rand_text(rng, 4))
                elif op == "insert":
                    u.insert(0, Tag("b", "i"))
                elif op == "delchild" and len(u.children):
                    del u.children[rng.randrange(0, len(u.children))]
            except (KeyError, TypeError):
                pass
        ctx.count(("history", d, first, log), True, "render, mutate, render again")
        want = canon(live_expected(t))
        out = safe_call(lambda: t.get_html_string(rng.randrange(0, 3)))
        if out[0] != "ok":
            ctx.violation(f"rendering after {log} raised {out}", [d, first, log], {})
            continue
        p = py_parse(out[1])
        if p[0] != "ok" or p[1] != want:
            ctx.violation("after rendering once and then changing attributes/children through the public API, the next "
                          "rendering does not parse back to the tree as it is now", [d, first, log],
                          {"impl_output": out[1], "expected_forest": want})
        s2 = safe_call(lambda: str(t))
        if s2[0] == "ok":
            p2 = py_parse(s2[1])
            if p2[0] != "ok" or p2[1] != want:
                ctx.violation("str(tag) after a mutation does not parse back to the tree as it is now", [d, first, log],
                              {"impl_output": s2[1], "expected_forest": want})


RAW_KEYS = ["data_x", "a__b", "class_", "for_", "http_equiv", "x__", "_y", "data_row__id", "aria_label", "xml:lang",
            "CamelCase", "x-y", "a_b_c", "id", "title", "b__", "__c", "d___e"]


def public_api(ctx: Ctx, catalogue) -> None:
    """Trees built the way users build them -- tag functions and Tag() with keyword attributes and
    positional attribute dicts whose names still carry underscores, numbers / True as values,
    numbers as children -- then rendered every way there is: each output must parse back to the
    tree AS STORED (names and values as the attribute dict holds them after construction)."""
    from htmltools import tags as T
    rng = ctx.rng

    def mk(depth):
        name = rng.choice(["div", "span", "p", "a", "li", "td", "img", "input", "br", "section"] + catalogue[:0])
        if rng.random() < 0.3:
            name = rng.choice(catalogue)
        if name in ("script", "style"):
            name = "div"
        kw, pos = {}, []
        for k in rng.sample(RAW_KEYS, rng.choice([0, 1, 2, 3])):
            v = rng.choice([trees.rand_text(rng, 6), 0, 1.5, True, "v", None, False, HTML("&amp;<i>")])
            if rng.random() < 0.6:
                kw[k] = v
            else:
                pos.append({k: v})
        kids = []
        if depth > 0:
            for _ in range(rng.choice([0, 1, 2, 3])):
                q = rng.random()
                if q < 0.5:
                    kids.append(mk(depth - 1))
                else:
                    kids.append(rng.choice([trees.rand_text(rng, 6), 0, 0.0, 7, 2.5]))
        f = getattr(T, name, None)
        args = pos[:1] + kids + pos[1:]
        desc = [name, [(k, repr(v)) for d_ in pos for k, v in d_.items()], sorted((k, repr(v)) for k, v in kw.items()),
                [a[0] if isinstance(a, tuple) else repr(a) for a in kids]]
        args = [a[1] if isinstance(a, tuple) else a for a in args]
        if f is not None and rng.random() < 0.7:
            return (desc, f(*args, **kw))
        return (desc, Tag(name, *args, **kw))

    for _ in range(ctx.budget(800, 10000)):
        r = safe_call(lambda: mk(rng.choice([0, 1, 2])))
        if r[0] != "ok":
            ctx.violation("constructing an ordinary tag through the public API raised", repr(r), {})
            continue
        desc, t = r[1]
        ctx.count(("public", repr(desc)), True, "tag built with keyword / dict attributes")
        want = canon(live_expected(t))
        for name, f in trees.render_routes(t):
            out = safe_call(f)
            p = py_parse(out[1]) if out[0] == "ok" else ("err", out)
            if p[0] != "ok" or p[1] != want:
                ctx.violation("a tag built through the public API (keyword / dict attributes with underscores, number "
                              "values and children) does not parse back to the tree it stores", desc,
                              {"route": name, "impl_output": out, "expected_forest": want})
                break


def replay(ctx: Ctx, path: str) -> None:
    """re-run the recorded input (the step that reported it runs that single case)"""
    ctx.load_replay(path)
    run(ctx)

"""C15  Attribute names and values are normalised and merged in argument order.

Step B: implementation (Tag / TagAttrDict / consolidate_attrs from /repo) vs the extracted
Coq model (Model/Attrs.v) on the same argument lists and operation sequences, compared after
every step.  Step C: the implementation vs the extracted Coq specification
(Spec/AttrsSpec.v: attrs_of_call, replace_merge) on every case, and vs an independent Python
transcription of the property text on the cases without unsupported values.  Every call is
also observed from the caller's side: typed deep snapshots of all argument objects (attribute
dicts, keyword values, non-dict arguments of every container shape) before and after."""
from __future__ import annotations

import itertools
import json
import os

from ..common import Ctx, S, unS, run_model, VERIF
from .. import trees
from ..trees import safe_call

import htmltools
from htmltools import HTML, Tag, TagList, consolidate_attrs
from htmltools._core import TagAttrDict

# ------------------------------------------------------------------------------------
# case descriptions (JSON-able)
#   value ::= ["N"] | ["B", bool] | ["I", int] | ["F", "<float literal>"] | ["S", s] | ["H", s]
#           | ["X", kind]                      (a value of unsupported type)
#   dict  ::= [[key, value], ...]               (distinct raw keys)
#   arg   ::= ["d", dict] | ["c", id]           (positional: attribute dict or child no. id)
#   op    ::= ["u", [dict...], kwdict] | ["s", key, value]
# ------------------------------------------------------------------------------------
NAMES = ["x", "x_", "x__", "a_b", "a-b", "a_b_", "class_", "class", "_x", "-x", "", "_", "__",
         "id", "data_x", "data-x", "X", "x-", "é_", "_a__b_"]
BAD_KINDS = ["list", "object", "dict", "tuple", "bytes", "tag", "set"]
FLOATS = ["2.5", "0.0", "-0.0", "1e+22", "inf", "nan", "1e-07", "3.0"]
INTS = [0, 1, 2, -3, 10 ** 21, 7]


def build_value(v):
    k = v[0]
    if k == "N":
        return None
    if k == "B":
        return bool(v[1])
    if k == "I":
        return int(v[1])
    if k == "F":
        return float(v[1])
    if k == "S":
        return v[1]
    if k == "H":
        return HTML(v[1])
    if k == "X":
        return {"list": [], "object": object(), "dict": {"a": 1}, "tuple": ("a",), "bytes": b"a",
                "tag": Tag("i"), "set": frozenset()}[v[1]]
    raise ValueError(v)


def value_sx(v):
    k = v[0]
    if k == "N":
        return [0]
    if k == "B":
        return [1, 1 if v[1] else 0]
    if k == "I":
        return [2, S(str(int(v[1])))]          # Python's own str(x), as the model expects
    if k == "F":
        return [3, S(str(float(v[1])))]
    if k == "S":
        return [4, S(v[1])]
    if k == "H":
        return [5, S(v[1])]
    if k == "X":
        return [6]
    raise ValueError(v)


def build_dict(d):
    return {k: build_value(v) for k, v in d}


def dict_sx(d):
    return [[S(k), value_sx(v)] for k, v in d]


def op_sx(o):
    if o[0] == "u":
        return [0, [dict_sx(d) for d in o[1]], dict_sx(o[2])]
    return [1, S(o[1]), value_sx(o[2])]


def args_sx(args):
    return [[0, dict_sx(a[1])] if a[0] == "d" else [1, a[1]] for a in args]


# ---- generators ------------------------------------------------------------------------
def rand_value(rng, bad_p=0.05):
    r = rng.random()
    if r < bad_p:
        return ["X", rng.choice(BAD_KINDS)]
    if r < 0.15:
        return ["N"]
    if r < 0.30:
        return ["B", rng.random() < 0.5]
    if r < 0.42:
        return ["I", rng.choice(INTS)]
    if r < 0.48:
        return ["F", rng.choice(FLOATS)]
    if r < 0.80:
        s = rng.choice(["v", "w", "", " ", 'a"b', "<", "&", "a b", "'"]) if rng.random() < 0.6 \
            else trees.rand_text(rng, 5)
        return ["S", s]
    s = rng.choice(["h", "<b>", "&amp;", "", '"']) if rng.random() < 0.6 else trees.rand_text(rng, 5)
    return ["H", s]


def rand_name(rng):
    if rng.random() < 0.9:
        return rng.choice(NAMES)
    return "".join(rng.choice("_-ax_") for _ in range(rng.randrange(0, 6)))


def rand_dict(rng, maxn=4, bad_p=0.05, plain=False):
    n = rng.choice([0, 1, 1, 2, 2, 3, maxn])
    keys = []
    for _ in range(n):
        k = rand_name(rng)
        if k not in keys:
            keys.append(k)
    out = []
    for k in keys:
        v = rand_value(rng, bad_p)
        if plain and v[0] in ("H", "X"):
            v = ["S", v[1] if v[0] == "H" else "p"]
        out.append([k, v])
    return out


def rand_case(rng, plain=False, bad_p=0.05):
    args = []
    cid = 0
    for _ in range(rng.choice([0, 1, 1, 2, 2, 3, 4])):
        if rng.random() < 0.75:
            args.append(["d", rand_dict(rng, bad_p=bad_p, plain=plain)])
        else:
            args.append(["c", cid])
            cid += 1
    kw = rand_dict(rng, bad_p=bad_p, plain=plain) if rng.random() < 0.7 else []
    ops = []
    for _ in range(rng.choice([0, 0, 1, 2, 3, 5])):
        if rng.random() < 0.55:
            ds = [rand_dict(rng, 3, bad_p, plain) for _ in range(rng.choice([0, 1, 1, 2]))]
            okw = rand_dict(rng, 3, bad_p, plain) if rng.random() < 0.6 else []
            ops.append(["u", ds, okw])
        else:
            v = rand_value(rng, bad_p)
            if plain and v[0] in ("H", "X"):
                v = ["S", "q"]
            ops.append(["s", rand_name(rng), v])
    return {"args": args, "kw": kw, "ops": ops}


def values_in(case):
    for a in case["args"]:
        if a[0] == "d":
            for _, v in a[1]:
                yield v
    for _, v in case["kw"]:
        yield v
    for o in case["ops"]:
        if o[0] == "u":
            for d in o[1] + [o[2]]:
                for _, v in d:
                    yield v
        else:
            yield o[2]


def is_plain(case):
    """within reach of the Python transcription of the property text: no unsupported value"""
    return all(v[0] != "X" for v in values_in(case))


def case_kind(case):
    ks = {v[0] for v in values_in(case)}
    if "X" in ks:
        return "with unsupported value"
    if "H" in ks:
        return "with HTML value"
    return "plain values"


def nontrivial(case):
    """at least two kept values share a normalised name somewhere, or an op follows"""
    names = []
    for a in case["args"]:
        if a[0] == "d":
            names += [py_spec_name(k) for k, _ in a[1]]
    names += [py_spec_name(k) for k, _ in case["kw"]]
    return len(set(names)) < len(names) or bool(case["ops"])


# ---- running the implementation -----------------------------------------------------------
def items_of(attrs):
    out = []
    for k, v in attrs.items():
        mark = 0 if type(v) is str else (1 if isinstance(v, HTML) else 2)
        out.append([k, mark, str(v)])
    return out


def child_obj(cid):
    return "c%d" % cid


def impl_scenario(case, notes=None):
    """runs the scenario; `notes` (a list) receives (message, detail) for what the calls did to
    the caller's own argument objects"""
    args = [build_dict(a[1]) if a[0] == "d" else child_obj(a[1]) for a in case["args"]]
    kw = build_dict(case["kw"])
    mine = [o for o in args if isinstance(o, dict)] + [kw]      # the caller's dicts, all calls so far
    passed = [snap(o) for o in mine]

    def intact(after_what):
        if notes is None or notes:
            return
        d = first_diff(passed, [snap(o) for o in mine])
        if d is not None:
            notes.append((after_what + " altered an attribute dict passed by the caller (the same "
                          "arguments must give the same attributes again)", d))

    r = safe_call(lambda: Tag("div", *args, **kw))
    intact("construction")
    if r[0] == "ok":
        t = r[1]
        kids = [int(c[1:]) if isinstance(c, str) and c[:1] == "c" else -1 for c in t.children]
        cons = ["ok", items_of(t.attrs), kids]
    else:
        cons = ["err", r[1]]
        t = Tag("div")
    trace = []
    for o in case["ops"]:
        if o[0] == "u":
            ds = [build_dict(d) for d in o[1]]
            okw = build_dict(o[2])
            mine += ds + [okw]
            passed += [snap(d) for d in ds + [okw]]
            rr = safe_call(lambda: t.attrs.update(*ds, **okw))
        else:
            val = build_value(o[2])

            def setit():
                t.attrs[o[1]] = val
            rr = safe_call(setit)
        trace.append([items_of(t.attrs), 0 if rr[0] == "ok" else rr[1]])
        intact("update/assignment")
    if notes is not None and not notes:
        # the tag's attributes are those of the calls made: what the caller does to its own
        # dicts afterwards is not an update or item assignment
        now = items_of(t.attrs)
        for d in mine:
            d["zz_later"] = "1"
            d.pop(next(iter(d)))
        if items_of(t.attrs) != now:
            notes.append(("changing an argument dict after the call changes the tag's attributes "
                          "(only update / item assignment may)", {"before": now, "after": items_of(t.attrs)}))
    return [cons, trace]


def dec_attrs(a):
    return [[unS(kv[0]), kv[1][0], unS(kv[1][1])] for kv in a]


def dec_tagres(m):
    if m[0] == 0:
        return ["ok", dec_attrs(m[1][0]), list(m[1][1])]
    return ["err", m[1]]


def dec_trace(t):
    return [[dec_attrs(r[0]), (r[1][0] if r[1] else 0)] for r in t]


# ---- independent Python transcription of the property text (no unsupported values) -------
def py_spec_name(x: str) -> str:
    body = x[:len(x) - 1] if x[-1:] == "_" else x       # one trailing underscore removed
    return "".join("-" if c == "_" else c for c in body)  # remaining underscores -> hyphens


ATTR_MAP = {"&": "&amp;", "<": "&lt;", ">": "&gt;", '"': "&quot;", "'": "&apos;",
            "\r": "&#13;", "\n": "&#10;"}


def py_attr_escape(s: str) -> str:
    return "".join(ATTR_MAP.get(c, c) for c in s)


def py_spec_value(v):
    """None/False dropped (returns None), True as empty string, numbers as text;
    returns (mark, text) with mark 1 for HTML"""
    k = v[0]
    if k == "N" or (k == "B" and not v[1]):
        return None
    if k == "B":
        return (0, "")
    if k == "I":
        return (0, str(int(v[1])))
    if k == "F":
        return (0, str(float(v[1])))
    if k == "H":
        return (1, v[1])
    assert k == "S"
    return (0, v[1])


def py_spec_call(dicts, kw):
    """all values given for the same normalised name within one call joined by single
    spaces in argument order (positional dicts left to right, then keywords), attributes
    ordered by first appearance.  If one of the values of a name is HTML the result is HTML
    and the plain ones are escaped as attribute text (so that what is finally written
    between the quotes is each plain value escaped once, each HTML value verbatim)."""
    pairs = []
    for d in list(dicts) + [kw]:
        for k, v in d:
            t = py_spec_value(v)
            if t is not None:
                pairs.append((py_spec_name(k), t))
    order = []
    for n, _ in pairs:
        if n not in order:
            order.append(n)
    out = []
    for n in order:
        vals = [t for m, t in pairs if m == n]
        if any(mark for mark, _ in vals):
            out.append([n, 1, " ".join(t if mark else py_attr_escape(t) for mark, t in vals)])
        else:
            out.append([n, 0, " ".join(t for _, t in vals)])
    return out


def py_spec_apply(state, new):
    """a later update or item assignment replaces rather than appends"""
    newd = {n: (m, t) for n, m, t in new}
    out = [[n, *newd[n]] if n in newd else [n, m, t] for n, m, t in state]
    have = {n for n, _, _ in state}
    out += [[n, m, t] for n, m, t in new if n not in have]
    return out


def py_spec_scenario(case):
    dicts = [a[1] for a in case["args"] if a[0] == "d"]
    kids = [a[1] for a in case["args"] if a[0] == "c"]
    st = py_spec_call(dicts, case["kw"])
    cons = ["ok", st, kids]
    trace = []
    for o in case["ops"]:
        if o[0] == "u":
            st = py_spec_apply(st, py_spec_call(o[1], o[2]))
        else:
            st = py_spec_apply(st, py_spec_call([[[o[1], o[2]]]], []))
        trace.append([st, 0])
    return [cons, trace]


# ---- argument snapshots -----------------------------------------------------------------------
def snap(x, depth=0):
    """typed, deep, JSON-able picture of an argument object (1, '1', 1.0 and True all differ;
    list / tuple / TagList differ), to decide whether a call altered its arguments"""
    if x is None:
        return ["None"]
    t = type(x).__name__
    if depth > 12:
        return [t, "..."]
    if isinstance(x, HTML):
        return [t, str(x)]
    if isinstance(x, (bool, int, float, str, bytes)):
        return [t, repr(x)]
    if isinstance(x, Tag):
        return [t, x.name, [[k, snap(v, depth + 1)] for k, v in x.attrs.items()],
                [snap(c, depth + 1) for c in x.children]]
    if isinstance(x, dict):
        return [t, [[snap(k, depth + 1), snap(v, depth + 1)] for k, v in x.items()]]
    if isinstance(x, (list, tuple, TagList)):
        return [t, [snap(c, depth + 1) for c in x]]
    if isinstance(x, (set, frozenset)):
        return [t, sorted(repr(e) for e in x)]
    return [t]


def first_diff(before, after):
    for i, (p, q) in enumerate(zip(before, after)):
        if p != q:
            return {"argument_no": i, "passed": p, "afterwards": q}
    return None


# ---- consolidate_attrs -----------------------------------------------------------------------
#   child ::= ["s", str] | ["h", str] | ["i", int] | ["f", "<float literal>"] | ["n"]
#           | ["t", name, dict, [child...]]                              (a Tag)
#           | ["l", [child...]] | ["p", [child...]] | ["L", [child...]]    (list / tuple / TagList)
#           | ["D", dict]          (an instance of a dict SUBCLASS: counts as attributes)
#   case  ::= {"args": [arg...], "kw": dict, "children": [child...]}   (arg ["c", i] is children[i])
#   (older replay files have "ckinds": [int...] instead of "children"; see legacy_shape)
class TagAttrDictLike(dict):
    pass


def legacy_shape(cid, kind):
    kind = kind % 9
    return [["s", "c%d" % cid],
            ["h", "<i>%d</i>" % cid],
            ["t", "span", [["class_", ["S", "k"]]], [["s", str(cid)]]],
            ["n"],
            ["i", cid],
            ["f", str(0.5 + cid)],
            ["l", [["s", "a%d" % cid], ["l", [["t", "b", [], []], ["n"]]], ["p", [["s", "t"]]]]],
            ["L", [["s", "l%d" % cid], ["t", "u", [], []]]],
            ["D", [["data_c", ["S", str(cid)]]]]][kind]


def child_shapes(case):
    if "children" in case:
        return case["children"]
    return [legacy_shape(i, k) for i, k in enumerate(case["ckinds"])]


def build_child(sh):
    k = sh[0]
    if k == "s":
        return sh[1]
    if k == "h":
        return HTML(sh[1])
    if k == "i":
        return int(sh[1])
    if k == "f":
        return float(sh[1])
    if k == "n":
        return None
    if k == "t":
        return Tag(sh[1], build_dict(sh[2]), *[build_child(c) for c in sh[3]])
    if k == "l":
        return [build_child(c) for c in sh[1]]
    if k == "p":
        return tuple(build_child(c) for c in sh[1])
    if k == "L":
        return TagList(*[build_child(c) for c in sh[1]])
    if k == "D":
        return TagAttrDictLike(build_dict(sh[1]))
    raise ValueError(sh)


def cons_dicts(case):
    """the attribute dicts of the call in argument order (dict-subclass instances included)"""
    shapes = child_shapes(case)
    out = []
    for a in case["args"]:
        if a[0] == "d":
            out.append(a[1])
        elif shapes[a[1]][0] == "D":
            out.append(shapes[a[1]][1])
    return out


def cons_plain(case):
    return all(v[0] != "X" for d in cons_dicts(case) + [case["kw"]] for _, v in d)


def impl_consolidate(case):
    """returns (canonical for correspondence, [oracle message...], detail)"""
    shapes = child_shapes(case)

    def build_args():
        return [build_dict(a[1]) if a[0] == "d" else build_child(shapes[a[1]]) for a in case["args"]]

    objs = build_args()
    kw = build_dict(case["kw"])
    non_dicts = [o for o in objs if not isinstance(o, dict)]
    passed = [snap(o) for o in objs] + [snap(kw)]
    msgs = []

    def args_intact(after_what):
        d = first_diff(passed, [snap(o) for o in objs] + [snap(kw)])
        if d is not None:
            which = "attribute dict" if (d["argument_no"] >= len(objs)
                                         or isinstance(objs[d["argument_no"]], dict)) else "non-dict"
            msgs.append(("%s altered one of the caller's %s arguments (the non-dict arguments come back "
                         "unchanged; the same arguments must build the same tag again)" % (after_what, which), d))
            return False
        return True

    r = safe_call(lambda: consolidate_attrs(*objs, **kw))
    intact = args_intact("consolidate_attrs")
    direct = safe_call(lambda: Tag("div", *objs, **kw))
    intact = intact and args_intact("Tag(...)")
    detail = {"impl_output": repr(r), "expected": repr(direct)}
    # the statement, transcribed: exactly the attributes of the call, plus the non-dict arguments
    want = py_spec_call(cons_dicts(case), case["kw"]) if cons_plain(case) else None
    if r[0] != "ok":
        canon = ["err", r[1]]
        if direct[0] == "ok" or direct[1] != r[1]:
            msgs.append(("consolidate_attrs raises but direct construction does not (or differently)", None))
        if want is not None:
            msgs.append(("consolidate_attrs raises on supported values [property-text oracle]", None))
        return canon, [m for m, _ in msgs], _detail(detail, msgs, want)
    out = r[1]
    if not (isinstance(out, tuple) and len(out) == 2 and type(out[0]) is dict and type(out[1]) is list):
        return ["shape"], ["consolidate_attrs does not return (dict, list)"], {"impl_output": repr(out)}
    attrs, children = out
    got_items = items_of(attrs)
    # k-th returned child must BE the k-th non-dict argument; the model names it by its id
    nd_ids = [a[1] for a in case["args"] if a[0] == "c" and shapes[a[1]][0] != "D"]
    kids = [nd_ids[k] if k < len(non_dicts) and k < len(nd_ids) and c is non_dicts[k] else -1
            for k, c in enumerate(children)]
    canon = ["ok", got_items, kids]
    if want is not None and got_items != want:
        msgs.append(("consolidate_attrs does not return exactly the attributes of the call "
                     "(normalised, merged in argument order) [property-text oracle]", None))
    if direct[0] != "ok":
        msgs.append(("consolidate_attrs succeeds but direct construction raises", None))
        return canon, [m for m, _ in msgs], _detail(detail, msgs, want)
    d = direct[1]
    if got_items != items_of(d.attrs):
        msgs.append(("consolidate_attrs attributes differ from those of the directly built tag", None))
    elif len(children) != len(non_dicts) or any(a is not b for a, b in zip(children, non_dicts)):
        msgs.append(("consolidate_attrs does not return the non-dict arguments unchanged", None))
    else:
        # a tag built directly from separately built, never used, equal arguments
        fresh = safe_call(lambda: Tag("div", *build_args(), **build_dict(case["kw"])))
        rebuilt = safe_call(lambda: Tag("div", attrs, *children))
        if rebuilt[0] != "ok":
            msgs.append(("rebuilding a tag from consolidate_attrs' result raises", None))
        else:
            rb = rebuilt[1]
            if items_of(rb.attrs) != items_of(d.attrs):
                msgs.append(("tag rebuilt from consolidate_attrs' result has different attributes", None))
            elif not (rb == d) or str(rb) != str(d) or len(rb.children) != len(d.children):
                msgs.append(("tag rebuilt from consolidate_attrs' result differs from the directly built tag", None))
            elif fresh[0] != "ok" or not (rb == fresh[1]) or snap(rb) != snap(fresh[1]):
                msgs.append(("tag rebuilt from consolidate_attrs' result differs from a tag built directly "
                             "from equal, unused arguments", {"rebuilt": snap(rb), "direct": repr(fresh)}))
        if intact:
            args_intact("rebuilding from the result")
        # what was returned belongs to the caller: changing it must not show in a second call
        attrs["zz-changed"] = "1"
        del children[:]
        r2 = safe_call(lambda: consolidate_attrs(*objs, **kw))
        if intact:
            args_intact("changing the returned dict / list")
        if r2[0] != "ok" or items_of(r2[1][0]) != got_items or len(r2[1][1]) != len(non_dicts) \
                or any(a is not b for a, b in zip(r2[1][1], non_dicts)):
            msgs.append(("a second consolidate_attrs call with the same arguments (after the caller changed "
                         "the first result) returns something else", {"second": repr(r2)}))
    return canon, [m for m, _ in msgs], _detail(detail, msgs, want)


def _detail(detail, msgs, want):
    extra = [x for _, x in msgs if x is not None]
    if extra:
        detail = dict(detail, observed=extra[0])
    if want is not None:
        detail = dict(detail, expected_attrs=want)
    return detail


SCALAR_SHAPES = [["s", "a"], ["s", ""], ["s", "<&>"], ["h", "<b>x</b>"], ["i", 0], ["i", 1], ["i", -3],
                 ["i", 10 ** 21], ["f", "2.5"], ["f", "0.0"], ["f", "1e+22"], ["f", "3.0"]]


def rand_scalar(rng, none_p=0.0):
    if rng.random() < none_p:
        return ["n"]
    r = rng.random()
    if r < 0.45:                       # numbers: what a normalising callee would rewrite
        return ["i", rng.choice(INTS)] if rng.random() < 0.5 else ["f", rng.choice(FLOATS)]
    if r < 0.8:
        return ["s", rng.choice(["a", "b", "", "<", "1", "2.5"]) if rng.random() < 0.7 else trees.rand_text(rng, 4)]
    if r < 0.9:
        return ["h", rng.choice(["<i>h</i>", "", "&amp;"])]
    return ["t", rng.choice(["b", "span", "br"]), [], []]


def rand_child(rng, depth=0):
    """a non-dict argument: scalars, tags, and list / tuple / TagList containers that are empty,
    singletons, flat (numbers, strings, mixed), contain None, or nest"""
    r = rng.random()
    if depth >= 2 or r < 0.40:
        return rand_scalar(rng, none_p=0.15)
    if r < 0.52:
        kids = [rand_child(rng, depth + 1) for _ in range(rng.choice([0, 0, 1, 2, 3]))]
        return ["t", rng.choice(["span", "p", "b"]), rand_dict(rng, 2, 0.0) if rng.random() < 0.5 else [], kids]
    kind = rng.choice(["l", "l", "l", "l", "p", "p", "L"])
    n = rng.choice([0, 1, 1, 2, 2, 3, 4, 6])
    style = rng.random()
    if style < 0.55:                   # flat, nothing to drop
        return [kind, [rand_scalar(rng) for _ in range(n)]]
    if style < 0.75:                   # flat with None
        return [kind, [rand_scalar(rng, none_p=0.3) for _ in range(n)]]
    return [kind, [rand_child(rng, depth + 1) for _ in range(n)]]


def rand_cons_case(rng, bad_p=0.04, dictsub_p=0.0):
    args, children = [], []

    def child():
        sh = ["D", rand_dict(rng, 3, bad_p)] if rng.random() < dictsub_p else rand_child(rng)
        args.append(["c", len(children)])
        children.append(sh)

    if rng.random() < 0.3:             # exactly one non-dict argument among any number of dicts
        nd = rng.choice([0, 0, 1, 1, 2, 3])
        pos = rng.randrange(0, nd + 1)
        for i in range(nd + 1):
            if i == pos:
                child()
            else:
                args.append(["d", rand_dict(rng, bad_p=bad_p)])
    else:
        for _ in range(rng.choice([0, 1, 2, 2, 3, 4, 5])):
            if rng.random() < 0.55:
                args.append(["d", rand_dict(rng, bad_p=bad_p)])
            else:
                child()
    kw = rand_dict(rng, bad_p=bad_p) if rng.random() < 0.7 else []
    return {"args": args, "kw": kw, "children": children}


SMALL_CHILDREN = [["s", "a"], ["i", 1], ["f", "2.5"], ["n"], ["h", "<b>"], ["t", "b", [], []],
                  ["t", "p", [["x_", ["I", 1]]], [["i", 2]]],
                  ["l", []], ["l", [["i", 1]]], ["l", [["i", 1], ["f", "2.5"]]], ["l", [["s", "a"], ["s", "b"]]],
                  ["l", [["i", 1], ["n"]]], ["l", [["l", [["i", 1]]]]], ["l", [["t", "b", [], []], ["i", 3]]],
                  ["l", [["h", "<b>"], ["f", "0.0"]]],
                  ["p", []], ["p", [["i", 1], ["i", 2]]], ["p", [["f", "2.5"]]],
                  ["L", []], ["L", [["i", 1]]], ["L", [["s", "a"], ["f", "2.5"]]],
                  ["D", [["x_", ["I", 1]]]], ["D", []]]


def small_cons_cases():
    """every one of SMALL_CHILDREN alone and every ordered pair of them, with attribute dicts
    before / after / around / absent, with and without keywords"""
    d1, d2 = ["d", [["x", ["S", "p"]], ["a_b", ["I", 0]]]], ["d", [["x_", ["F", "2.5"]]]]
    out = []
    for kw in ([], [["x__", ["S", "k"]], ["id", ["S", "i"]]]):
        for c in SMALL_CHILDREN:
            for args in ([["c", 0]], [d1, ["c", 0]], [["c", 0], d2], [d1, ["c", 0], d2], [d1, d2, ["c", 0]]):
                out.append({"args": args, "kw": kw, "children": [c]})
        for c, e in itertools.product(SMALL_CHILDREN, repeat=2):
            for args in ([["c", 0], ["c", 1]], [d1, ["c", 0], d2, ["c", 1]]):
                out.append({"args": args, "kw": kw, "children": [c, e]})
    return out


def check_consolidate(ctx: Ctx, name: str, cases: list, kind: str) -> None:
    """oracle on every case; correspondence with the model on those inside its domain
    (no dict-subclass arguments)"""
    inside = [c for c in cases if all(sh[0] != "D" for sh in child_shapes(c))]
    mo = run_model([[3, args_sx(c["args"]), dict_sx(c["kw"])] for c in inside], driver="c15") if inside else []
    model_of = {id(c): m for c, m in zip(inside, mo)}
    dis = []
    for c in cases:
        ctx.count(("consolidate", c), True, kind if id(c) in model_of else kind + " (dict subclass args)")
        canon, msgs, detail = impl_consolidate(c)
        for msg in msgs:
            ctx.violation("consolidate_attrs: " + msg, c, detail)
        m = model_of.get(id(c))
        if m is None:
            continue
        mv = dec_tagres(m[0])
        # the model's rebuilt tag and direct tag must agree with its consolidate (theorem;
        # checked here on the extracted code as a sanity check of the extraction)
        if mv != canon or dec_tagres(m[1]) != mv or dec_tagres(m[2]) != mv:
            dis.append({"case": c, "impl_output": canon,
                        "model_output": [mv, dec_tagres(m[1]), dec_tagres(m[2])]})
    if inside:
        ctx.corr_cases += len(inside)
        ctx.obligation(f"correspondence {name} ({len(inside)} cases)", not dis)
    if dis:
        dis.sort(key=lambda d: len(json.dumps(d["case"])))
        ctx.extra.setdefault("disagree_consolidate", []).extend(dis[:3])


# ------------------------------------------------------------------------------------------------
def check_scenarios(ctx: Ctx, name: str, cases: list) -> None:
    model_out = run_model([[1, args_sx(c["args"]), dict_sx(c["kw"]), [op_sx(o) for o in c["ops"]]]
                           for c in cases], driver="c15")
    disagreements = []
    for c, m in zip(cases, model_out):
        ctx.count(c, nontrivial(c), case_kind(c))
        notes = []
        iv = impl_scenario(c, notes)
        for what, d in notes:
            ctx.violation(what, c, {"impl_output": iv, "observed": d})
        if isinstance(m, tuple) or m == [999999, 999999]:
            disagreements.append({"case": c, "impl_output": iv, "model_output": repr(m)})
            continue
        mv = [dec_tagres(m[0]), dec_trace(m[1])]
        sv = [dec_tagres(m[2]), dec_trace(m[3])]
        if mv != iv:
            disagreements.append({"case": c, "impl_output": iv, "model_output": mv})
        # step C: Coq specification (all value kinds)
        if sv != iv:
            ctx.violation(spec_diff_message(c, iv, sv), c, {"impl_output": iv, "expected": sv})
        # step C: Python transcription of the property text (str / HTML / numbers / bool / None)
        if is_plain(c):
            pv = py_spec_scenario(c)
            if pv != iv:
                ctx.violation(spec_diff_message(c, iv, pv) + " [property-text oracle]", c,
                              {"impl_output": iv, "expected": pv})
    ctx.corr_cases += len(cases)
    ctx.obligation(f"correspondence {name} ({len(cases)} cases, compared after every step)",
                   not disagreements)
    if disagreements:
        disagreements.sort(key=lambda d: len(json.dumps(d["case"])))
        ctx.extra.setdefault("disagreements", []).extend(disagreements[:3])
        ctx.extra[f"disagree_{name}"] = disagreements[:3]


def spec_diff_message(c, iv, sv) -> str:
    if iv[0] != sv[0]:
        if iv[0][0] != sv[0][0]:
            return "construction: exception behaviour differs from the specification"
        if iv[0][0] == "ok" and [x[0] for x in iv[0][1]] != [x[0] for x in sv[0][1]]:
            return "construction: attribute names / order differ from the specification"
        if iv[0][0] == "ok" and iv[0][2] != sv[0][2]:
            return "construction: children are not the non-dict arguments"
        return "construction: attribute values differ from the specification (merge / normalisation)"
    for (ia, ie), (sa, se) in zip(iv[1], sv[1]):
        if ie != se:
            return "update/assignment: exception behaviour differs from the specification"
        if ia != sa:
            if [x[0] for x in ia] != [x[0] for x in sa]:
                return "update/assignment: names / order differ (replace-in-place, append new)"
            return "update/assignment: stored value differs from the specification (the call's own merged value must replace the stored one)"
    return "trace differs from the specification"


def run(ctx: Ctx) -> None:
    rng = ctx.rng
    ctx.rule = ("scenario = Tag('div', positional dicts and children mixed, keywords) followed by a random "
                "sequence of attrs.update(*dicts, **kw) / attrs[k] = v; raw names drawn from colliding "
                "spellings (x x_ x__ a_b a-b a_b_ class_ class _x -x '' _ __ ...) and random strings over "
                "_ - a x; values None, True, False, ints (0, 1, ...), floats, str (metacharacters), HTML, and "
                "unsupported objects (list, object, dict, tuple, bytes, Tag, frozenset). The attribute item "
                "list with str/HTML marks and the exception kind are compared after every step. Plus name "
                "normalisation on all strings up to length 5 over {_,-,a,x}; bounded-exhaustive constructions "
                "(two (name, value) pairs over 6 names x 10 values in three placements, thorough: followed by "
                "every one of 8 follow-up operations); consolidate_attrs on random argument lists whose "
                "non-dict arguments are scalars (str, HTML, int, float, None), tags, and list / tuple / TagList "
                "containers that are empty, singletons, flat (numbers, strings, mixed), contain None, or nest, "
                "with exactly one non-dict argument among the dicts in 30% of the cases, dict-subclass arguments, "
                "and every one / every ordered pair of 23 small non-dict shapes in 5 + 2 placements; its result "
                "is judged against the property-text transcription, against direct construction from the same "
                "and from separately built equal arguments, and by a second call after the caller changed the "
                "first result. Every call (Tag, update, consolidate_attrs) is also observed through the "
                "caller's own argument objects: a typed deep snapshot taken before must equal one taken after, "
                "and changing an argument dict after the call must not change the tag. A scenario is non-trivial when two values share a normalised name "
                "or an operation follows; distinct = distinct canonical case descriptions.")
    ctx.assumptions = [
        "the extracted OCaml model behaves as the Gallina model (ExtrOcamlBasic only)",
        "numbers: Python's own str(x) is handed to the model (number formatting is not modelled)",
        "dict arguments have str keys; keyword names exclude Tag's own parameters (_add_ws, _name) and self",
        "children are opaque to this model (what TagList does with them is C14)",
    ]
    ctx.proof()

    # ---- corpus (runs first) ------------------------------------------------------------
    corpus = []
    cdir = os.path.join(VERIF, "corpus", "C15")
    if os.path.isdir(cdir):
        for fn in sorted(os.listdir(cdir)):
            if fn.endswith(".json"):
                with open(os.path.join(cdir, fn), encoding="utf-8") as f:
                    j = json.load(f)
                corpus += j if isinstance(j, list) else [j]
    if corpus:
        check_scenarios(ctx, "corpus scenarios", corpus)

    # ---- 1. names --------------------------------------------------------------------------
    names = list(NAMES)
    for n in range(0, 6):
        names += ["".join(t) for t in itertools.product("_-ax", repeat=n)]
    names += [trees.rand_text(rng, 6) + rng.choice(["", "_", "__", "_x"]) for _ in range(ctx.budget(500, 5000))]
    mo = run_model([[2, S(n)] for n in names], driver="c15")
    bad = []
    for n, m in zip(names, mo):
        ctx.count(("name", n), "_" in n, "name")
        iv = TagAttrDict._normalize_attr_name(n)
        via_tag = list(Tag("div", **{n: "v"}).attrs.keys()) if n not in ("_add_ws", "_name") else [iv]
        if [unS(m[0])] != [iv] or via_tag != [iv]:
            bad.append({"case": n, "impl_output": [iv, via_tag], "model_output": unS(m[0])})
        want = py_spec_name(n)
        if iv != want or unS(m[1]) != want or via_tag != [want]:
            ctx.violation("name normalisation is not: one trailing underscore removed, remaining "
                          "underscores turned into hyphens", n, {"impl_output": [iv, via_tag], "expected": want})
    ctx.corr_cases += len(names)
    ctx.obligation(f"correspondence _normalize_attr_name ({len(names)} names)", not bad)
    if bad:
        ctx.extra["disagree_names"] = bad[:3]

    # ---- 2. random scenarios ---------------------------------------------------------------
    cases = [rand_case(rng) for _ in range(ctx.budget(12000, 120000))]
    cases += [rand_case(rng, plain=True) for _ in range(ctx.budget(6000, 60000))]
    cases += [rand_case(rng, bad_p=0.3) for _ in range(ctx.budget(1500, 15000))]   # malformed stream
    check_scenarios(ctx, "Tag(...) then update/setitem sequences", cases)

    # ---- 3. bounded-exhaustive small scope -----------------------------------------------------
    xn = ["x", "x_", "x__", "a_b", "a-b", "_"]
    xv = [["N"], ["B", True], ["B", False], ["I", 0], ["I", 1], ["F", "2.5"], ["S", 'a"<'],
          ["S", ""], ["H", "<h>"], ["X", "list"]]
    pairs = [[n, v] for n in xn for v in xv]
    follow = [[],
              [["u", [[["x", ["S", "new"]]]], []]],
              [["u", [], [["x_", ["N"]], ["a_b", ["S", "k"]]]]],
              [["u", [[["x", ["S", "p"]]], [["x_", ["H", "q"]]]], [["x__", ["X", "object"]]]]],
              [["s", "x_", ["I", 0]]],
              [["s", "a_b", ["B", False]]],
              [["s", "zz_", ["B", True]], ["s", "x", ["X", "list"]]],
              [["u", [[["zz", ["S", "1"]], ["x", ["S", "2"]]]], [["zz_", ["S", "3"]]]]]]
    small = []
    fl = follow if not ctx.quick else follow[:1]
    for p, q in itertools.product(pairs, repeat=2):
        for place in (0, 1, 2):
            if place == 0:
                if p[0] == q[0]:
                    continue
                args, kw = [["d", [p, q]]], []
            elif place == 1:
                args, kw = [["d", [p]], ["c", 0], ["d", [q]]], []
            else:
                args, kw = [["d", [p]]], [q]
            for f in fl:
                small.append({"args": args, "kw": kw, "ops": f})
    if ctx.quick:
        small = [c for i, c in enumerate(small) if i % 3 == ctx.seed % 3]
        for f in follow[1:]:
            for _ in range(150):
                p, q = rng.choice(pairs), rng.choice(pairs)
                small.append({"args": [["d", [p]]], "kw": [q], "ops": f})
    check_scenarios(ctx, "bounded-exhaustive two-pair constructions", small)

    # ---- 4. consolidate_attrs -------------------------------------------------------------------
    small_c = small_cons_cases()
    if ctx.quick:        # all one-child cases, a third of the two-children ones
        small_c = [c for i, c in enumerate(small_c) if len(c["children"]) == 1 or i % 3 == ctx.seed % 3]
    check_consolidate(ctx, "consolidate_attrs, small scope (one / two non-dict arguments of every shape)",
                      small_c, "consolidate_attrs (small scope)")
    check_consolidate(ctx, "consolidate_attrs", [rand_cons_case(rng) for _ in range(ctx.budget(3000, 50000))],
                      "consolidate_attrs")
    # dict-subclass arguments are outside the model's domain: oracle only
    check_consolidate(ctx, "consolidate_attrs (some dict-subclass args)",
                      [rand_cons_case(rng, dictsub_p=0.3) for _ in range(ctx.budget(400, 6000))],
                      "consolidate_attrs")
    for badchild in (object(), b"x", {1, 2}):
        r = safe_call(lambda: consolidate_attrs({"a": 1}, badchild, b=2))
        d = safe_call(lambda: Tag("div", {"a": 1}, badchild, b=2))
        ctx.count(("consolidate-badchild", repr(type(badchild))), True, "consolidate_attrs (invalid child)")
        if (r[0], r[1] if r[0] == "err" else None) != (d[0], d[1] if d[0] == "err" else None):
            ctx.violation("consolidate_attrs: invalid child handled differently from direct construction",
                          repr(badchild), {"impl_output": repr(r), "expected": repr(d)})

    # ---- recorded observation: the mixed str/HTML merge as rendered (judged by C03) ------------------
    t = safe_call(lambda: Tag("div", {"class": 'a"b'}, class_=HTML("x")).get_html_string())
    ctx.extra["observation_mixed_merge_render"] = {
        "input": "Tag('div', {'class': 'a\"b'}, class_=HTML('x'))", "rendered": t[1] if t[0] == "ok" else repr(t),
        "note": "plain operand of a str/HTML merge is escaped with the ATTRIBUTE table before merging "
                "(repaired TagAttrDict.update); expected <div class=\"a&quot;b x\"></div>; judged by C03"}


def replay(ctx: Ctx, path: str) -> None:
    with open(path, encoding="utf-8") as f:
        r = json.load(f)
    print(json.dumps(r, indent=1)[:4000])
    c = r.get("case")
    ctx.rule = "replay of one recorded case"
    ctx.proof()
    if isinstance(c, dict) and "ops" in c:
        check_scenarios(ctx, "replayed scenario", [c])
    elif isinstance(c, dict) and ("ckinds" in c or "children" in c):
        check_consolidate(ctx, "replayed consolidate_attrs case", [c], "consolidate_attrs")
    elif isinstance(c, str):
        iv = TagAttrDict._normalize_attr_name(c)
        ctx.count(("name", c), True, "name")
        if iv != py_spec_name(c):
            ctx.violation("name normalisation is not: one trailing underscore removed, remaining "
                          "underscores turned into hyphens", c, {"impl_output": iv, "expected": py_spec_name(c)})
    else:
        run(ctx)

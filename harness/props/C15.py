"""C15  Attribute names and values are normalised and merged in argument order.

Step B: implementation (Tag / TagAttrDict / consolidate_attrs from /repo) vs the extracted
Coq model (Model/Attrs.v) on the same argument lists and operation sequences, compared after
every step.  Step C: the implementation vs the extracted Coq specification
(Spec/AttrsSpec.v: attrs_of_call, replace_merge) on every case, and vs an independent Python
transcription of the property text on the cases without unsupported values.  Every call is
also observed from the caller's side: typed deep snapshots of all argument objects (attribute
dicts, keyword values, non-dict arguments of every container shape) before and after.

PUBLIC ENTRY POINTS THAT REACH THE BEHAVIOUR (and where this file exercises them)
  building attributes
    Tag(_name, *args, _add_ws=True|False, **kwargs)            via "Tag" / "ws0"
    htmltools.div(...), htmltools.tags.span(...) (wrappers; top-level re-export and tags.*)   via "wrapper" / "tags"
    TagAttrDict(*dicts, **kwargs)                               via "TagAttrDict", source how "TagAttrDict"
    tag.attrs.update(*dicts, **kwargs), tag.attrs[k] = v        ops "u" / "s"
    consolidate_attrs(*args, **kwargs)                          section 4, source how "consolidate"
    HTMLDocument(*children, **kwargs) -> attributes of <html> (render(lib_prefix=, include_version=),
      save_html(file, libdir=, include_version=)); a user-supplied <html> root gets them by update   section 6
    Tag.add_class(prepend=) / add_style(prepend=) / remove_class (C16; they call attrs.update):
      here only as producers of TagAttrDict objects handed on as arguments (source how "helpers")
  what may be handed in as an "attribute dict" (anything isinstance(x, dict)), each one alone,
  homogeneous and mixed, at construction, in update() and in consolidate_attrs:
    plain dict ("d"); dict subclasses: OrderedDict, a user subclass ("o"); ANOTHER TAG'S .attrs (an
    exact TagAttrDict, "a") obtained from Tag(...), a wrapper, TagAttrDict(...), copy.copy, copy.deepcopy,
    tagify(), a tag that was used as a with-block, item assignment, the class/style helpers; the plain
    dict returned by consolidate_attrs; THE SAME OBJECT twice in one call ("r"); the tag's own .attrs
    passed to its own update ("t")
  observing attributes
    dict(tag.attrs) / list(tag.attrs) after every step; Tag.__eq__ against a tag built from one plain
    dict holding the expected attributes; every markup route of trees.render_routes (get_html_string,
    tagify().get_html_string, render()["html"], str, repr, _repr_html_, str in
    html_dependency_render_mode = "json") and get_html_string(indent=3, eol="\r\n") against the same
    reference tag, and the opening tag parsed back with html.parser against the specification;
    copy.copy / copy.deepcopy / tagify() of the tag and `with tag:` as steps of a history (ops "k" / "w")
  not here: JSXTag has its own JSXTagAttrDict (C20); class / style helper semantics (C16); attribute
  escaping when written (C03); TagList / HTMLTextDocument have no attributes.
STATE: after every scenario two fresh objects are built (Tag("div"), TagAttrDict(), a fixed small merge) and
must not be influenced by what ran before; a second tag built from the very same argument objects must get
the same attributes; sources / arguments are snapshotted before and after every call.
SIZES: section 5 reaches 7,8,9 ... 255,256,257,300 for positional dicts, attributes of one dict, values merged
into one attribute, dicts of one update, operations of a history, interleaved children, keywords, class
tokens, and names / values of >= 300, >= 5000, >= 70000 characters with the interesting part at the end."""
from __future__ import annotations

import collections
import copy as _copy
import itertools
import json
import os
import re
import sys
import tempfile
from html.parser import HTMLParser

from ..common import Ctx, S, unS, run_model, VERIF
from .. import trees
from ..trees import safe_call

import htmltools
from htmltools import HTML, HTMLDocument, Tag, TagList, consolidate_attrs
from htmltools._core import TagAttrDict

# ------------------------------------------------------------------------------------
# case descriptions (JSON-able)
#   value ::= ["N"] | ["B", bool] | ["I", int] | ["F", "<float literal>"] | ["S", s] | ["H", s]
#           | ["X", kind]                      (a value of unsupported type)
#           | ["LS", unit, n, tail] | ["LH", unit, n, tail]     (the str / HTML  unit * n + tail)
#   key   ::= str | ["L", unit, n, tail]        (the name  unit * n + tail)
#   dict  ::= [[key, value], ...]               (distinct raw keys)
#   arg   ::= ["d", dict] | ["c", id]           (positional: attribute dict or child no. id)
#           | ["o", "ordered" | "sub", dict]    (an OrderedDict / an instance of a user subclass of dict)
#           | ["a", how, [dict...], kwdict]     (an exact TagAttrDict: the .attrs of ANOTHER tag that was
#                                                built from these supported values in the way `how`)
#           | ["r", j]                          (the very same object as argument no. j of the same call)
#           | ["t"]                             (in an update only: the tag's own .attrs object)
#   op    ::= ["u", [dict | arg ...], kwdict] | ["s", key, value]
#           | ["w"]                             (`with tag: pass`; attributes unchanged)
#           | ["k", "copy" | "deepcopy" | "tagify"]   (go on with that copy of the tag; attributes
#                                                unchanged, and the original stays as it was)
#   case  ::= {"args": [arg...], "kw": dict, "ops": [op...], "via": how the tag is built (default "Tag")}
# The PLAIN form of a case (what the model and the specifications get) has only "d" / "c" arguments
# with fully written out strings: every other kind of mapping is replaced by a plain dict holding the
# items the object had when it was handed in.
# ------------------------------------------------------------------------------------
NAMES = ["x", "x_", "x__", "a_b", "a-b", "a_b_", "class_", "class", "_x", "-x", "", "_", "__",
         "id", "data_x", "data-x", "X", "x-", "é_", "_a__b_"]
BAD_KINDS = ["list", "object", "dict", "tuple", "bytes", "tag", "set"]
FLOATS = ["2.5", "0.0", "-0.0", "1e+22", "inf", "nan", "1e-07", "3.0"]
INTS = [0, 1, 2, -3, 10 ** 21, 7]


def build_value(v):
    k = v[0]
    if k == "N":
        return None
    if k == "B":
        return bool(v[1])
    if k == "I":
        return int(v[1])
    if k == "F":
        return float(v[1])
    if k == "S":
        return v[1]
    if k == "H":
        return HTML(v[1])
    if k == "X":
        return {"list": [], "object": object(), "dict": {"a": 1}, "tuple": ("a",), "bytes": b"a",
                "tag": Tag("i"), "set": frozenset()}[v[1]]
    if k == "LS":
        return long_text(v)
    if k == "LH":
        return HTML(long_text(v))
    raise ValueError(v)


def long_text(v) -> str:
    return v[1] * int(v[2]) + v[3]


def key_str(k) -> str:
    return k if isinstance(k, str) else long_text(k)


def plain_value(v):
    if v[0] == "LS":
        return ["S", long_text(v)]
    if v[0] == "LH":
        return ["H", long_text(v)]
    return v


def plain_dict(d):
    return [[key_str(k), plain_value(v)] for k, v in d]


def value_sx(v):
    v = plain_value(v)
    k = v[0]
    if k == "N":
        return [0]
    if k == "B":
        return [1, 1 if v[1] else 0]
    if k == "I":
        return [2, S(str(int(v[1])))]          # Python's own str(x), as the model expects
    if k == "F":
        return [3, S(str(float(v[1])))]
    if k == "S":
        return [4, S(v[1])]
    if k == "H":
        return [5, S(v[1])]
    if k == "X":
        return [6]
    raise ValueError(v)


def build_dict(d):
    return {key_str(k): build_value(v) for k, v in d}


def dict_sx(d):
    return [[S(key_str(k)), value_sx(v)] for k, v in d]


def op_sx(o):
    if o[0] == "u":
        return [0, [dict_sx(d) for d in o[1]], dict_sx(o[2])]
    return [1, S(key_str(o[1])), value_sx(o[2])]


def args_sx(args):
    return [[0, dict_sx(a[1])] if a[0] == "d" else [1, a[1]] for a in args]


# ---- generators ------------------------------------------------------------------------
def rand_value(rng, bad_p=0.05):
    r = rng.random()
    if r < bad_p:
        return ["X", rng.choice(BAD_KINDS)]
    if r < 0.15:
        return ["N"]
    if r < 0.30:
        return ["B", rng.random() < 0.5]
    if r < 0.42:
        return ["I", rng.choice(INTS)]
    if r < 0.48:
        return ["F", rng.choice(FLOATS)]
    if r < 0.80:
        s = rng.choice(["v", "w", "", " ", 'a"b', "<", "&", "a b", "'"]) if rng.random() < 0.6 \
            else trees.rand_text(rng, 5)
        return ["S", s]
    s = rng.choice(["h", "<b>", "&amp;", "", '"']) if rng.random() < 0.6 else trees.rand_text(rng, 5)
    return ["H", s]


def rand_name(rng):
    if rng.random() < 0.9:
        return rng.choice(NAMES)
    return "".join(rng.choice("_-ax_") for _ in range(rng.randrange(0, 6)))


def rand_dict(rng, maxn=4, bad_p=0.05, plain=False):
    n = rng.choice([0, 1, 1, 2, 2, 3, maxn])
    keys = []
    for _ in range(n):
        k = rand_name(rng)
        if k not in keys:
            keys.append(k)
    out = []
    for k in keys:
        v = rand_value(rng, bad_p)
        if plain and v[0] in ("H", "X"):
            v = ["S", v[1] if v[0] == "H" else "p"]
        out.append([k, v])
    return out


SRC_HOWS = ["Tag", "Tag", "wrapper", "TagAttrDict", "copy", "deepcopy", "tagify", "with", "setitem",
            "consolidate", "helpers"]
VIAS = ["Tag", "Tag", "ws0", "wrapper", "tags", "TagAttrDict"]
POLICIES = ["all-a", "all-a", "all-o", "mix", "mix", "mix"]


def flavour_args(rng, args, policy=None, self_ok=False):
    """the same positional arguments with the attribute dicts handed in as other kinds of mapping
    objects: all of them another tag's .attrs, all of them dict-subclass instances, or an independent
    mix that also repeats an earlier object (and, in an update, the tag's own .attrs)"""
    policy = policy or rng.choice(POLICIES)
    out = []
    for a in args:
        if a[0] != "d":
            out.append(a)
            continue
        bad = any(v[0] == "X" for _, v in a[1])
        f = "a" if policy == "all-a" else "o" if policy == "all-o" else "d" if policy == "all-d" else \
            rng.choice(["d", "a", "a", "a", "o", "r", "r", "t" if self_ok else "a"])
        if f == "r":
            earlier = [j for j, b in enumerate(out) if b[0] != "c"]
            if earlier:
                out.append(["r", rng.choice(earlier)])
                continue
            f = "a"
        if f == "a" and bad:        # a TagAttrDict never holds an unsupported value
            f = "o"
        if f == "a":
            items = a[1]
            cut = rng.randrange(0, len(items) + 1) if rng.random() < 0.3 else len(items)
            kwpart = [kv for kv in items[cut:] if isinstance(kv[0], str) and kv[0] not in ("_add_ws", "_name", "self")]
            if len(kwpart) != len(items) - cut:
                cut, kwpart = len(items), []
            dicts = [items[:cut]] if cut or rng.random() < 0.7 else []
            if rng.random() < 0.25:
                dicts.append(rand_dict(rng, 2, 0.0))
            out.append(["a", rng.choice(SRC_HOWS), dicts, kwpart])
        elif f == "o":
            out.append(["o", rng.choice(["ordered", "sub"]), a[1]])
        elif f == "t":
            out.append(["t"])
        else:
            out.append(a)
    return out


def rand_case(rng, plain=False, bad_p=0.05, flav_p=0.0):
    args = []
    cid = 0
    via = rng.choice(VIAS) if flav_p and rng.random() < 0.5 else "Tag"
    for _ in range(rng.choice([0, 1, 1, 2, 2, 3, 4])):
        if rng.random() < 0.75 or via == "TagAttrDict":
            args.append(["d", rand_dict(rng, bad_p=bad_p, plain=plain)])
        else:
            args.append(["c", cid])
            cid += 1
    kw = rand_dict(rng, bad_p=bad_p, plain=plain) if rng.random() < (0.5 if flav_p else 0.7) else []
    if rng.random() < flav_p:
        args = flavour_args(rng, args)
    ops = []
    for _ in range(rng.choice([0, 0, 1, 2, 3, 5])):
        r = rng.random()
        if flav_p and r < 0.12:
            ops.append(["w"] if rng.random() < 0.4 else ["k", rng.choice(["copy", "deepcopy", "tagify"])])
        elif r < 0.55:
            ds = [rand_dict(rng, 3, bad_p, plain) for _ in range(rng.choice([0, 1, 1, 2]))]
            okw = rand_dict(rng, 3, bad_p, plain) if rng.random() < (0.4 if flav_p else 0.6) else []
            if rng.random() < flav_p:
                ds = flavour_args(rng, [["d", d] for d in ds], self_ok=True)
                if rng.random() < 0.15:
                    ds.insert(rng.randrange(0, len(ds) + 1), ["t"])
            ops.append(["u", ds, okw])
        else:
            v = rand_value(rng, bad_p)
            if plain and v[0] in ("H", "X"):
                v = ["S", "q"]
            ops.append(["s", rand_name(rng), v])
    c = {"args": args, "kw": kw, "ops": ops}
    if via != "Tag":
        c["via"] = via
    return c


def values_in(case):
    """of a case in plain form"""
    for a in case["args"]:
        if a[0] == "d":
            for _, v in a[1]:
                yield v
    for _, v in case["kw"]:
        yield v
    for o in case["ops"]:
        if o[0] == "u":
            for d in o[1] + [o[2]]:
                for _, v in d:
                    yield v
        else:
            yield o[2]


def is_flavoured(case):
    def fl(a):
        return bool(a) and isinstance(a[0], str) and a[0] not in ("d", "c")
    return case.get("via", "Tag") != "Tag" or any(fl(a) for a in case["args"]) or \
        any(o[0] in ("w", "k") or (o[0] == "u" and any(fl(a) for a in o[1])) for o in case["ops"])


def is_plain(case):
    """within reach of the Python transcription of the property text: no unsupported value"""
    return all(v[0] != "X" for v in values_in(case))


def case_kind(case):
    ks = {v[0] for v in values_in(case)}
    if "X" in ks:
        return "with unsupported value"
    if "H" in ks:
        return "with HTML value"
    return "plain values"


def nontrivial(case):
    """at least two kept values share a normalised name somewhere, or an op follows"""
    names = []
    for a in case["args"]:
        if a[0] == "d":
            names += [py_spec_name(k) for k, _ in a[1]]
    names += [py_spec_name(k) for k, _ in case["kw"]]
    return len(set(names)) < len(names) or bool(case["ops"])


# ---- running the implementation -----------------------------------------------------------
def items_of(attrs):
    out = []
    for k, v in attrs.items():
        mark = 0 if type(v) is str else (1 if isinstance(v, HTML) else 2)
        out.append([k, mark, str(v)])
    return out


def child_obj(cid):
    return "c%d" % cid


def with_block(t):
    """`with t: pass` under a hook that shows nothing.  A tag (or a copy of one) whose block has exited
    cannot be entered again (RuntimeError; a recorded deviation, C17's subject): not an error here."""
    old = sys.displayhook
    sys.displayhook = lambda value: None
    try:
        with t:
            pass
    except RuntimeError:
        pass
    finally:
        sys.displayhook = old


def build_source(how, dicts, kw):
    """another tag's attributes (an exact TagAttrDict, except 'consolidate': the plain dict returned)"""
    ds = [build_dict(d) for d in dicts]
    k = build_dict(kw)
    if how == "Tag":
        return Tag("i", *ds, **k).attrs
    if how == "wrapper":
        return htmltools.span(*ds, **k).attrs
    if how == "TagAttrDict":
        return TagAttrDict(*ds, **k)
    if how == "copy":
        return _copy.copy(Tag("i", *ds, **k)).attrs
    if how == "deepcopy":
        return _copy.deepcopy(Tag("i", *ds, **k)).attrs
    if how == "tagify":
        return Tag("i", *ds, **k).tagify().attrs
    if how == "with":
        t = Tag("i", *ds, **k)
        with_block(t)
        return t.attrs
    if how == "setitem":
        t = Tag("i")
        for d in ds + [k]:
            for kk, vv in d.items():
                t.attrs[kk] = vv
        return t.attrs
    if how == "consolidate":
        return consolidate_attrs(*ds, **k)[0]
    if how == "helpers":            # what the helpers store is C16's subject: taken as found
        t = Tag("i", *ds, **k)
        t.add_class("k1")
        t.add_style("color: red;")
        t.add_class("k0", prepend=True)
        return t.attrs
    raise ValueError(how)


def spec_source(how, dicts, kw):
    """what the property text says such a source holds (None: not this property's business)"""
    dicts, kw = [plain_dict(d) for d in dicts], plain_dict(kw)
    if how == "helpers":
        return None
    if how == "setitem":
        st = []
        for d in dicts + [kw]:
            for k, v in d:
                st = py_spec_apply(st, py_spec_call([[[k, v]]], []))
        return st
    return py_spec_call(dicts, kw)


def observed_dict(m):
    return [[k, ["H", str(v)] if isinstance(v, HTML) else ["S", str(v)]] for k, v in m.items()]


def materialise(a, objs, plains, notes, self_obj=None):
    """(the object to hand in, the same argument in plain form).  objs / plains: the arguments of the
    same call built so far (by position)"""
    k = a[0]
    if k == "d":
        return build_dict(a[1]), ["d", plain_dict(a[1])]
    if k == "o":
        cls = collections.OrderedDict if a[1] == "ordered" else TagAttrDictLike
        return cls(build_dict(a[2])), ["d", plain_dict(a[2])]
    if k == "a":
        r = safe_call(build_source, a[1], a[2], a[3])
        if r[0] != "ok":
            notes.append(("building a tag from supported values (%s) and taking its .attrs raises" % a[1],
                          {"source": a, "raised": repr(r)}))
            return {}, ["d", []]
        want = spec_source(a[1], a[2], a[3])
        if want is not None and items_of(r[1]) != want:
            notes.append(("the attributes of a tag built from supported values (%s) differ from the "
                          "specification [property-text oracle]" % a[1],
                          {"source": a, "has": items_of(r[1]), "expected": want}))
        return r[1], ["d", observed_dict(r[1])]
    if k == "r" and 0 <= a[1] < len(objs) and isinstance(objs[a[1]], dict):
        return objs[a[1]], plains[a[1]]
    if k == "t" and self_obj is not None:
        return self_obj, ["d", observed_dict(self_obj)]
    return {}, ["d", []]


def construct(via, args, kw):
    if via == "Tag":
        return Tag("div", *args, **kw)
    if via == "ws0":
        return Tag("div", *args, _add_ws=False, **kw)
    if via == "wrapper":
        return htmltools.div(*args, **kw)
    if via == "tags":
        return htmltools.tags.span(*args, **kw)
    if via == "TagAttrDict":
        return TagAttrDict(*[a for a in args if isinstance(a, dict)], **kw)
    raise ValueError(via)


def as_arg(a):
    """an element of an update's dict list: older files hold the bare dict"""
    return a if (a and isinstance(a[0], str)) else ["d", a]


PROBE = [["x", 0, "p q"]]


def impl_scenario(case, notes=None, more=False):
    """runs the scenario; `notes` (a list) receives (message, detail) for what the calls did to
    the caller's own argument objects, to other objects, and for what further observations (more=True:
    equality, every markup route) show.  Returns (construction and trace, the case in plain form)."""
    via = case.get("via", "Tag")
    src_notes = []
    args, plains = [], []
    for a in case["args"]:
        if a[0] == "c":
            args.append(None if via == "TagAttrDict" else child_obj(a[1]))
            plains.append(None if via == "TagAttrDict" else a)
        else:
            o, pa = materialise(a, args, plains, src_notes)
            args.append(o)
            plains.append(pa)
    args = [o for o in args if o is not None]
    kw = build_dict(case["kw"])
    plain = {"args": [pa for pa in plains if pa is not None], "kw": plain_dict(case["kw"]), "ops": []}
    mine = []                                                   # the caller's mappings, all calls so far
    targets = []                                                # attrs objects of the tag(s) operated on

    def own(ms):
        for m in ms:
            if isinstance(m, dict) and not any(m is x for x in mine) and not any(m is x for x in targets):
                mine.append(m)
                passed.append(snap(m))

    passed = []
    own(args + [kw])

    def intact(after_what):
        if notes is None or notes:
            return
        d = first_diff(passed, [snap(o) for o in mine])
        if d is not None:
            notes.append((after_what + " altered an attribute dict passed by the caller (the same "
                          "arguments must give the same attributes again)", d))

    r = safe_call(construct, via, args, kw)
    if notes is not None:
        notes.extend(src_notes)
    intact("construction")
    t = None
    if r[0] == "ok":
        if via == "TagAttrDict":
            A, kids = r[1], []
        else:
            t = r[1]
            A = t.attrs
            kids = [int(c[1:]) if isinstance(c, str) and c[:1] == "c" else -1 for c in t.children]
        cons = ["ok", items_of(A), kids]
        if notes is not None and not notes:
            if any(A is m for m in mine):
                notes.append(("the new tag's .attrs IS one of the caller's argument objects", None))
            # one set of argument objects, two tags
            r2 = safe_call(construct, via, args, kw)
            if r2[0] != "ok" or items_of(r2[1] if via == "TagAttrDict" else r2[1].attrs) != cons[1]:
                notes.append(("a second tag built from the very same argument objects gets other attributes",
                              {"first": cons[1], "second": repr(r2)}))
            intact("construction (second time)")
    else:
        cons = ["err", r[1]]
        t = Tag("div")
        A = t.attrs
    targets.append(A)
    originals = []
    trace = []
    used_with = False
    for o in case["ops"]:
        if o[0] == "u":
            ds, pds = [], []
            for a in o[1]:
                ob, pa = materialise(as_arg(a), ds, pds, src_notes, self_obj=A)
                ds.append(ob)
                pds.append(pa)
            okw = build_dict(o[2])
            own(ds + [okw])
            plain["ops"].append(["u", [pa[1] for pa in pds], plain_dict(o[2])])
            rr = safe_call(lambda: A.update(*ds, **okw))
        elif o[0] == "s":
            val = build_value(o[2])
            plain["ops"].append(["s", key_str(o[1]), plain_value(o[2])])

            def setit():
                A[key_str(o[1])] = val
            rr = safe_call(setit)
        else:                           # attributes stay as they are
            plain["ops"].append(["u", [], []])
            rr = ("ok", None)
            if t is not None and o[0] == "w":
                rr = safe_call(with_block, t)
                used_with = True
            elif t is not None and o[0] == "k":
                rr = safe_call({"copy": _copy.copy, "deepcopy": _copy.deepcopy, "tagify": Tag.tagify}[o[1]], t)
                if rr[0] == "ok":
                    originals.append((o[1], t, items_of(A)))
                    t = rr[1]
                    A = t.attrs
                    if any(A is x for x in targets):
                        if notes is not None:
                            notes.append(("%s of a tag shares the .attrs object with the original" % o[1], None))
                    targets.append(A)
        trace.append([items_of(A), 0 if rr[0] == "ok" else rr[1]])
        intact("update/assignment")
    if notes is not None:
        for n in src_notes:
            if n not in notes:
                notes.append(n)
    if notes is not None and not notes:
        for how, orig, was in originals:
            if items_of(orig.attrs) != was:
                notes.append(("updating the attributes of a %s of a tag changes the attributes of the original" % how,
                              {"original_had": was, "original_has": items_of(orig.attrs)}))
                break
    if notes is not None and not notes and more and t is not None and r[0] == "ok":
        observe_more(case, via, t, notes, eq=not used_with)
        intact("comparing / rendering the tag")
    if notes is not None and not notes:
        # the tag's attributes are those of the calls made: what the caller does to its own
        # dicts afterwards is not an update or item assignment
        now = items_of(A)
        for d in mine:
            d["zz_later"] = "1"
            d.pop(next(iter(d)))
        if items_of(A) != now:
            notes.append(("changing an argument dict after the call changes the tag's attributes "
                          "(only update / item assignment may)", {"before": now, "after": items_of(A)}))
    if notes is not None and not notes:
        # two more objects of each class in the same process: not influenced by anything before
        fresh = safe_call(lambda: [items_of(Tag("div").attrs), items_of(TagAttrDict()),
                                   items_of(Tag("div", {"x_": "p"}, x="q").attrs),
                                   items_of(consolidate_attrs()[0])])
        if fresh != ("ok", [[], [], PROBE, []]):
            notes.append(("after this scenario, Tag('div') / TagAttrDict() / Tag('div', {'x_': 'p'}, x='q') / "
                          "consolidate_attrs() do not have the attributes [] / [] / x='p q' / []",
                          {"got": repr(fresh)}))
    return [cons, trace], plain


NICE = re.compile(r"[a-z][a-z0-9-]*\Z")


class _Open(HTMLParser):
    def __init__(self):
        super().__init__(convert_charrefs=True)
        self.first = None

    def handle_starttag(self, tag, attrs):
        if self.first is None:
            self.first = (tag, [[k, v] for k, v in attrs])


def opening_tag(markup):
    p = _Open()
    p.feed(markup)
    p.close()
    return p.first


def observe_more(case, via, t, notes, eq=True):
    """further public observations of the final tag: equal to (==), and through every route rendered
    like, a tag built the same way from ONE plain dict holding the attributes it now has (that those are the
    right attributes is judged by the caller)"""
    final = items_of(t.attrs)
    kids = list(t.children)
    ref = safe_call(construct, via, [{k: v for k, v in t.attrs.items()}] + kids, {})
    if ref[0] != "ok" or items_of(ref[1].attrs) != final:
        notes.append(("a tag built from one plain dict holding another tag's attributes does not get those "
                      "attributes", {"attributes": final, "built": repr(ref)}))
        return
    ref = ref[1]
    # NOT compared when the tag (or the tag it is a copy of) was used as a with-block: on the unchanged
    # library such a tag keeps the hook it saved (Tag.prev_displayhook) and Tag.__eq__ compares every
    # instance field, so it is unequal to every tag that was not -- reported; not an attribute matter
    eq = safe_call(lambda: [t == ref, ref == t, t != ref]) if eq else ("ok", [True, True, False])
    if eq != ("ok", [True, True, False]):
        notes.append(("the tag does not compare equal (==) to a tag built from one plain dict holding the same "
                      "attributes and the same children", {"attributes": final, "==": repr(eq)}))
        return
    routes = trees.render_routes(t) + [("get_html_string(indent=3, eol=CRLF)",
                                        lambda: t.get_html_string(indent=3, eol="\r\n"))]
    routes_ref = trees.render_routes(ref) + [("", lambda: ref.get_html_string(indent=3, eol="\r\n"))]
    first = None
    for (n, f), (_, g) in zip(routes, routes_ref):
        x, y = safe_call(f), safe_call(g)
        if first is None and x[0] == "ok":
            first = x[1]
        if x != y:
            notes.append(("%s of the tag differs from that of a tag built from one plain dict holding the same "
                          "attributes and the same children" % n, {"attributes": final, "got": repr(x)[:2000],
                                                                     "reference": repr(y)[:2000]}))
            return
    if items_of(t.attrs) != final:
        notes.append(("comparing / rendering the tag changed its attributes",
                      {"before": final, "after": items_of(t.attrs)}))
    elif first is not None and all(m == 0 and NICE.match(n) for n, m, _ in final):
        got = safe_call(opening_tag, first)
        if got[0] != "ok" or got[1] is None or got[1][1] != [[n, v] for n, _, v in final]:
            notes.append(("the markup of the tag, read back with html.parser, does not carry the tag's "
                          "attributes in order", {"attributes": final, "markup": first[:2000], "parsed": repr(got)[:2000]}))


def dec_attrs(a):
    return [[unS(kv[0]), kv[1][0], unS(kv[1][1])] for kv in a]


def dec_tagres(m):
    if m[0] == 0:
        return ["ok", dec_attrs(m[1][0]), list(m[1][1])]
    return ["err", m[1]]


def dec_trace(t):
    return [[dec_attrs(r[0]), (r[1][0] if r[1] else 0)] for r in t]


# ---- independent Python transcription of the property text (no unsupported values) -------
def py_spec_name(x: str) -> str:
    body = x[:len(x) - 1] if x[-1:] == "_" else x       # one trailing underscore removed
    return "".join("-" if c == "_" else c for c in body)  # remaining underscores -> hyphens


ATTR_MAP = {"&": "&amp;", "<": "&lt;", ">": "&gt;", '"': "&quot;", "'": "&apos;",
            "\r": "&#13;", "\n": "&#10;"}


def py_attr_escape(s: str) -> str:
    return "".join(ATTR_MAP.get(c, c) for c in s)


def py_spec_value(v):
    """None/False dropped (returns None), True as empty string, numbers as text;
    returns (mark, text) with mark 1 for HTML"""
    k = v[0]
    if k == "N" or (k == "B" and not v[1]):
        return None
    if k == "B":
        return (0, "")
    if k == "I":
        return (0, str(int(v[1])))
    if k == "F":
        return (0, str(float(v[1])))
    if k == "H":
        return (1, v[1])
    assert k == "S"
    return (0, v[1])


def py_spec_call(dicts, kw):
    """all values given for the same normalised name within one call joined by single
    spaces in argument order (positional dicts left to right, then keywords), attributes
    ordered by first appearance.  If one of the values of a name is HTML the result is HTML
    and the plain ones are escaped as attribute text (so that what is finally written
    between the quotes is each plain value escaped once, each HTML value verbatim)."""
    pairs = []
    for d in list(dicts) + [kw]:
        for k, v in d:
            t = py_spec_value(v)
            if t is not None:
                pairs.append((py_spec_name(k), t))
    order = []
    for n, _ in pairs:
        if n not in order:
            order.append(n)
    out = []
    for n in order:
        vals = [t for m, t in pairs if m == n]
        if any(mark for mark, _ in vals):
            out.append([n, 1, " ".join(t if mark else py_attr_escape(t) for mark, t in vals)])
        else:
            out.append([n, 0, " ".join(t for _, t in vals)])
    return out


def py_spec_apply(state, new):
    """a later update or item assignment replaces rather than appends"""
    newd = {n: (m, t) for n, m, t in new}
    out = [[n, *newd[n]] if n in newd else [n, m, t] for n, m, t in state]
    have = {n for n, _, _ in state}
    out += [[n, m, t] for n, m, t in new if n not in have]
    return out


def py_spec_scenario(case):
    dicts = [a[1] for a in case["args"] if a[0] == "d"]
    kids = [a[1] for a in case["args"] if a[0] == "c"]
    st = py_spec_call(dicts, case["kw"])
    cons = ["ok", st, kids]
    trace = []
    for o in case["ops"]:
        if o[0] == "u":
            st = py_spec_apply(st, py_spec_call(o[1], o[2]))
        else:
            st = py_spec_apply(st, py_spec_call([[[o[1], o[2]]]], []))
        trace.append([st, 0])
    return [cons, trace]


# ---- argument snapshots -----------------------------------------------------------------------
def snap(x, depth=0):
    """typed, deep, JSON-able picture of an argument object (1, '1', 1.0 and True all differ;
    list / tuple / TagList differ), to decide whether a call altered its arguments"""
    if x is None:
        return ["None"]
    t = type(x).__name__
    if depth > 12:
        return [t, "..."]
    if isinstance(x, HTML):
        return [t, str(x)]
    if isinstance(x, (bool, int, float, str, bytes)):
        return [t, repr(x)]
    if isinstance(x, Tag):
        return [t, x.name, [[k, snap(v, depth + 1)] for k, v in x.attrs.items()],
                [snap(c, depth + 1) for c in x.children]]
    if isinstance(x, dict):
        return [t, [[snap(k, depth + 1), snap(v, depth + 1)] for k, v in x.items()]]
    if isinstance(x, (list, tuple, TagList)):
        return [t, [snap(c, depth + 1) for c in x]]
    if isinstance(x, (set, frozenset)):
        return [t, sorted(repr(e) for e in x)]
    return [t]


def first_diff(before, after):
    for i, (p, q) in enumerate(zip(before, after)):
        if p != q:
            return {"argument_no": i, "passed": p, "afterwards": q}
    return None


# ---- consolidate_attrs -----------------------------------------------------------------------
#   child ::= ["s", str] | ["h", str] | ["i", int] | ["f", "<float literal>"] | ["n"]
#           | ["t", name, dict, [child...]]                              (a Tag)
#           | ["l", [child...]] | ["p", [child...]] | ["L", [child...]]    (list / tuple / TagList)
#           | ["D", dict]          (an instance of a dict SUBCLASS: counts as attributes)
#   case  ::= {"args": [arg...], "kw": dict, "children": [child...]}   (arg ["c", i] is children[i])
#   (older replay files have "ckinds": [int...] instead of "children"; see legacy_shape)
class TagAttrDictLike(dict):
    pass


def legacy_shape(cid, kind):
    kind = kind % 9
    return [["s", "c%d" % cid],
            ["h", "<i>%d</i>" % cid],
            ["t", "span", [["class_", ["S", "k"]]], [["s", str(cid)]]],
            ["n"],
            ["i", cid],
            ["f", str(0.5 + cid)],
            ["l", [["s", "a%d" % cid], ["l", [["t", "b", [], []], ["n"]]], ["p", [["s", "t"]]]]],
            ["L", [["s", "l%d" % cid], ["t", "u", [], []]]],
            ["D", [["data_c", ["S", str(cid)]]]]][kind]


def child_shapes(case):
    if "children" in case:
        return case["children"]
    return [legacy_shape(i, k) for i, k in enumerate(case["ckinds"])]


def build_child(sh):
    k = sh[0]
    if k == "s":
        return sh[1]
    if k == "h":
        return HTML(sh[1])
    if k == "i":
        return int(sh[1])
    if k == "f":
        return float(sh[1])
    if k == "n":
        return None
    if k == "t":
        return Tag(sh[1], build_dict(sh[2]), *[build_child(c) for c in sh[3]])
    if k == "l":
        return [build_child(c) for c in sh[1]]
    if k == "p":
        return tuple(build_child(c) for c in sh[1])
    if k == "L":
        return TagList(*[build_child(c) for c in sh[1]])
    if k == "D":
        return TagAttrDictLike(build_dict(sh[1]))
    raise ValueError(sh)


def cons_dicts(pargs, shapes):
    """the attribute dicts of the call (plain form) in argument order (dict-subclass instances included)"""
    out = []
    for a in pargs:
        if a[0] == "d":
            out.append(a[1])
        elif shapes[a[1]][0] == "D":
            out.append(plain_dict(shapes[a[1]][1]))
    return out


def impl_consolidate(case):
    """returns (canonical for correspondence, [oracle message...], detail, the arguments in plain form)"""
    shapes = child_shapes(case)
    src_notes = []

    def build_args(notes):
        objs, plains = [], []
        for a in case["args"]:
            if a[0] == "c":
                o, pa = build_child(shapes[a[1]]), a
            else:
                o, pa = materialise(a, objs, plains, notes)
            objs.append(o)
            plains.append(pa)
        return objs, plains

    objs, pargs = build_args(src_notes)
    kw = build_dict(case["kw"])
    pkw = plain_dict(case["kw"])
    dicts = cons_dicts(pargs, shapes)
    is_pl = all(v[0] != "X" for d in dicts + [pkw] for _, v in d)
    non_dicts = [o for o in objs if not isinstance(o, dict)]
    passed = [snap(o) for o in objs] + [snap(kw)]
    msgs = list(src_notes)

    def args_intact(after_what):
        d = first_diff(passed, [snap(o) for o in objs] + [snap(kw)])
        if d is not None:
            which = "attribute dict" if (d["argument_no"] >= len(objs)
                                         or isinstance(objs[d["argument_no"]], dict)) else "non-dict"
            msgs.append(("%s altered one of the caller's %s arguments (the non-dict arguments come back "
                         "unchanged; the same arguments must build the same tag again)" % (after_what, which), d))
            return False
        return True

    r = safe_call(lambda: consolidate_attrs(*objs, **kw))
    intact = args_intact("consolidate_attrs")
    direct = safe_call(lambda: Tag("div", *objs, **kw))
    intact = intact and args_intact("Tag(...)")
    detail = {"impl_output": repr(r)[:3000], "expected": repr(direct)[:3000]}
    # the statement, transcribed: exactly the attributes of the call, plus the non-dict arguments
    want = py_spec_call(dicts, pkw) if is_pl else None
    if r[0] != "ok":
        canon = ["err", r[1]]
        if direct[0] == "ok" or direct[1] != r[1]:
            msgs.append(("consolidate_attrs raises but direct construction does not (or differently)", None))
        if want is not None:
            msgs.append(("consolidate_attrs raises on supported values [property-text oracle]", None))
        return canon, [m for m, _ in msgs], _detail(detail, msgs, want), (pargs, pkw)
    out = r[1]
    if not (isinstance(out, tuple) and len(out) == 2 and type(out[0]) is dict and type(out[1]) is list):
        return ["shape"], ["consolidate_attrs does not return (dict, list)"], {"impl_output": repr(out)[:2000]}, (pargs, pkw)
    attrs, children = out
    got_items = items_of(attrs)
    # k-th returned child must BE the k-th non-dict argument; the model names it by its id
    nd_ids = [a[1] for a in case["args"] if a[0] == "c" and shapes[a[1]][0] != "D"]
    if any(attrs is o for o in objs):
        msgs.append(("consolidate_attrs returns one of the caller's argument objects as the attribute dict", None))
    kids = [nd_ids[k] if k < len(non_dicts) and k < len(nd_ids) and c is non_dicts[k] else -1
            for k, c in enumerate(children)]
    canon = ["ok", got_items, kids]
    if want is not None and got_items != want:
        msgs.append(("consolidate_attrs does not return exactly the attributes of the call "
                     "(normalised, merged in argument order) [property-text oracle]", None))
    if direct[0] != "ok":
        msgs.append(("consolidate_attrs succeeds but direct construction raises", None))
        return canon, [m for m, _ in msgs], _detail(detail, msgs, want), (pargs, pkw)
    d = direct[1]
    if got_items != items_of(d.attrs):
        msgs.append(("consolidate_attrs attributes differ from those of the directly built tag", None))
    elif len(children) != len(non_dicts) or any(a is not b for a, b in zip(children, non_dicts)):
        msgs.append(("consolidate_attrs does not return the non-dict arguments unchanged", None))
    else:
        # a tag built directly from separately built, never used, equal arguments
        fresh = safe_call(lambda: Tag("div", *build_args([])[0], **build_dict(case["kw"])))
        rebuilt = safe_call(lambda: Tag("div", attrs, *children))
        if rebuilt[0] != "ok":
            msgs.append(("rebuilding a tag from consolidate_attrs' result raises", None))
        else:
            rb = rebuilt[1]
            if items_of(rb.attrs) != items_of(d.attrs):
                msgs.append(("tag rebuilt from consolidate_attrs' result has different attributes", None))
            elif not (rb == d) or str(rb) != str(d) or len(rb.children) != len(d.children):
                msgs.append(("tag rebuilt from consolidate_attrs' result differs from the directly built tag", None))
            elif fresh[0] != "ok" or not (rb == fresh[1]) or snap(rb) != snap(fresh[1]):
                msgs.append(("tag rebuilt from consolidate_attrs' result differs from a tag built directly "
                             "from equal, unused arguments", {"rebuilt": short(snap(rb)), "direct": repr(fresh)[:2000]}))
        if intact:
            args_intact("rebuilding from the result")
        # what was returned belongs to the caller: changing it must not show in a second call
        attrs["zz-changed"] = "1"
        del children[:]
        r2 = safe_call(lambda: consolidate_attrs(*objs, **kw))
        if intact:
            args_intact("changing the returned dict / list")
        if r2[0] != "ok" or items_of(r2[1][0]) != got_items or len(r2[1][1]) != len(non_dicts) \
                or any(a is not b for a, b in zip(r2[1][1], non_dicts)):
            msgs.append(("a second consolidate_attrs call with the same arguments (after the caller changed "
                         "the first result) returns something else", {"second": repr(r2)[:2000]}))
    return canon, [m for m, _ in msgs], _detail(detail, msgs, want), (pargs, pkw)


def _detail(detail, msgs, want):
    extra = [x for _, x in msgs if x is not None]
    if extra:
        detail = dict(detail, observed=extra[0])
    if want is not None:
        detail = dict(detail, expected_attrs=want)
    return detail


SCALAR_SHAPES = [["s", "a"], ["s", ""], ["s", "<&>"], ["h", "<b>x</b>"], ["i", 0], ["i", 1], ["i", -3],
                 ["i", 10 ** 21], ["f", "2.5"], ["f", "0.0"], ["f", "1e+22"], ["f", "3.0"]]


def rand_scalar(rng, none_p=0.0):
    if rng.random() < none_p:
        return ["n"]
    r = rng.random()
    if r < 0.45:                       # numbers: what a normalising callee would rewrite
        return ["i", rng.choice(INTS)] if rng.random() < 0.5 else ["f", rng.choice(FLOATS)]
    if r < 0.8:
        return ["s", rng.choice(["a", "b", "", "<", "1", "2.5"]) if rng.random() < 0.7 else trees.rand_text(rng, 4)]
    if r < 0.9:
        return ["h", rng.choice(["<i>h</i>", "", "&amp;"])]
    return ["t", rng.choice(["b", "span", "br"]), [], []]


def rand_child(rng, depth=0):
    """a non-dict argument: scalars, tags, and list / tuple / TagList containers that are empty,
    singletons, flat (numbers, strings, mixed), contain None, or nest"""
    r = rng.random()
    if depth >= 2 or r < 0.40:
        return rand_scalar(rng, none_p=0.15)
    if r < 0.52:
        kids = [rand_child(rng, depth + 1) for _ in range(rng.choice([0, 0, 1, 2, 3]))]
        return ["t", rng.choice(["span", "p", "b"]), rand_dict(rng, 2, 0.0) if rng.random() < 0.5 else [], kids]
    kind = rng.choice(["l", "l", "l", "l", "p", "p", "L"])
    n = rng.choice([0, 1, 1, 2, 2, 3, 4, 6])
    style = rng.random()
    if style < 0.55:                   # flat, nothing to drop
        return [kind, [rand_scalar(rng) for _ in range(n)]]
    if style < 0.75:                   # flat with None
        return [kind, [rand_scalar(rng, none_p=0.3) for _ in range(n)]]
    return [kind, [rand_child(rng, depth + 1) for _ in range(n)]]


def rand_cons_case(rng, bad_p=0.04, dictsub_p=0.0, flav_p=0.0):
    args, children = [], []

    def child():
        sh = ["D", rand_dict(rng, 3, bad_p)] if rng.random() < dictsub_p else rand_child(rng)
        args.append(["c", len(children)])
        children.append(sh)

    if rng.random() < 0.3:             # exactly one non-dict argument among any number of dicts
        nd = rng.choice([0, 0, 1, 1, 2, 3])
        pos = rng.randrange(0, nd + 1)
        for i in range(nd + 1):
            if i == pos:
                child()
            else:
                args.append(["d", rand_dict(rng, bad_p=bad_p)])
    else:
        for _ in range(rng.choice([0, 1, 2, 2, 3, 4, 5])):
            if rng.random() < 0.55:
                args.append(["d", rand_dict(rng, bad_p=bad_p)])
            else:
                child()
    kw = rand_dict(rng, bad_p=bad_p) if rng.random() < (0.4 if flav_p else 0.7) else []
    if rng.random() < flav_p:
        args = flavour_args(rng, args)
    return {"args": args, "kw": kw, "children": children}


SMALL_CHILDREN = [["s", "a"], ["i", 1], ["f", "2.5"], ["n"], ["h", "<b>"], ["t", "b", [], []],
                  ["t", "p", [["x_", ["I", 1]]], [["i", 2]]],
                  ["l", []], ["l", [["i", 1]]], ["l", [["i", 1], ["f", "2.5"]]], ["l", [["s", "a"], ["s", "b"]]],
                  ["l", [["i", 1], ["n"]]], ["l", [["l", [["i", 1]]]]], ["l", [["t", "b", [], []], ["i", 3]]],
                  ["l", [["h", "<b>"], ["f", "0.0"]]],
                  ["p", []], ["p", [["i", 1], ["i", 2]]], ["p", [["f", "2.5"]]],
                  ["L", []], ["L", [["i", 1]]], ["L", [["s", "a"], ["f", "2.5"]]],
                  ["D", [["x_", ["I", 1]]]], ["D", []]]


def small_cons_cases():
    """every one of SMALL_CHILDREN alone and every ordered pair of them, with attribute dicts
    before / after / around / absent, with and without keywords"""
    d1, d2 = ["d", [["x", ["S", "p"]], ["a_b", ["I", 0]]]], ["d", [["x_", ["F", "2.5"]]]]
    out = []
    for kw in ([], [["x__", ["S", "k"]], ["id", ["S", "i"]]]):
        for c in SMALL_CHILDREN:
            for args in ([["c", 0]], [d1, ["c", 0]], [["c", 0], d2], [d1, ["c", 0], d2], [d1, d2, ["c", 0]]):
                out.append({"args": args, "kw": kw, "children": [c]})
        for c, e in itertools.product(SMALL_CHILDREN, repeat=2):
            for args in ([["c", 0], ["c", 1]], [d1, ["c", 0], d2, ["c", 1]]):
                out.append({"args": args, "kw": kw, "children": [c, e]})
    return out


def check_consolidate(ctx: Ctx, name: str, cases: list, kind: str) -> None:
    """oracle on every case; correspondence with the model on those inside its domain
    (no dict-subclass instances among the non-dict shapes).  Implementation first: that yields the plain
    form of the arguments (see impl_scenario)"""
    runs = [(c, impl_consolidate(c)) for c in cases]
    inside = [(c, r) for c, r in runs if all(sh[0] != "D" for sh in child_shapes(c))]
    mo = run_model([[3, args_sx(r[3][0]), dict_sx(r[3][1])] for _, r in inside], driver="c15") if inside else []
    model_of = {id(c): m for (c, _), m in zip(inside, mo)}
    dis = []
    for c, (canon, msgs, detail, _) in runs:
        ctx.count(("consolidate", c), True, kind if id(c) in model_of else kind + " (dict subclass args)")
        for msg in msgs:
            ctx.violation("consolidate_attrs: " + msg, c, detail)
        m = model_of.get(id(c))
        if m is None:
            continue
        if isinstance(m, tuple) or m == [999999, 999999]:
            dis.append({"case": c, "impl_output": short(canon), "model_output": repr(m)[:2000]})
            continue
        mv = dec_tagres(m[0])
        # the model's rebuilt tag and direct tag must agree with its consolidate (theorem;
        # checked here on the extracted code as a sanity check of the extraction)
        if mv != canon or dec_tagres(m[1]) != mv or dec_tagres(m[2]) != mv:
            dis.append({"case": c, "impl_output": short(canon),
                        "model_output": short([mv, dec_tagres(m[1]), dec_tagres(m[2])])})
    if inside:
        ctx.corr_cases += len(inside)
        ctx.obligation(f"correspondence {name} ({len(inside)} cases)", not dis)
    if dis:
        dis.sort(key=lambda d: len(json.dumps(d["case"])))
        ctx.extra.setdefault("disagree_consolidate", []).extend(dis[:3])


# ------------------------------------------------------------------------------------------------
def check_scenarios(ctx: Ctx, name: str, cases: list, more_every: int = 16) -> None:
    """implementation first (that also yields each case's plain form: mapping objects other than plain
    dicts are replaced by what they held when handed in), then model and specifications on the plain form"""
    runs = []
    for i, c in enumerate(cases):
        notes = []
        fl = is_flavoured(c)
        # equality and every markup route: all sized cases, every fourth of those with other mapping objects /
        # entry points, every more_every-th of the rest
        iv, pc = impl_scenario(c, notes, more=c.get("more", False) or i % (min(4, more_every) if fl else more_every) == 0)
        runs.append((c, pc, iv, notes, fl))
    model_out = run_model([[1, args_sx(pc["args"]), dict_sx(pc["kw"]), [op_sx(o) for o in pc["ops"]]]
                           for _, pc, _, _, _ in runs], driver="c15")
    disagreements = []
    for (c, pc, iv, notes, fl), m in zip(runs, model_out):
        ctx.count(c, nontrivial(pc), case_kind(pc) + (", mapping objects other than plain dicts / other "
                                                      "entry points" if fl else ""))
        for what, d in notes:
            ctx.violation(what, c, {"impl_output": short(iv), "observed": d})
        if isinstance(m, tuple) or m == [999999, 999999]:
            disagreements.append({"case": c, "impl_output": short(iv), "model_output": repr(m)[:2000]})
            continue
        mv = [dec_tagres(m[0]), dec_trace(m[1])]
        sv = [dec_tagres(m[2]), dec_trace(m[3])]
        if mv != iv:
            disagreements.append({"case": c, "impl_output": short(iv), "model_output": short(mv)})
        # step C: Coq specification (all value kinds)
        if sv != iv:
            ctx.violation(spec_diff_message(c, iv, sv), c, {"impl_output": short(iv), "expected": short(sv)})
        # step C: Python transcription of the property text (str / HTML / numbers / bool / None)
        if is_plain(pc):
            pv = py_spec_scenario(pc)
            if pv != iv:
                ctx.violation(spec_diff_message(c, iv, pv) + " [property-text oracle]", c,
                              {"impl_output": short(iv), "expected": short(pv)})
    ctx.corr_cases += len(cases)
    ctx.obligation(f"correspondence {name} ({len(cases)} cases, compared after every step)",
                   not disagreements)
    if disagreements:
        disagreements.sort(key=lambda d: len(json.dumps(d["case"])))
        ctx.extra.setdefault("disagreements", []).extend(disagreements[:3])
        ctx.extra[f"disagree_{name}"] = disagreements[:3]


def short(x, n=400):
    """long strings inside a reported value cut to head ... tail (the case itself is kept compact by
    its own notation)"""
    if isinstance(x, str):
        return x if len(x) <= n else x[:n // 2] + "...[%d characters]..." % len(x) + x[-n // 2:]
    if isinstance(x, (list, tuple)):
        if len(x) > 40:
            return [short(y, n) for y in x[:20]] + ["...[%d items]..." % len(x)] + [short(y, n) for y in x[-20:]]
        return [short(y, n) for y in x]
    if isinstance(x, dict):
        return {k: short(v, n) for k, v in x.items()}
    return x


# ---- sizes ------------------------------------------------------------------------------------
THRESHOLDS = [7, 8, 9, 15, 16, 17, 31, 32, 33, 63, 64, 65, 127, 128, 129, 255, 256, 257, 300]
SPELL = ["x", "x_", "x", "x_"]          # one normalised name; within one dict each raw key once
TAILS = [["H", "<l&\">"], ["S", "l\"<&'"], ["N"], ["B", False], ["B", True], ["I", 0], ["F", "0.0"], ["S", ""]]


def sized_case(rng, what, n):
    """a scenario in which `what` is counted up to n, with the part that matters (an HTML value that turns
    the merged value into HTML, a dropped value, a colliding spelling, a replaced name) in the LAST item"""
    tail = rng.choice(TAILS)
    c = {"args": [], "kw": [], "ops": [], "more": True}
    if what in ("dicts", "merged"):
        # n positional dicts, every one with a value for x (and sometimes more); "merged": all of one
        # flavour and no keywords, so that n values are merged into one attribute by one call
        for i in range(n):
            d = [[SPELL[i % 4], ["S", "v%d" % i]]]
            if i % 5 == 2:
                d.append(["a_b" if i % 2 else "a-b", ["I", i]])
            c["args"].append(["d", d])
        c["args"][-1] = ["d", [["x_", tail], ["last_", ["I", 0]]]]
        if what == "dicts":
            if rng.random() < 0.5:
                c["kw"] = [["x", ["S", "kw"]], ["x_", ["H", "&amp;"]]]
            if rng.random() < 0.6:
                c["args"] = flavour_args(rng, c["args"], policy="mix")
            c["via"] = rng.choice(VIAS)
        else:
            c["args"] = flavour_args(rng, c["args"], policy=rng.choice(["all-a", "all-o", "all-d"]))
        c["ops"] = [["s", "x", ["S", "z"]]] if rng.random() < 0.3 else []
    elif what == "attrs":
        # one dict with n names; a second argument collides with the last and the last but one
        d = [["k%d_" % i if i % 3 else "k_%d" % i, ["S", "v%d" % i]] for i in range(n)]
        last, prev = d[-1][0], d[-2][0]
        c["args"] = [["d", d], ["d", [[py_spec_name(last), tail], [prev + "_" if not prev.endswith("_") else prev[:-1], ["I", 1]]]]]
        if rng.random() < 0.5:
            c["args"] = flavour_args(rng, c["args"])
        c["ops"] = [["u", [[[py_spec_name(last), ["S", "new"]]]], [["k1", ["N"]]]], ["s", d[n // 2][0], ["B", True]]]
    elif what == "update":
        # one update with n dicts for a tag that already has x
        c["args"] = [["d", [["x", ["S", "old"]], ["y", ["S", "keep"]]]]]
        ds = [["d", [[SPELL[i % 4], ["S", "u%d" % i]]]] for i in range(n)]
        ds[-1] = ["d", [["x_", tail], ["y_", tail]]]
        if rng.random() < 0.6:
            ds = flavour_args(rng, ds, self_ok=True)
        c["ops"] = [["u", ds, [] if rng.random() < 0.5 else [["x", ["S", "kw"]]]],
                    ["u", [ds[-1]], []]]
    elif what == "ops":
        # a history of n operations on a handful of names
        c["args"] = [["d", [["x", ["S", "0"]]]]]
        for i in range(n):
            r = rng.random()
            if r < 0.5:
                c["ops"].append(["s", rng.choice(["x", "x_", "x__", "y_", "a_b"]), rand_value(rng, 0.03)])
            elif r < 0.9:
                c["ops"].append(["u", [rand_dict(rng, 2, 0.03) for _ in range(rng.choice([1, 1, 2]))],
                                 rand_dict(rng, 2, 0.03) if rng.random() < 0.4 else []])
            else:
                c["ops"].append(rng.choice([["w"], ["k", "copy"], ["k", "deepcopy"], ["k", "tagify"], ["u", [["t"]], []]]))
        c["ops"].append(["u", [[["x", ["S", "a"]]], [["x_", tail]]], []])
    elif what == "children":
        # n arguments: children and dicts interleaved
        for i in range(n):
            c["args"].append(["c", i // 2] if i % 2 == 0 else ["d", [[SPELL[(i // 2) % 4], ["S", "v%d" % i]]]])
        c["args"].append(["d", [["x", tail]]])
        c["args"].append(["c", n // 2 + 1])
        if rng.random() < 0.5:
            c["args"] = flavour_args(rng, c["args"])
    elif what == "kw":
        c["args"] = [["d", [["k%d" % (n - 1), ["S", "first"]]]]]
        c["kw"] = [["k%d_" % i, ["S", "v%d" % i]] for i in range(n - 1)] + [["k%d_" % (n - 1), tail]]
    elif what == "tokens":
        # class tokens: values that are themselves n space separated words are merged as they are
        words = " ".join("t%d" % i for i in range(n))
        c["args"] = [["d", [["class_", ["S", words]]]], ["d", [["class", ["S", "  two  spaces "]]]]]
        c["kw"] = [["class_", tail]]
        if rng.random() < 0.5:
            c["args"] = flavour_args(rng, c["args"], policy="all-a")
    else:
        raise ValueError(what)
    return c


def long_cases(rng, n):
    """names and values of about n characters, what matters at the very end"""
    j = rng.randrange(0, 7)
    lv = ["LS", "ab c", (n + j) // 4, "<\"&z"]
    lh = ["LH", "&amp;b ", (n + j) // 7, "<i>\""]
    ln = ["L", "n_", (n + j) // 2, "_"]               # every underscore a hyphen, the last one removed
    ln2 = ["L", "n-", (n + j) // 2, ""]               # the same normalised name
    out = [
        {"args": [["d", [["x", lv]]], ["d", [["x_", ["H", "<b>"]]]]], "kw": [["x", lv]], "ops": [["s", "x", lv]]},
        {"args": [["d", [["x", ["S", "p\""]], ["y", lh]]], ["a", "Tag", [[["x", lh]]], [["y", lv]]]], "kw": [],
         "ops": [["u", [[["y_", lv]]], [["y", ["S", "<"]]]]]},
        {"args": [["d", [[ln, ["S", "1"]]]], ["d", [[ln2, ["S", "2"]], ["x", ["B", True]]]]], "kw": [],
         "ops": [["s", ln, ["S", "3"]], ["u", [[[ln2, lv]]], []]]},
        {"args": [["a", "copy", [[["x", lv]]], []], ["a", "setitem", [[["x_", ["S", "s"]]]], []], ["r", 0]], "kw": [],
         "ops": [["u", [["t"]], []], ["u", [["t"], [["x_", ["S", "\"end"]]]], []]]},
    ]
    if n > 20000:       # every long string once: the model's answer repeats the state after every step
        out = [{"args": [["d", [["x", lv]]], ["d", [["x_", ["H", "<b>"]]]]], "kw": [], "ops": []},
               {"args": [["d", [[ln, ["S", "1"]]]], ["d", [[ln2, ["S", "2\""]], ["x", ["B", True]]]]], "kw": [], "ops": []},
               {"args": [["a", "Tag", [[["x", lh]]], []], ["a", "copy", [], [["x_", ["S", "p\""]]]]], "kw": [], "ops": []}]
    for c in out:
        c["more"] = True
    return out


def cons_of(c, n_children):
    """the arguments of a scenario as a consolidate_attrs case: its own child arguments where they are, or
    (if it has none) n_children non-dict arguments after the dicts"""
    ids = [a[1] for a in c["args"] if a[0] == "c"]
    args = list(c["args"])
    if not ids:
        ids = list(range(n_children))
        args += [["c", i] for i in ids]
    return {"args": args, "kw": c["kw"], "children": [["s", "c%d" % i] if i % 7 else ["l", [["i", i], ["n"]]]
                                                     for i in range(max(ids) + 1 if ids else 0)]}


# ---- HTMLDocument(**kwargs): attributes of <html> -------------------------------------------------
#   case ::= {"doc": "plain" | "html", "kw": dict, "own": [dict...] (attributes of the user's <html> tag),
#             "route": "render" | "render_args" | "save_html"}
def rand_doc_case(rng):
    kw = [kv for kv in rand_dict(rng, 5, 0.0)]
    if rng.random() < 0.5:
        kw = [["lang", ["S", rng.choice(["en", "de-CH", "a\"b"])]], ["class_", rand_value(rng, 0.0)],
              ["style", rand_value(rng, 0.0)]] + [kv for kv in kw if kv[0] not in ("lang", "class_", "style")]
    c = {"doc": rng.choice(["plain", "plain", "html"]), "kw": kw, "own": [],
         "route": rng.choice(["render", "render", "render_args", "save_html"])}
    if c["doc"] == "html":
        c["own"] = [rand_dict(rng, 3, 0.0) for _ in range(rng.choice([0, 1, 2]))]
    return c


def check_doc(ctx: Ctx, c) -> None:
    ctx.count(("doc", c), True, "HTMLDocument(**kwargs)")
    kw = build_dict(c["kw"])
    if c["doc"] == "html":
        root = safe_call(lambda: htmltools.tags.html(*[build_dict(d) for d in c["own"]], htmltools.tags.body("b")))
        if root[0] != "ok":
            return
        root = root[1]
        content = [root]
        want = py_spec_apply(py_spec_call([plain_dict(d) for d in c["own"]], []), py_spec_call([], plain_dict(c["kw"])))
        clause = ("the <html> tag written by HTMLDocument(<html>..., **kwargs) does not have the user's tag's "
                  "attributes updated with the keyword attributes (update replaces) [property-text oracle]")
    else:
        root = None
        content = [htmltools.div("b")]
        want = py_spec_call([], plain_dict(c["kw"]))
        clause = ("the <html> tag written by HTMLDocument(..., **kwargs) does not have exactly the keyword "
                  "attributes, normalised and merged [property-text oracle]")
    before = [snap(kw), snap(root)]

    def go():
        doc = HTMLDocument(*content, **kw)
        if c["route"] == "render":
            return doc.render()["html"]
        if c["route"] == "render_args":
            return doc.render(lib_prefix=None, include_version=False)["html"]
        with tempfile.TemporaryDirectory() as td:
            f = os.path.join(td, "index.html")
            doc.save_html(f, libdir=None, include_version=False)
            with open(f, encoding="utf-8", newline="") as fh:
                return fh.read()
    got = safe_call(go)
    # how a tag with exactly these attributes starts, as the library writes it
    ref = safe_call(lambda: Tag("html", {n: (HTML(v) if m else v) for n, m, v in want}).get_html_string())
    if ref[0] != "ok" or not ref[1].endswith("></html>"):
        return
    opening = ref[1][:-len("</html>")]
    if got[0] != "ok" or opening not in got[1][:len(opening) + 64]:
        ctx.violation(clause, c, {"impl_output": repr(got)[:1500], "expected": opening, "expected_attrs": want})
    elif [snap(kw), snap(root)] != before:
        ctx.violation("HTMLDocument(..., **kwargs) rendering altered the caller's keyword values or <html> tag", c,
                      {"impl_output": short([snap(kw), snap(root)]), "expected": short(before)})


def spec_diff_message(c, iv, sv) -> str:
    if iv[0] != sv[0]:
        if iv[0][0] != sv[0][0]:
            return "construction: exception behaviour differs from the specification"
        if iv[0][0] == "ok" and [x[0] for x in iv[0][1]] != [x[0] for x in sv[0][1]]:
            return "construction: attribute names / order differ from the specification"
        if iv[0][0] == "ok" and iv[0][2] != sv[0][2]:
            return "construction: children are not the non-dict arguments"
        return "construction: attribute values differ from the specification (merge / normalisation)"
    for (ia, ie), (sa, se) in zip(iv[1], sv[1]):
        if ie != se:
            return "update/assignment: exception behaviour differs from the specification"
        if ia != sa:
            if [x[0] for x in ia] != [x[0] for x in sa]:
                return "update/assignment: names / order differ (replace-in-place, append new)"
            return "update/assignment: stored value differs from the specification (the call's own merged value must replace the stored one)"
    return "trace differs from the specification"


def run(ctx: Ctx) -> None:
    rng = ctx.rng
    ctx.rule = ("scenario = Tag('div', positional dicts and children mixed, keywords) followed by a random "
                "sequence of attrs.update(*dicts, **kw) / attrs[k] = v; raw names drawn from colliding "
                "spellings (x x_ x__ a_b a-b a_b_ class_ class _x -x '' _ __ ...) and random strings over "
                "_ - a x; values None, True, False, ints (0, 1, ...), floats, str (metacharacters), HTML, and "
                "unsupported objects (list, object, dict, tuple, bytes, Tag, frozenset). The attribute item "
                "list with str/HTML marks and the exception kind are compared after every step. Plus name "
                "normalisation on all strings up to length 5 over {_,-,a,x}; bounded-exhaustive constructions "
                "(two (name, value) pairs over 6 names x 10 values in three placements, thorough: followed by "
                "every one of 8 follow-up operations); consolidate_attrs on random argument lists whose "
                "non-dict arguments are scalars (str, HTML, int, float, None), tags, and list / tuple / TagList "
                "containers that are empty, singletons, flat (numbers, strings, mixed), contain None, or nest, "
                "with exactly one non-dict argument among the dicts in 30% of the cases, dict-subclass arguments, "
                "and every one / every ordered pair of 23 small non-dict shapes in 5 + 2 placements; its result "
                "is judged against the property-text transcription, against direct construction from the same "
                "and from separately built equal arguments, and by a second call after the caller changed the "
                "first result. Every call (Tag, update, consolidate_attrs) is also observed through the "
                "caller's own argument objects: a typed deep snapshot taken before must equal one taken after, "
                "and changing an argument dict after the call must not change the tag. "
                "Every attribute dict may also be handed in as another kind of mapping object: the .attrs of another "
                "tag (an exact TagAttrDict, obtained from Tag / a wrapper / TagAttrDict() / copy / deepcopy / tagify / "
                "a tag used as a with-block / item assignment / the class and style helpers), the dict returned by "
                "consolidate_attrs, an OrderedDict or user dict subclass, the same object twice in one call, or (in "
                "update) the tag's own .attrs -- all of one kind with and without keywords, or mixed; the model and "
                "the specifications get the plain dict of what the object held when handed in. Tags are built through "
                "Tag, Tag(_add_ws=False), htmltools.div, tags.span and TagAttrDict(); histories also contain with-blocks "
                "and copy / deepcopy / tagify steps (continue on the copy, original unchanged). After every scenario "
                "fresh objects (Tag('div'), TagAttrDict(), a fixed merge, consolidate_attrs()) must be uninfluenced and a "
                "second tag from the same argument objects must get the same attributes; on a subset the final tag must "
                "== and render (all routes of trees.render_routes, get_html_string(indent=3, eol=CRLF)) like a tag built "
                "from one plain dict with the same attributes, and its opening tag read back by html.parser carries them. "
                "Sizes: 7,8,9,...,255,256,257,300 positional dicts / attributes of one dict / values merged into one "
                "attribute / dicts of one update / operations / interleaved children / keywords / class tokens, with the "
                "decisive item last; names and values of 300, 5000 and 70000 characters with the decisive part at the end. "
                "HTMLDocument(**kwargs) (render with default and non-default arguments, save_html): the <html> tag has "
                "the keyword attributes (a user's <html> root: updated with them). "
                "A scenario is non-trivial when two values share a normalised name "
                "or an operation follows; distinct = distinct canonical case descriptions.")
    ctx.assumptions = [
        "the extracted OCaml model behaves as the Gallina model (ExtrOcamlBasic only)",
        "numbers: Python's own str(x) is handed to the model (number formatting is not modelled)",
        "dict arguments have str keys; keyword names exclude Tag's own parameters (_add_ws, _name) and self",
        "children are opaque to this model (what TagList does with them is C14)",
    ]
    ctx.proof()

    # ---- corpus (runs first) ------------------------------------------------------------
    corpus = []
    cdir = os.path.join(VERIF, "corpus", "C15")
    if os.path.isdir(cdir):
        for fn in sorted(os.listdir(cdir)):
            if fn.endswith(".json"):
                with open(os.path.join(cdir, fn), encoding="utf-8") as f:
                    j = json.load(f)
                corpus += j if isinstance(j, list) else [j]
    if corpus:
        check_scenarios(ctx, "corpus scenarios", corpus)

    # ---- 1. names --------------------------------------------------------------------------
    names = list(NAMES)
    for n in range(0, 6):
        names += ["".join(t) for t in itertools.product("_-ax", repeat=n)]
    names += [trees.rand_text(rng, 6) + rng.choice(["", "_", "__", "_x"]) for _ in range(ctx.budget(500, 5000))]
    mo = run_model([[2, S(n)] for n in names], driver="c15")
    bad = []
    for n, m in zip(names, mo):
        ctx.count(("name", n), "_" in n, "name")
        iv = TagAttrDict._normalize_attr_name(n)
        via_tag = list(Tag("div", **{n: "v"}).attrs.keys()) if n not in ("_add_ws", "_name") else [iv]
        if [unS(m[0])] != [iv] or via_tag != [iv]:
            bad.append({"case": n, "impl_output": [iv, via_tag], "model_output": unS(m[0])})
        want = py_spec_name(n)
        if iv != want or unS(m[1]) != want or via_tag != [want]:
            ctx.violation("name normalisation is not: one trailing underscore removed, remaining "
                          "underscores turned into hyphens", n, {"impl_output": [iv, via_tag], "expected": want})
    ctx.corr_cases += len(names)
    ctx.obligation(f"correspondence _normalize_attr_name ({len(names)} names)", not bad)
    if bad:
        ctx.extra["disagree_names"] = bad[:3]

    # ---- 2. random scenarios ---------------------------------------------------------------
    cases = [rand_case(rng) for _ in range(ctx.budget(12000, 120000))]
    cases += [rand_case(rng, plain=True) for _ in range(ctx.budget(6000, 60000))]
    cases += [rand_case(rng, bad_p=0.3) for _ in range(ctx.budget(1500, 15000))]   # malformed stream
    check_scenarios(ctx, "Tag(...) then update/setitem sequences", cases)
    # the same, with the attribute dicts handed in as other mapping objects (other tags' .attrs, dict
    # subclasses, one object twice, the tag's own .attrs), through the other entry points, and with
    # copies / with-blocks as steps of the history
    cases = [rand_case(rng, flav_p=0.85) for _ in range(ctx.budget(3200, 30000))]
    cases += [rand_case(rng, bad_p=0.25, flav_p=0.85) for _ in range(ctx.budget(300, 3000))]
    check_scenarios(ctx, "other mapping objects as attribute dicts, other entry points", cases)

    # ---- 3. bounded-exhaustive small scope -----------------------------------------------------
    xn = ["x", "x_", "x__", "a_b", "a-b", "_"]
    xv = [["N"], ["B", True], ["B", False], ["I", 0], ["I", 1], ["F", "2.5"], ["S", 'a"<'],
          ["S", ""], ["H", "<h>"], ["X", "list"]]
    pairs = [[n, v] for n in xn for v in xv]
    follow = [[],
              [["u", [[["x", ["S", "new"]]]], []]],
              [["u", [], [["x_", ["N"]], ["a_b", ["S", "k"]]]]],
              [["u", [[["x", ["S", "p"]]], [["x_", ["H", "q"]]]], [["x__", ["X", "object"]]]]],
              [["s", "x_", ["I", 0]]],
              [["s", "a_b", ["B", False]]],
              [["s", "zz_", ["B", True]], ["s", "x", ["X", "list"]]],
              [["u", [[["zz", ["S", "1"]], ["x", ["S", "2"]]]], [["zz_", ["S", "3"]]]]]]
    small = []
    fl = follow if not ctx.quick else follow[:1]
    for p, q in itertools.product(pairs, repeat=2):
        for place in (0, 1, 2):
            if place == 0:
                if p[0] == q[0]:
                    continue
                args, kw = [["d", [p, q]]], []
            elif place == 1:
                args, kw = [["d", [p]], ["c", 0], ["d", [q]]], []
            else:
                args, kw = [["d", [p]]], [q]
            for f in fl:
                small.append({"args": args, "kw": kw, "ops": f})
    # both pairs as the .attrs of two other tags and nothing else; the first one twice
    for p, q in itertools.product([x for x in pairs if x[1][0] != "X"], repeat=2):
        how = SRC_HOWS[(len(small) // 7) % len(SRC_HOWS)]
        if len(small) % 2:
            small.append({"args": [["a", how, [[p]], []], ["a", "Tag", [], [q]]], "kw": [], "ops": fl[len(small) % len(fl)]})
        else:
            small.append({"args": [["a", how, [[p]], []], ["c", 0], ["o", "ordered", [q]], ["r", 0]], "kw": [], "ops": []})
    if ctx.quick:
        small = [c for i, c in enumerate(small) if i % 3 == ctx.seed % 3]
        for f in follow[1:]:
            for _ in range(150):
                p, q = rng.choice(pairs), rng.choice(pairs)
                small.append({"args": [["d", [p]]], "kw": [q], "ops": f})
    check_scenarios(ctx, "bounded-exhaustive two-pair constructions", small)

    # ---- 4. consolidate_attrs -------------------------------------------------------------------
    small_c = small_cons_cases()
    if ctx.quick:        # all one-child cases, a third of the two-children ones
        small_c = [c for i, c in enumerate(small_c) if len(c["children"]) == 1 or i % 3 == ctx.seed % 3]
    check_consolidate(ctx, "consolidate_attrs, small scope (one / two non-dict arguments of every shape)",
                      small_c, "consolidate_attrs (small scope)")
    check_consolidate(ctx, "consolidate_attrs", [rand_cons_case(rng) for _ in range(ctx.budget(3000, 50000))],
                      "consolidate_attrs")
    # dict-subclass arguments are outside the model's domain: oracle only
    check_consolidate(ctx, "consolidate_attrs (some dict-subclass args)",
                      [rand_cons_case(rng, dictsub_p=0.3) for _ in range(ctx.budget(400, 6000))],
                      "consolidate_attrs")
    check_consolidate(ctx, "consolidate_attrs (other mapping objects as attribute dicts)",
                      [rand_cons_case(rng, flav_p=0.9) for _ in range(ctx.budget(800, 10000))],
                      "consolidate_attrs (other mapping objects)")

    # ---- 5. sizes: counts just below / at / above 8 ... 256 and 300; long names and values ------------
    kinds = ["dicts", "merged", "attrs", "update", "ops", "children", "kw", "tokens"]
    sized = []
    for rep_ in range(ctx.budget(1, 4)):
        for i, n in enumerate(THRESHOLDS):
            for j, what in enumerate(kinds):
                # quick: every count for "merged" and "dicts", for the others every third count (rotating
                # with the seed), 300 always
                if ctx.quick and j >= 2 and n != 300 and (i + j + ctx.seed) % 3:
                    continue
                sized.append(sized_case(rng, what, n))
    for n in (300, 5000, 70000):
        sized += long_cases(rng, n)
    check_scenarios(ctx, "sizes (counts around 8 ... 256, 300; strings of 300, 5000, 70000 characters)", sized)
    big_cons = [cons_of(sized_case(rng, what, n), n) for what in ("dicts", "merged", "children", "kw")
                for n in (THRESHOLDS if not ctx.quick else THRESHOLDS[ctx.seed % 3::3] + [300])]
    big_cons += [cons_of(c, 3) for c in long_cases(rng, 5000)[:2] + long_cases(rng, 70000)[::2]]
    check_consolidate(ctx, "consolidate_attrs, sizes", big_cons, "consolidate_attrs (sizes)")

    # ---- 6. HTMLDocument(**kwargs) ----------------------------------------------------------------------
    for _ in range(ctx.budget(400, 4000)):
        check_doc(ctx, rand_doc_case(rng))
    for badchild in (object(), b"x", {1, 2}):
        r = safe_call(lambda: consolidate_attrs({"a": 1}, badchild, b=2))
        d = safe_call(lambda: Tag("div", {"a": 1}, badchild, b=2))
        ctx.count(("consolidate-badchild", repr(type(badchild))), True, "consolidate_attrs (invalid child)")
        if (r[0], r[1] if r[0] == "err" else None) != (d[0], d[1] if d[0] == "err" else None):
            ctx.violation("consolidate_attrs: invalid child handled differently from direct construction",
                          repr(badchild), {"impl_output": repr(r), "expected": repr(d)})

    # ---- recorded observation: the mixed str/HTML merge as rendered (judged by C03) ------------------
    t = safe_call(lambda: Tag("div", {"class": 'a"b'}, class_=HTML("x")).get_html_string())
    ctx.extra["observation_mixed_merge_render"] = {
        "input": "Tag('div', {'class': 'a\"b'}, class_=HTML('x'))", "rendered": t[1] if t[0] == "ok" else repr(t),
        "note": "plain operand of a str/HTML merge is escaped with the ATTRIBUTE table before merging "
                "(repaired TagAttrDict.update); expected <div class=\"a&quot;b x\"></div>; judged by C03"}


def replay(ctx: Ctx, path: str) -> None:
    with open(path, encoding="utf-8") as f:
        r = json.load(f)
    print(json.dumps(r, indent=1)[:4000])
    c = r.get("case")
    ctx.rule = "replay of one recorded case"
    ctx.proof()
    if isinstance(c, dict) and "ops" in c:
        check_scenarios(ctx, "replayed scenario", [c], more_every=1)
    elif isinstance(c, dict) and "doc" in c:
        check_doc(ctx, c)
    elif isinstance(c, dict) and ("ckinds" in c or "children" in c):
        check_consolidate(ctx, "replayed consolidate_attrs case", [c], "consolidate_attrs")
    elif isinstance(c, str):
        iv = TagAttrDict._normalize_attr_name(c)
        ctx.count(("name", c), True, "name")
        if iv != py_spec_name(c):
            ctx.violation("name normalisation is not: one trailing underscore removed, remaining "
                          "underscores turned into hyphens", c, {"impl_output": iv, "expected": py_spec_name(c)})
    else:
        run(ctx)

"""C12  Dependency URLs and copied files agree.

Opcodes of the extracted model (coq/Model/DriverC12.v, driver "c12"):
  1 quote(s) -> res str            2 unquote(s) -> str          3 utf8 decode(replace)(bytes)
  4 utf8 encode(s)                 5 posixpath.join(a, b)       6 source_path_map -> (source, href)
  7 as_dict URLs -> res (stylesheet hrefs, script srcs)
  8 copy_to(fs, dep, dest, iv) -> (res, fs)
  9 copies of save_html(fs, dir, libdir, iv, deps) -> (res, fs)
 10 spec: (path the URL resolves to, path the copier writes)   11 path_of_str
dep  = [name, str(version), source, script srcs, stylesheet hrefs, all_files]
source = [0] | [1, href] | [2, opt package_dir, subdir]
fs   = [[path segments, bytes], ...]

A scenario is {"deps": [...], "doc_order": [indices into deps in document order; an index may
occur several times (the same object twice) and two entries of deps may share a name (several
versions of one dependency)], "nest": [how each occurrence is embedded], "file_form": how the
file argument of save_html is spelled, ...}.  The dependencies that a saved document HAS are the
resolved ones (properties C10/C11: one per name, the highest version under version-number ordering,
the earliest such object on ties, names in order of first occurrence): `resolved_indices`.

All filesystem work happens below one directory made by tempfile.mkdtemp under the system
temp dir, removed in a finally; nothing is written to /repo or /verif by this module.

PUBLIC ENTRY POINTS AND ARGUMENTS THAT REACH THE BEHAVIOUR OF C12 (URL of a script / stylesheet,
copied files), and where this module drives each with non-default values ("route" / "via" / "ctor" /
"argstyle" keys of a scenario; every result is judged by the same oracle from the statement):
  HTMLDependency(name, version: str | Version, source={subdir[, package]} | {href} | None,
                 script / stylesheet: one dict | list of dicts (+ extra attributes), all_files, meta, head)
                                                      -- d["ctor"]: one_dict, extra, meta, head, version
                                                         object, spelling of subdir (trailing slash, /./,
                                                         x/../), package given as a dotted sub-package
  .source_path_map(lib_prefix=, include_version=)     -- differential + oracle (B/C 2)
  .as_dict(lib_prefix=, include_version=)             -- differential + oracle (B/C 2), probes
  .as_html_tags(lib_prefix=, include_version=), str(dep) (defaults: 'lib', version included)
                                                      -- probes (pre_probe), big URL cases
  .copy_to(path, include_version)                     -- mode 'copy': path absolute / with trailing slash /
                                                         relative to the current directory, flag positional
  .serialize_to_script_json(indent=) -> HTMLTextDocument  -- route textdoc_json (indent None / 0 / 2 / 7)
  copy.copy(dep) / copy.deepcopy(dep)                 -- probes; via = copy / deepcopy of the host
  HTMLDocument(*children, **html attributes) .append() .render(lib_prefix=, include_version=)
       .save_html(file, libdir, include_version) (positional or keyword, defaults omitted), copy.copy
                                                      -- routes save_html, render_copy; via append / copy /
                                                         deepcopy; doc_kwargs (lang / class_ / style)
  Tag.save_html / TagList.save_html(file, *, libdir=, include_version=)   -- hosts tag / taglist
  Tag / TagList .append .extend .insert, + / +=, with-block (sys.displayhook), tagify()
                                                      -- via (how the children holding the dependencies
                                                         got into the host), then save
  HTMLTextDocument(html, deps=, deps_replace_pattern=).render(lib_prefix=, include_version=)
                                                      -- routes textdoc_deps / textdoc_json (placeholder
                                                         with regex metacharacters, long templates,
                                                         placeholder twice), second document afterwards
  htmltools.html_dependency_render_mode = "json" + str(tag)  -- route textdoc_json ("str")
  head_content(...) next to the dependencies, dependencies with a head= payload, JSX components (which
  bring the library's own react / react-dom dependencies) around a dependency  -- nest 6, 7; ctor head
  Tag.show(renderer="browser") (save_html with defaults into the temp dir) -- show_scenarios
  NOT driven: dependencies INSIDE another dependency's head payload / inside head_content(..): known
  finding F7 (C11) -- they are never hoisted, so they have no URL at all; renderer="ipython".
Sizes: see big_scenarios (counts 7..300 of every countable thing, files up to 1 MiB + 1)."""
from __future__ import annotations

import copy as _copy
import hashlib
import html.parser
import importlib
import itertools
import json
import os
import posixpath
import shutil
import sys
import tempfile
import urllib.parse
from typing import Any

from packaging.version import Version as _RefVersion   # reference for version-number ordering

from ..common import Ctx, ImplTimeout, S, time_limit, unS, differential, run_model, sx_opt
from .. import trees

import htmltools
from htmltools import HTMLDependency, HTMLDocument, HTMLTextDocument, Tag, TagList, div, head_content, span, tags

# --------------------------------------------------------------------------------------
# small helpers
# --------------------------------------------------------------------------------------


def call(f, *a, **kw):
    """run the implementation; exceptions -> the enum of the model.
    6: the plain Exception copy_to raises for a missing file (and RuntimeError)
    5: ValueError (UnicodeEncodeError from quote) and OSError (FileExistsError from copytree,
       NotADirectoryError from rmtree), which the model shows as Err ValueError"""
    try:
        with time_limit():
            return ("ok", f(*a, **kw))
    except ImplTimeout:
        return ("err", "did-not-terminate")
    except OSError as e:
        return ("err", 5)
    except ValueError:
        return ("err", 5)
    except TypeError:
        return ("err", 3)
    except KeyError:
        return ("err", 4)
    except RecursionError:
        return ("err", 7)
    except Exception as e:  # noqa: BLE001
        if type(e) in (Exception, RuntimeError):
            return ("err", 6)
        raise


def res_dec(m, f=lambda x: x):
    if m[0] == 0:
        return ("ok", f(m[1]))
    return ("err", m[1])


def segs(p: str) -> list[str]:
    return [x for x in p.split("/") if x != ""]


def snapshot(top: str) -> dict[str, bytes]:
    """relative path -> the bytes that reading that path yields, for everything below top that is
    not a directory.  Symbolic links are followed, to files and to directories (the statement talks
    about the bytes at a path, not about how the path is realised; the scenarios make no link
    cycles); a link that cannot be read (dangling) is recorded with a marker value.  The one link the
    harness itself puts next to the document directory (file form 'symlink': doclink -> out) is not
    descended into: it is another name for the same files."""
    out: dict[str, bytes] = {}
    if not os.path.isdir(top):
        return out
    for root, dirs, files in os.walk(top, followlinks=True):
        dirs[:] = sorted(d for d in dirs if not (d == "doclink" and os.path.islink(os.path.join(root, d))))
        for f in sorted(files):
            full = os.path.join(root, f)
            try:
                with open(full, "rb") as fh:
                    out[os.path.relpath(full, top)] = fh.read()
            except OSError:
                link = os.readlink(full) if os.path.islink(full) else "?"
                out[os.path.relpath(full, top)] = UNREADABLE + os.fsencode(link)
    return out


UNREADABLE = b"\x00C12-unreadable link -> "


def readable(snap: dict) -> dict:
    """for the abstract model a path that cannot be read does not exist"""
    return {k: v for k, v in snap.items() if not v.startswith(UNREADABLE)}


def dirs_below(top: str) -> set[str]:
    out = set()
    for root, dirs, _ in os.walk(top):
        for d in dirs:
            out.add(os.path.relpath(os.path.join(root, d), top))
    return out


def blob(n: int, seed: int) -> bytes:
    """n deterministic bytes in which every 32-byte block differs from every other one (so a block
    written twice, dropped, padded or put at the wrong offset changes the content)"""
    out = bytearray()
    k = 0
    while len(out) < n:
        out += hashlib.sha256(b"%d:%d" % (seed, k)).digest()
        k += 1
    return bytes(out[:n])


def content_bytes(c) -> bytes:
    """file content of a scenario: a list of byte values, or {"gen": [n, seed]} = blob(n, seed)
    (large files stay small in the replay file)"""
    if isinstance(c, dict):
        return blob(int(c["gen"][0]), int(c["gen"][1]))
    return bytes(c)


def abs_bytes(b: bytes) -> bytes:
    """what the abstract model is shown of a file's content: the content itself when short, a
    digest of it otherwise (the model copies contents as opaque values, so any injective renaming
    of contents commutes with it)"""
    if len(b) <= 1024:
        return b
    return b"\x00C12-digest" + len(b).to_bytes(8, "big") + hashlib.sha256(b).digest()


def write_tree(top: str, files: list) -> None:
    for rel, content in files:
        full = os.path.join(top, rel)
        os.makedirs(os.path.dirname(full), exist_ok=True)
        with open(full, "wb") as fh:
            fh.write(content_bytes(content))


def fs_sx(entries: dict[str, bytes], base: str) -> list:
    """abstract filesystem: absolute path segments + bytes"""
    b = segs(base)
    return [[[S(x) for x in b + segs(rel)], list(abs_bytes(content))] for rel, content in entries.items()]


def fs_from_sx(m: list) -> dict[str, bytes]:
    return {"/" + "/".join(unS(x) for x in p): bytes(b) for p, b in m}


# --------------------------------------------------------------------------------------
# generators
# --------------------------------------------------------------------------------------
NAME_PIECES = ["a", "b c", "%", "100%", "%41", "%2F", "#frag", "q?x=1", "a&b", "it's", 'say"hi"',
               "<tag>", "x+y", "é", "日本", "\U0001F600", ".hidden", "~t", "a.b", "-", "_",
               "café.min", "semi;colon", "eq=1", "back\\slash", "tab\there", "nl\nx", "{b}", "[0]",
               "A Z", "ßæ", "Ж", "$", "@", "!", "*", "(p)", ",", ":", "|", "^", "`"]
DIR_PIECES = ["a", "b", "css", "js", "sub dir", "d%20", "été", "日", "x#y", "v1.2", "q?"]
DEP_NAMES = ["dep", "my.dep_x", "Lib-2", "w~1", "a", "x_y.z"]
VERSIONS = ["1.0", "2.3.4", "0.0.1", "1.0.0b1", "1!2.0", "1.0+local.1", "2.0.post1", "1.0.dev3", "10"]
LIBDIRS = [None, "", "lib", "a/b"]
# what the saved content is -- the three construction cases of HTMLDocument._gen_html_tag_tree:
# a fragment, a lone <body> tag, a lone <html> tag (with / without its own head, dependencies
# inside body, inside head, or in both)
SHAPES = ["fragment", "body", "html_head", "html_nohead", "html_nobody", "html_deps_in_head", "html_deps_both"]
URL_HREFS = ["https://cdn.example.org/lib", "https://cdn.example.org/lib/", "//cdn.example.org/x",
             "/static/lib/", "https://h.example/a%20b", "http://h.example/x/y/"]
NONTRIVIAL_CHARS = set(" %#?&'\"<>+\\\t\n;=")
# how one occurrence of a dependency is embedded in the content (document order is kept):
# 0 directly, 1 in a div, 2 two levels down, 3 in a TagList inside a div, 4 produced only by the
# tagify() of a user-defined object, 5 inside a plain Python list child
# 6 inside a JSX component (which brings the react / react-dom dependencies of the library itself),
# 7 next to head_content(...) and a source-less dependency; ["chain", depth, kind]: see chain()
NESTS = [0, 1, 2, 3, 4, 5]
NESTS_MORE = [6, 7, ["chain", 9, "mix"], ["chain", 17, "tag"]]
ROUTES = ["save_html", "render_copy", "textdoc_deps", "textdoc_json"]
# how the children (which hold the dependencies) get into the host / which object is then saved
VIAS = [None, "append", "extend", "insert", "add", "with"]
POSTS = [None, "copy", "deepcopy", "tagify"]
TEXT_PATTERNS = ['<meta data-foo="">', "<!-- head-content -->", "{{ deps }}", "$deps^", "(.*)", "[a-z]+?",
                 "\\1\\g<0>", "a|b", "^", "."]
# how the `file` argument of save_html names dirname/index.html: absolute; relative to the current
# directory (= the document's directory, or its parent); with a redundant x/../ component; through
# a symbolic link to the document's directory
FILE_FORMS = ["abs", "rel_cwd", "rel_parent", "dotdot", "symlink"]


def rand_fname(rng, ext: str | None = None) -> str:
    n = rng.choice([1, 1, 2, 2, 3])
    s = "".join(rng.choice(NAME_PIECES) for _ in range(n))
    if rng.random() < 0.1:
        s = trees.rand_char(rng) + s
    s = s.replace("/", "_").replace("\x00", "_")
    if ext is None:
        ext = rng.choice([".js", ".css", ".txt", "", ".min.js"])
    s = s + ext
    if s in (".", "..", ""):
        s = "x" + s
    # keep one path component below the usual 255-byte limit
    while len(s.encode("utf-8")) > 200:
        s = s[1:]
    return s


def rand_relpath(rng, ext=None) -> str:
    depth = rng.choice([0, 0, 0, 1, 1, 2, 3])
    parts = [rng.choice(DIR_PIECES) for _ in range(depth)] + [rand_fname(rng, ext)]
    return "/".join(parts)


# sizes just below, at and above 8 .. 256, and one around 300: for every countable thing
SIZES = [7, 8, 9, 15, 16, 17, 31, 32, 33, 63, 64, 65, 127, 128, 129, 255, 256, 257, 300]
# buffer sizes that file-copying code is likely to use (io.DEFAULT_BUFFER_SIZE, the old and the
# current shutil.COPY_BUFSIZE, 256 KiB, 1 MiB): one below, exact, one above, and beyond it by an
# amount that is no multiple of any of them
BUFSIZES = [8192, 16384, 65536, 262144, 1048576]


def rand_bytes(rng):
    r = rng.random()
    if r < 0.04:          # 7 .. 300 bytes
        return [rng.randrange(256) for _ in range(rng.choice(SIZES))]
    if r < 0.05:          # thousands of bytes: given by a generator description
        return {"gen": [rng.choice([4097, 5000, 8193, 70001]), rng.randrange(1000)]}
    return [rng.randrange(256) for _ in range(rng.randrange(0, 24))]


def rand_files(rng, lo=1, hi=6) -> dict[str, list[int]]:
    """a prefix-free set of relative file paths with contents"""
    files: dict[str, list[int]] = {}
    for _ in range(rng.randrange(lo, hi + 1)):
        p = rand_relpath(rng)
        parts = p.split("/")
        ok = True
        for q in files:
            qp = q.split("/")
            k = min(len(parts), len(qp))
            if parts[:k] == qp[:k]:   # one is a prefix of the other (or equal)
                ok = False
        if ok and p not in files:
            files[p] = rand_bytes(rng)
    if not files:
        files["a.js"] = [1]
    return files


def prefix_free_files(files: dict) -> dict:
    """drop entries that are (or lie below) another entry: a file cannot also be a directory"""
    out: dict = {}
    for p, c in files.items():
        parts = p.split("/")
        if not any(parts[:min(len(parts), len(q.split("/")))] == q.split("/")[:min(len(parts), len(q.split("/")))]
                   for q in out):
            out[p] = c
    return out


def rand_dep(rng, idx: int, force: dict | None = None) -> dict:
    """a dependency description; its source files live in directory src<idx> of the scenario"""
    kind = rng.choice(["dir", "dir", "dir", "dir", "pkg", "pkg", "url", "none", "react"])
    d: dict[str, Any] = {"name": DEP_NAMES[idx % len(DEP_NAMES)] + (str(idx) if idx >= len(DEP_NAMES) else ""),
                         "version": rng.choice(VERSIONS), "kind": kind, "all_files": rng.random() < 0.35,
                         "files": {}, "scripts": [], "styles": [], "href": None, "stale": {},
                         "stale_kind": "none"}
    if force:
        d.update(force)
        kind = d["kind"]
    if kind == "react":
        d["scripts"] = ["react.production.min.js"]
        d["all_files"] = rng.random() < 0.5
    elif kind in ("dir", "pkg"):
        d["files"] = rand_files(rng)
        names = sorted(d["files"])
        rng.shuffle(names)
        k = rng.randrange(0, len(names) + 1)
        listed = names[:k]
        for p in listed:
            (d["scripts"] if rng.random() < 0.6 else d["styles"]).append(p)
        if listed and rng.random() < 0.15:      # the same file as script and as stylesheet
            d["styles"].append(listed[0])
    elif kind == "url":
        d["href"] = rng.choice(URL_HREFS)
        d["scripts"] = [rand_relpath(rng, ".js") for _ in range(rng.randrange(0, 3))]
        d["styles"] = [rand_relpath(rng, ".css") for _ in range(rng.randrange(0, 3))]
        d["all_files"] = False
    else:
        d["all_files"] = False
    if rng.random() < 0.3:      # other ways of writing the same definition (see Realised.make_dep)
        d["ctor"] = rand_ctor(rng)
    # pre-existing content of the target directory
    r = rng.random()
    if r < 0.45:
        d["stale_kind"] = "files"
        d["stale"] = {rand_relpath(rng): rand_bytes(rng) for _ in range(rng.randrange(1, 4))}
        if d["files"] and rng.random() < 0.5:    # a stale file with the name of a real one
            d["stale"] = {sorted(d["files"])[0]: [0xEE, 0xEE], **d["stale"]}
        d["stale"] = prefix_free_files(d["stale"])
    return d


SUBDIR_FORMS = ["plain", "slash", "dot", "dotdot"]
HEAD_FORMS = ["text", "tag", "list"]


def rand_ctor(rng) -> dict:
    """how the constructor is given the definition: a lone item as a dict instead of a list, items
    with extra attributes, meta items and a head payload (neither has a script src / link href),
    the version as a Version object, the source directory spelled with a trailing slash or with
    redundant components, the package of a package source given as a dotted sub-package"""
    return {"one_dict": rng.random() < 0.5, "extra": rng.random() < 0.5, "meta": rng.random() < 0.4,
            "head": rng.choice(HEAD_FORMS) if rng.random() < 0.4 else None,
            "version_obj": rng.random() < 0.4, "subdir": rng.choice(SUBDIR_FORMS),
            "subpkg": rng.random() < 0.5}


def doc_order(sc: dict) -> list[int]:
    o = sc.get("doc_order")
    return list(o) if o is not None else list(range(len(sc["deps"])))


def resolved_indices(sc: dict) -> list[int]:
    """the dependencies of the document, from the statements of C10 / C11: every name once, names
    in order of first occurrence, each represented by the object with the highest version under
    version-number (not lexical) ordering, the earliest such object on ties"""
    best: dict[str, int] = {}
    for i in doc_order(sc):
        d = sc["deps"][i]
        j = best.get(d["name"])
        if j is None:
            best[d["name"]] = i
        elif _RefVersion(d["version"]) > _RefVersion(sc["deps"][j]["version"]):
            best[d["name"]] = i
    return list(best.values())


def variant_files(rng, files: dict) -> dict:
    """the files of another version of the same library: mostly the same names with other bytes,
    something dropped, something new"""
    out: dict = {}
    for k, (p, c) in enumerate(sorted(files.items())):
        r = rng.random()
        if r < 0.2 and len(files) > 1:
            continue
        nb = rand_bytes(rng)
        out[p] = (list(c) if not isinstance(c, dict) else dict(c)) if r > 0.85 else (
            nb + [0x76, k % 256] if isinstance(nb, list) else nb)
    if rng.random() < 0.6:
        out[rand_relpath(rng)] = rand_bytes(rng)
    out = prefix_free_files(out)
    return out or {"a.js": [2]}


def add_family(rng, sc: dict) -> None:
    """several objects for one dependency name (other versions, or the same version again), the
    same object at several places, two names served from one source directory; any document order"""
    deps = sc["deps"]
    r = rng.random()
    if r < 0.7:
        base = rng.randrange(len(deps))
        for _ in range(rng.choice([1, 1, 2])):
            b = deps[base]
            kind = rng.choice(["dir", "dir", "dir", "pkg", b["kind"], "url", "none"])
            force: dict[str, Any] = {"kind": kind}
            d = rand_dep(rng, len(deps), force)
            d["name"] = b["name"]
            if rng.random() < 0.25:
                d["version"] = b["version"]
            if kind in ("dir", "pkg") and b["files"] and rng.random() < 0.7:
                d["files"] = variant_files(rng, b["files"])
                names = sorted(d["files"])
                rng.shuffle(names)
                listed = names[:rng.randrange(0, len(names) + 1)]
                d["scripts"] = [p for p in listed if p in b["scripts"] or (p not in b["styles"] and rng.random() < 0.6)]
                d["styles"] = [p for p in listed if p not in d["scripts"]]
                if d["stale"]:
                    d["stale"] = prefix_free_files({p: c for p, c in d["stale"].items()})
            if kind in ("dir", "pkg") and rng.random() < 0.5:
                d["all_files"] = b["all_files"]
            deps.append(d)
    elif r < 0.85:
        loc = [i for i, d in enumerate(deps) if d["kind"] in ("dir", "pkg") and "share" not in d]
        if loc:      # another name, served from the same source directory
            j = rng.choice(loc)
            b = deps[j]
            names = sorted(b["files"])
            rng.shuffle(names)
            listed = names[:rng.randrange(0, len(names) + 1)]
            d = rand_dep(rng, len(deps), {"kind": b["kind"]})
            d.update({"files": dict(b["files"]), "share": j, "scripts": [p for p in listed if rng.random() < 0.6]})
            d["styles"] = [p for p in listed if p not in d["scripts"]]
            if d["stale"]:
                d["stale"] = prefix_free_files(d["stale"])
            deps.append(d)
    order = list(range(len(deps)))
    rng.shuffle(order)
    for _ in range(rng.choice([0, 0, 1, 1, 2])):      # the same object once more
        order.insert(rng.randrange(len(order) + 1), rng.randrange(len(deps)))
    sc["doc_order"] = order
    sc["nest"] = [rng.choice(NESTS) for _ in order]


def rand_text_opts(rng, pad=None) -> dict:
    return {"pat": rng.randrange(len(TEXT_PATTERNS)), "pad": rng.choice([0, 0, 9, 300]) if pad is None else pad,
            "twice": rng.random() < 0.3, "indent": rng.choice([None, 0, 2, 7]),
            "json_via": rng.choice(["str", "serialize"]), "empty_deps": rng.random() < 0.3}


def widen(rng, sc: dict, p: float = 1.0) -> dict:
    """other entry points, other ways of passing the same arguments, other ways of putting the
    same content together (see the list at the top of the file)"""
    if rng.random() < 0.5 * p:
        sc["route"] = rng.choice(ROUTES[1:])
        if sc["route"] == "render_copy" and rng.random() < 0.7:
            sc["host"] = "doc"
        if sc["route"].startswith("textdoc"):
            sc["text"] = rand_text_opts(rng)
    if rng.random() < 0.4 * p:
        sc["via"] = rng.choice(VIAS[1:])
    if rng.random() < 0.3 * p:
        sc["post"] = rng.choice(POSTS[1:])
    if rng.random() < 0.3 * p:
        sc["argstyle"] = rng.choice([1, 2])
    if rng.random() < 0.3 * p:
        sc["doc_kwargs"] = rng.choice([{"lang": "en"}, {"class_": "a b", "lang": "fr"},
                                       {"style": "margin:0", "data_x": "1"}])
    if rng.random() < 0.4 * p:
        sc["probe"] = True
    if rng.random() < 0.3 * p:
        sc["copy_path"] = rng.choice(["slash", "rel"])
    if rng.random() < 0.2 * p:
        sc["dup_kid"] = True
    if rng.random() < 0.4 * p:
        order = doc_order(sc)
        nest = list(sc.get("nest") or ([1] + [0] * len(order)))[:len(order)]
        nest += [0] * (len(order) - len(nest))
        for k in range(len(nest)):
            if rng.random() < 0.5:
                nest[k] = rng.choice(NESTS_MORE)
        sc["doc_order"], sc["nest"] = order, nest
    return sc


def rand_scenario(rng, **force) -> dict:
    n = rng.choice([1, 1, 2, 2, 3])
    sc = {"libdir": rng.choice(LIBDIRS), "iv": rng.random() < 0.5,
          "host": rng.choice(["doc", "tag", "taglist"]),
          "shape": rng.choice(SHAPES + ["fragment", "html_head"]),
          "deps": [rand_dep(rng, i) for i in range(n)],
          "outside": prefix_free_files({rand_relpath(rng): rand_bytes(rng) for _ in range(rng.randrange(1, 3))}),
          "missing": None}
    if rng.random() < 0.4:
        add_family(rng, sc)
    if rng.random() < 0.3:
        sc["file_form"] = rng.choice(FILE_FORMS[1:])
    if rng.random() < 0.5:
        widen(rng, sc)
    sc.update(force)
    return sc


# --------------------------------------------------------------------------------------
# size and depth: every countable thing of the statement at 7 .. 300, files beyond every buffer size
# --------------------------------------------------------------------------------------
AWKWARD_LAST = "last \u00e9%41 #?.js"


def simple_dep(name: str, version: str = "1.0", files: dict | None = None, scripts=None, styles=None,
               kind: str = "dir", all_files: bool = False, stale: dict | None = None) -> dict:
    files = dict(files if files is not None else {"f.js": [1, 2, 3]})
    return {"name": name, "version": version, "kind": kind, "all_files": all_files, "files": files,
            "scripts": list(scripts if scripts is not None else [p for p in files if not p.endswith(".css")]),
            "styles": list(styles if styles is not None else [p for p in files if p.endswith(".css")]),
            "href": None, "stale": dict(stale or {}), "stale_kind": "files" if stale else "none"}


def file_sizes(rng, full: bool) -> list[int]:
    out: list[int] = []
    for t in BUFSIZES:
        beyond = [t + t // 4 + 7, t + t // 2 + 3, 2 * t + 1, 3 * t - 5]
        out += [t - 1, t, t + 1] + (beyond if full and t < 1048576 else [rng.choice(beyond[:2 if t == 1048576 else 4])])
    return out + [300 * 1024 + 7, 70001, 5000] + ([2 * 262144, 4 * 65536 + 1] if full else [])


BIG_ITEMS = ["deps", "scripts", "styles", "allfiles", "pathdepth", "nestdepth", "family", "libdir", "stale",
             "namelen", "occurrences", "text", "versionlen"]
BIG_MAX = {"pathdepth": 70, "nestdepth": 70, "libdir": 70, "namelen": 250, "versionlen": 100}


def big_scenario(rng, item: str, n: int) -> dict:
    """one scenario in which `item` has size n; what is unusual sits in the last element"""
    sc: dict[str, Any] = {"libdir": rng.choice(LIBDIRS), "iv": rng.random() < 0.5,
                          "host": rng.choice(["doc", "tag", "taglist"]), "shape": rng.choice(SHAPES),
                          "outside": {"keep.txt": [1]}, "missing": None, "big": [item, n]}
    tail = [0xC1, 0x2E] + [n % 256, n // 256]
    if item == "deps":
        sc["deps"] = [simple_dep(f"n{k}", "1.%d" % (k % 7), {"f.js": [k % 256]}) for k in range(n - 1)]
        sc["deps"].append(simple_dep("zlast", "2.0", {AWKWARD_LAST: tail, "sub dir/s.css": [5]},
                                     stale={"old.txt": [1]}))
        sc["shape"] = rng.choice(["fragment", "html_head", "body"])
    elif item in ("scripts", "styles"):
        ext = ".js" if item == "scripts" else ".css"
        files = {"s%03d%s" % (k, ext): [k % 256, k // 256] for k in range(n - 1)}
        files["sub dir/" + AWKWARD_LAST[:-3] + ext] = tail
        sc["deps"] = [simple_dep("many", "1.0", files, kind=rng.choice(["dir", "pkg"]),
                                 stale={"s000" + ext: [0xEE], "gone.txt": [1]})]
    elif item == "allfiles":
        files = {("d/" if k % 10 == 0 else "") + "f%03d.txt" % k: [k % 256] for k in range(n - 1)}
        files["d/e/" + AWKWARD_LAST] = tail
        sc["deps"] = [simple_dep("tree", "1.0", files, scripts=["f001.txt"], styles=[], all_files=True,
                                 stale={"d/stale.txt": [1]})]
    elif item == "pathdepth":
        p = "/".join(["d"] * n) + "/" + AWKWARD_LAST
        af = rng.random() < 0.5
        sc["deps"] = [simple_dep("deep", "1.0", {p: tail, "top.css": [1]}, scripts=[p], styles=["top.css"],
                                 all_files=af, stale={"/".join(["d"] * n) + "/stale.txt": [1]})]
    elif item == "nestdepth":
        sc["deps"] = [simple_dep("a", "1.0", {AWKWARD_LAST: tail}), simple_dep("b", "1.1", {"b c.css": [1]})]
        sc["doc_order"] = [0, 1]
        sc["nest"] = [["chain", n, rng.choice(["tag", "list", "taglist", "tuple", "mix"])], 0]
        sc["shape"] = rng.choice(["fragment", "html_head", "body", "html_nobody"])
    elif item == "family":
        vs = ["1.%d" % k for k in range(n)]
        deps = [simple_dep("fam", v, {"f.js": [k % 256], ("only %d.css" % k): [k % 256, 1]}) for k, v in enumerate(vs)]
        order = list(range(n))
        rng.shuffle(order)
        sc["deps"], sc["doc_order"], sc["nest"] = deps, order, [rng.choice([0, 0, 1, 5]) for _ in order]
        sc["shape"] = rng.choice(["fragment", "html_head", "body"])
    elif item == "libdir":
        sc["libdir"] = "/".join(["l%d" % (k % 10) for k in range(n)])
        sc["deps"] = [simple_dep("a", "1.0", {AWKWARD_LAST: tail}, stale={"old.txt": [1]})]
    elif item == "stale":
        stale = {("s%03d.txt" % k if k % 8 else "sd/%03d.txt" % k): [k % 256] for k in range(n - 1)}
        stale["/".join(["x"] * min(n, 60)) + "/deep stale.txt"] = [1]
        sc["deps"] = [simple_dep("a", "1.0", {AWKWARD_LAST: tail, "sd/keep.css": [2]}, stale=stale,
                                 all_files=rng.random() < 0.5)]
    elif item == "namelen":
        fname = "a" * max(1, n - 8) + " \u00e9%#.js"            # n characters, the awkward ones last
        dname = ("n" * n)[:200]
        sc["deps"] = [simple_dep(dname, "1.0", {fname: tail, "d " + "b" * min(n, 200) + "/x.css": [1]})]
    elif item == "versionlen":
        v = ".".join(str((k * 7) % 10) for k in range(n)) if n > 1 else "1"
        sc["deps"] = [simple_dep("a", "1" + v, {AWKWARD_LAST: tail}), simple_dep("a", "1" + v + ".1", {"w.js": [1]})]
        sc["doc_order"], sc["nest"] = [1, 0], [0, 1]
    elif item == "occurrences":
        sc["deps"] = [simple_dep("a", "1.0", {AWKWARD_LAST: tail}), simple_dep("b", "1.0", {"b.js": [1]})]
        sc["doc_order"] = [0] * (n - 1) + [1, 0]
        sc["nest"] = [rng.choice([0, 1, 2, 3, 5]) for _ in sc["doc_order"]]
        sc["shape"] = rng.choice(["fragment", "html_head", "body"])
    elif item == "text":
        sc["deps"] = [simple_dep("a", "1.0", {AWKWARD_LAST: tail}), simple_dep("b", "2.0", {"b c.css": [1]})]
        sc["route"] = rng.choice(["textdoc_deps", "textdoc_json"])
        sc["text"] = rand_text_opts(rng, pad={300: 70000, 257: 5000}.get(n, n))
    else:
        raise ValueError(item)
    if item != "text" and rng.random() < 0.6:
        widen(rng, sc, 0.6)
    return sc


def big_scenarios(rng, quick: bool) -> list[dict]:
    out = []
    for item in BIG_ITEMS:
        top = BIG_MAX.get(item, 300)
        allowed = [n for n in SIZES if n <= top] + ([top] if top not in SIZES else [])
        if quick:     # always the largest; two of the others
            ns = [top] + rng.sample([n for n in allowed if n != top], 2)
        else:
            ns = allowed
        out += [big_scenario(rng, item, n) for n in ns]
    return out


def big_file_scenarios(rng, quick: bool) -> list[dict]:
    """files larger than every buffer size a copier may use, with sizes that are no multiple of it:
    listed explicitly (a directory source and a package source), and below an all_files directory"""
    out = []
    for variant in ["listed", "allfiles", "listed_pkg"] if not quick else ["listed", "allfiles"]:
        sizes = file_sizes(rng, full=not quick and variant == "listed")
        files = {("big/" if k % 3 == 1 else "") + "f%02d %d.bin" % (k, n): {"gen": [n, 1000 + k]}
                 for k, n in enumerate(sizes)}
        dep = simple_dep("bulk", "3.1", files, scripts=sorted(files)[::2], styles=sorted(files)[1::2],
                         kind="pkg" if variant == "listed_pkg" else "dir", all_files=variant == "allfiles",
                         stale={"f00 8191.bin": [0xEE] * 40})
        if variant == "allfiles":
            dep["scripts"], dep["styles"] = sorted(files)[:1], []
        sc = {"libdir": rng.choice(LIBDIRS), "iv": rng.random() < 0.5, "host": rng.choice(["doc", "tag", "taglist"]),
              "shape": rng.choice(SHAPES), "deps": [dep, simple_dep("small", "1.0", {"s.js": [k % 251 for k in range(300)]})],
              "outside": {"keep.txt": [1]}, "missing": None, "big": ["filesize", max(sizes)]}
        out.append(widen(rng, sc, 0.5))
    return out


def nontrivial_scenario(sc: dict) -> bool:
    if sc.get("doc_order") is not None or sc.get("file_form", "abs") != "abs":
        return True
    for d in sc["deps"]:
        for p in list(d["files"]) + d["scripts"] + d["styles"]:
            if "/" in p or any(c in NONTRIVIAL_CHARS or ord(c) > 127 for c in p):
                return True
        if d["stale"] or d["kind"] in ("url", "none", "pkg", "react"):
            return True
    return sc.get("missing") is not None


# --------------------------------------------------------------------------------------
# realising a scenario on disk
# --------------------------------------------------------------------------------------
class Widget:
    """a user-defined object whose content (with its dependency) exists only after tagify()"""

    def __init__(self, *kids):
        self.kids = kids

    def tagify(self):
        return div(*self.kids, class_="widget").tagify()


def jsx_component():
    """a JSX component class (experimental module), or None when it cannot be had"""
    try:
        from htmltools._jsx import jsx_tag_create
        return jsx_tag_create("C12Comp")
    except Exception:  # noqa: BLE001
        return None


def implicit_jsx_deps() -> list[dict]:
    """the dependencies a JSX component brings by itself, read off the public fields (name, version,
    source, script, all_files) of the objects an empty component carries: they are dependency
    DEFINITIONS like the ones a scenario lists, so the statement applies to them as to any other"""
    comp = jsx_component()
    if comp is None:
        return []
    out = []
    for dep in comp().tagify().get_dependencies():
        src = dep.source or {}
        if "package" not in src or "subdir" not in src:
            return []
        out.append({"name": dep.name, "version": str(dep.version), "kind": "react", "package": src["package"],
                    "subdir": src["subdir"], "all_files": bool(dep.all_files), "files": {},
                    "scripts": [x["src"] for x in dep.script], "styles": [x["href"] for x in dep.stylesheet],
                    "href": None, "stale": {}, "stale_kind": "none", "implicit": True})
    return out


def chain(dep, n: int, kind: str):
    """dep below n levels of tags / lists / tuples / TagLists (or all of them in turn)"""
    x = dep
    for k in range(n):
        how = kind if kind != "mix" else ["tag", "list", "taglist", "tuple"][k % 4]
        if how == "tag":
            x = div(x) if k % 2 else span("c", x)
        elif how == "list":
            x = [x]
        elif how == "tuple":
            x = ("t", x)
        else:
            x = TagList(x, "l")
    return x


def embed(dep, how):
    if isinstance(how, list):          # ["chain", depth, kind]
        return chain(dep, int(how[1]), how[2])
    if how == 1:
        return div("content", dep)
    if how == 2:
        return div(span(span(dep), "x"), "y")
    if how == 3:
        return div(TagList("t", dep, span("u")))
    if how == 4:
        return Widget("w", dep)
    if how == 5:
        return [span("l"), dep]
    if how == 6:                       # inside a JSX component inside an ordinary tag
        comp = jsx_component()
        return div(comp(span("x"), dep, prop=1), "t") if comp is not None else div("content", dep)
    if how == 7:                       # next to head content and a source-less dependency
        return [head_content(tags.title("hc"), tags.meta(name="hc", content="1")),
                HTMLDependency("bare", "0.1"), div(dep)]
    return dep


class Realised:
    """a scenario laid out below `top` (an absolute, resolved directory)"""

    def __init__(self, sc: dict, top: str, pkg_tag: str):
        self.case_sc = sc
        self.build_order = doc_order(sc)            # the occurrences the harness places itself
        self.build_nest = list(sc.get("nest") or ([1] + [0] * len(self.build_order)))
        sc = self.with_implicit(sc)
        self.sc = sc
        self.top = top
        self.docdir = os.path.join(top, "out")
        self.file = os.path.join(self.docdir, "index.html")
        self.pkg_names: list[str] = []
        self.deps: list[HTMLDependency] = []
        self.msx: list = []          # the dependencies as the model sees them
        self.srcdirs: list[str | None] = []
        self.order = doc_order(sc)                  # document order (indices, may repeat)
        self.eff = resolved_indices(sc)             # the document's dependencies, in copy order
        self.superseded = [i for i in dict.fromkeys(self.order) if i not in self.eff]
        self.hosts: dict = {}
        self.probe_k = 0
        self.second_doc_urls: list | None = None
        os.makedirs(self.docdir)
        self.configure(sc["libdir"], sc["iv"], sc["host"], sc.get("shape", "fragment"),
                       sc.get("file_form", "abs"), sc.get("route", "save_html"))
        pkgroot = os.path.join(top, "pkgs")
        sources: list = []
        for i, d in enumerate(sc["deps"]):
            kind = d["kind"]
            ctor = d.get("ctor") or {}
            form = ctor.get("subdir", "plain")
            srcdir = None
            msrc: list
            if d.get("share") is not None:          # served from the directory of an earlier one
                srcdir, source, msrc = sources[d["share"]]
            elif kind == "dir":
                srcdir = os.path.join(top, f"src{i}")
                write_tree(srcdir, list(d["files"].items()))
                os.makedirs(srcdir, exist_ok=True)
                spelled = {"slash": srcdir + "/", "dot": os.path.join(top, ".", f"src{i}"),
                           "dotdot": os.path.join(srcdir, "..", f"src{i}")}.get(form, srcdir)
                source = {"subdir": spelled}
                msrc = [2, [], S(srcdir)]
            elif kind == "pkg":
                pkg = f"c12pkg_{pkg_tag}_{i}"
                pdir = os.path.join(pkgroot, pkg)
                os.makedirs(pdir)
                with open(os.path.join(pdir, "__init__.py"), "w") as fh:
                    fh.write("")
                if ctor.get("subpkg"):              # the package of the source is a sub-package
                    pdir = os.path.join(pdir, "sub")
                    os.makedirs(pdir)
                    with open(os.path.join(pdir, "__init__.py"), "w") as fh:
                        fh.write("")
                    pkg = pkg + ".sub"
                sub = "assets/v 1" if i % 2 else "assets"
                srcdir = os.path.join(pdir, sub)
                write_tree(srcdir, list(d["files"].items()))
                os.makedirs(srcdir, exist_ok=True)
                if pkgroot not in sys.path:
                    sys.path.append(pkgroot)
                importlib.invalidate_caches()
                self.pkg_names.append(pkg)
                spelled = {"slash": sub + "/", "dot": "./" + sub, "dotdot": "assets/../" + sub}.get(form, sub)
                source = {"package": pkg, "subdir": spelled}
                msrc = [2, [S(pdir)], S(sub)]
            elif kind == "react":                   # files that ship with a package that is installed
                pkg, sub = d.get("package", "htmltools"), d.get("subdir", "lib/react")
                pdir = (os.path.dirname(os.path.abspath(htmltools.__file__)) if pkg == "htmltools"
                        else htmltools._util.package_dir(pkg))
                srcdir = os.path.join(pdir, sub)
                source = {"package": pkg, "subdir": sub}
                msrc = [2, [S(pdir)], S(sub)]
            elif kind == "url":
                source = {"href": d["href"]}
                msrc = [1, S(d["href"])]
            else:
                source = None
                msrc = [0]
            dep = self.make_dep(d, source)
            self.deps.append(dep)
            self.srcdirs.append(srcdir)
            sources.append((srcdir, source, msrc))
            self.msx.append([S(d["name"]), S(str(dep.version)), msrc,
                             [S(p) for p in d["scripts"]], [S(p) for p in d["styles"]],
                             1 if d["all_files"] else 0])
        # symbolic links inside source directories: [path of the link below the source directory,
        # "in" | "out", target (below the source directory | below this dependency's store directory,
        # which lies outside every source directory), absolute?]
        for i, d in enumerate(sc["deps"]):
            if not d.get("links"):
                continue
            store = os.path.join(top, f"store{i}")
            write_tree(store, list((d.get("store") or {}).items()))
            for lp, where, target, absolute in d["links"]:
                full = os.path.join(self.srcdirs[i], lp)
                os.makedirs(os.path.dirname(full), exist_ok=True)
                dest = os.path.join(self.srcdirs[i] if where == "in" else store, target)
                os.symlink(dest if absolute else os.path.relpath(dest, os.path.dirname(full)), full)
        # import temp packages now so that __pycache__ exists before the first snapshot
        for pkg in self.pkg_names:
            htmltools._util.package_dir(pkg)
        # stale content
        for i, d in enumerate(sc["deps"]):
            t = self.target_dir(i)
            if d["stale_kind"] == "files":
                for entry in d["stale"].items():
                    try:
                        write_tree(t, [entry])
                    except OSError:      # clashes with the stale content of a same-named dependency
                        pass
            elif d["stale_kind"] == "file_at_target" and not os.path.lexists(t):
                os.makedirs(os.path.dirname(t), exist_ok=True)
                with open(t, "wb") as fh:
                    fh.write(b"not a directory")
        write_tree(os.path.join(self.docdir, "sibling"), list(sc["outside"].items()))
        write_tree(os.path.join(top, "elsewhere"), list(sc["outside"].items()))
        # missing listed file
        if sc.get("missing") is not None:
            i, p = sc["missing"]
            os.remove(os.path.join(self.srcdirs[i], p))

    def with_implicit(self, sc: dict) -> dict:
        """the scenario with the dependencies that JSX components bring added as definitions, at the
        places (document order) where the component sits"""
        if 6 not in [n for n in self.build_nest if not isinstance(n, list)]:
            return sc
        imp = implicit_jsx_deps()
        if not imp or any(d["name"] in [e["name"] for e in imp] for d in sc["deps"]):
            self.build_nest = [1 if n == 6 else n for n in self.build_nest]
            return sc
        n0 = len(sc["deps"])
        order: list[int] = []
        for k, i in enumerate(self.build_order):
            how = self.build_nest[k] if k < len(self.build_nest) else 0
            if how == 6:
                order += list(range(n0, n0 + len(imp)))
            order.append(i)
        return dict(sc, deps=list(sc["deps"]) + imp, doc_order=order)

    @staticmethod
    def make_dep(d: dict, source) -> HTMLDependency:
        c = d.get("ctor") or {}
        scripts: Any = [{"src": p} for p in d["scripts"]]
        styles: Any = [{"href": p} for p in d["styles"]]
        if c.get("extra"):
            for k, it in enumerate(scripts):
                it.update({"defer": True} if k % 2 else {"type": "module", "data-k": "a b"})
            for it in styles:
                it["media"] = "print"
        if c.get("one_dict"):
            scripts = scripts[0] if len(scripts) == 1 else scripts
            styles = styles[0] if len(styles) == 1 else styles
        kw: dict[str, Any] = {}
        if c.get("meta"):
            m = {"name": "viewport", "content": "width=device-width"}
            kw["meta"] = m if c.get("one_dict") else [m, {"name": "x", "content": "a b"}]
        h = c.get("head")
        if h == "text":
            kw["head"] = "<style>p { margin: 0 }</style>"
        elif h == "tag":
            kw["head"] = tags.meta(name="generator", content="c12")
        elif h == "list":
            kw["head"] = [tags.style("b {}"), "text & more"]
        version: Any = _RefVersion(d["version"]) if c.get("version_obj") else d["version"]
        return HTMLDependency(d["name"], version, source=source, script=scripts, stylesheet=styles,
                              all_files=d["all_files"], **kw)

    def configure(self, libdir, iv: bool, host: str, shape: str = "fragment", file_form: str = "abs",
                  route: str | None = None) -> None:
        self.libdir, self.iv, self.host, self.shape = libdir, iv, host, shape
        self.file_form = file_form
        if route is not None:
            self.route = route
        self.destdir = os.path.join(self.docdir, libdir) if libdir else self.docdir

    def file_arg(self) -> tuple[str | None, str]:
        """(directory to make current or None, the `file` argument): spellings of self.file"""
        f = self.file_form
        if f == "rel_cwd":
            return (self.docdir, "index.html")
        if f == "rel_parent":
            return (self.top, os.path.join("out", "index.html"))
        if f == "dotdot":
            os.makedirs(os.path.join(self.docdir, "sibling"), exist_ok=True)
            return (None, os.path.join(self.top, "out", "sibling", "..", "index.html"))
        if f == "symlink":
            link = os.path.join(self.top, "doclink")
            if not os.path.lexists(link):
                os.symlink("out", link)
            return (None, os.path.join(link, "index.html"))
        return (None, self.file)

    def save(self, host) -> tuple:
        """save_html on host (or the route's equivalent of it); (outcome, the file the returned
        path names or None)"""
        cwd, arg = self.file_arg()
        old = os.getcwd()
        names = None
        try:
            if cwd is not None:
                os.chdir(cwd)
            if self.route == "show":
                return self.show(host)
            if self.route == "save_html":
                out = call(lambda: self.call_save_html(host, arg))
            else:
                out = call(lambda: self.manual_save(host, arg))
            if out[0] == "ok" and isinstance(out[1], (str, os.PathLike)):
                names = os.path.realpath(out[1])
        finally:
            os.chdir(old)
        return out, names

    def show(self, host) -> tuple:
        """host.show(renderer="browser"): saves the page (save_html with its defaults) below the
        temporary directory and opens it; where the page is, is read off the URL that is opened
        (the temporary directory is what the local server serves).  The document directory of this
        scenario becomes the directory of that page."""
        import webbrowser
        tmp = os.path.join(self.top, "tmp")
        os.makedirs(tmp, exist_ok=True)
        opened: list[str] = []
        old_open, old_tmp = webbrowser.open, tempfile.tempdir
        try:
            webbrowser.open = lambda url, *a, **k: (opened.append(url), True)[1]
            tempfile.tempdir = tmp
            out = call(lambda: host.show(renderer="browser"))
        finally:
            webbrowser.open, tempfile.tempdir = old_open, old_tmp
        names = None
        if out[0] == "ok" and opened:
            rel = urllib.parse.unquote(urllib.parse.urlsplit(opened[0]).path).lstrip("/")
            f = os.path.join(tmp, rel)
            self.docdir, self.file = os.path.dirname(f), f
            self.configure("lib", True, self.host, self.shape, "abs")
            names, out = os.path.realpath(f), ("ok", f)
        elif out[0] == "ok":
            out = ("err", "show() opened no page")
        return out, names

    def call_save_html(self, host, arg):
        style = self.sc.get("argstyle", 0)
        if style == 1 and isinstance(host, HTMLDocument):      # positional
            return host.save_html(arg, self.libdir, self.iv)
        if style == 2:                                          # defaults left out
            kw: dict[str, Any] = {}
            if self.libdir != "lib":
                kw["libdir"] = self.libdir
            if not self.iv:
                kw["include_version"] = False
            return host.save_html(arg, **kw)
        return host.save_html(arg, libdir=self.libdir, include_version=self.iv)

    def render_kwargs(self) -> dict:
        kw: dict[str, Any] = {"lib_prefix": self.libdir, "include_version": self.iv}
        if self.sc.get("argstyle", 0) == 2:
            if self.libdir == "lib":
                del kw["lib_prefix"]
            if self.iv:
                del kw["include_version"]
        return kw

    def manual_save(self, host, arg):
        """what save_html is stated to do, by hand, for the objects that have render() only: render
        with lib_prefix = libdir, copy the dependencies render() returns below dirname(file)/libdir,
        write the markup to file; returns file"""
        if self.route == "render_copy":
            doc = host if isinstance(host, HTMLDocument) else HTMLDocument(host)
            rendered = doc.render(**self.render_kwargs())
        else:
            t = self.sc.get("text") or {}
            pat = TEXT_PATTERNS[t.get("pat", 0) % len(TEXT_PATTERNS)]
            pad = "<!-- " + "x" * int(t.get("pad", 0)) + " -->" if t.get("pad") else ""
            if self.route == "textdoc_deps":
                body = "<p>text</p>"
                td_kw: dict[str, Any] = {"deps": [self.deps[i] for i in self.eff], "deps_replace_pattern": pat}
            else:                           # the dependencies travel inside the text (json mode)
                td_kw = {"deps_replace_pattern": pat}
                if t.get("empty_deps"):
                    td_kw["deps"] = []
                if t.get("json_via", "str") == "str":
                    old_mode = htmltools.html_dependency_render_mode
                    try:
                        htmltools.html_dependency_render_mode = "json"
                        body = str(host)
                    finally:
                        htmltools.html_dependency_render_mode = old_mode
                else:
                    cp = host.tagify()
                    body = cp.get_html_string() + "\n".join(
                        d.serialize_to_script_json(indent=t.get("indent")).get_html_string()
                        for d in cp.get_dependencies())
            template = ("<!DOCTYPE html>\n<html><head>" + pad + pat + "</head><body>" + body
                        + (pat if t.get("twice") else "") + "</body></html>")
            rendered = HTMLTextDocument(template, **td_kw).render(**self.render_kwargs())
            # a second document of the same class, in the same process, without dependencies
            second = HTMLTextDocument("<html><head>" + pat + "</head><body></body></html>",
                                      deps_replace_pattern=pat).render(**self.render_kwargs())
            pc = UrlCollector()
            pc.feed(second["html"])
            pc.close()
            self.second_doc_urls = [u for _, u in pc.urls]
        for dep in rendered["dependencies"]:
            dep.copy_to(self.destdir, include_version=self.iv)
        with open(arg, "w", encoding="utf-8", newline="") as f:
            f.write(rendered["html"])
        return arg

    def namever(self, i: int, iv: bool | None = None) -> str:
        d = self.sc["deps"][i]
        iv = self.iv if iv is None else iv
        return d["name"] + ("-" + str(self.deps[i].version) if iv else "")

    def target_dir(self, i: int) -> str:
        return os.path.join(self.destdir, self.namever(i))

    def target_dir_for(self, i: int, libdir, iv: bool) -> str:
        dest = os.path.join(self.docdir, libdir) if libdir else self.docdir
        return os.path.join(dest, self.namever(i, iv))

    def is_local(self, i: int) -> bool:
        return self.sc["deps"][i]["kind"] not in ("url", "none")

    def first_missing(self):
        """(i, p): the first dependency (in copy order) without all_files that lists a file which
        does not exist right now, and that file"""
        for i in self.eff:
            d = self.sc["deps"][i]
            if not self.is_local(i) or d["all_files"]:
                continue
            for p in d["scripts"] + d["styles"]:
                if not os.path.exists(os.path.join(self.srcdirs[i], p)):
                    return (i, p)
        return None

    def cleanup_imports(self) -> None:
        for pkg in self.pkg_names:
            sys.modules.pop(pkg, None)
        pkgroot = os.path.join(self.top, "pkgs")
        while pkgroot in sys.path:
            sys.path.remove(pkgroot)
        importlib.invalidate_caches()

    def model_fs(self) -> list:
        """everything below top, plus the directories of installed packages that a dependency uses"""
        out = fs_sx(readable(snapshot(self.top)), self.top)
        for pdir in dict.fromkeys(self.srcdirs[i] for i, d in enumerate(self.sc["deps"]) if d["kind"] == "react"):
            out += fs_sx(snapshot(pdir), pdir)
        return out

    def host_object(self, reuse: bool = False):
        """the object save_html is called on; with reuse, the object of an earlier step with the
        same host and shape (the same document saved again)"""
        key = (self.host_kind(), self.shape)
        if not (reuse and key in self.hosts):
            self.hosts[key] = self.build_host()
        return self.hosts[key]

    def host_kind(self) -> str:
        if self.route in ("textdoc_json", "show") and self.host == "doc":
            return "taglist"        # a document object has no str() / show(): its content as a list
        return self.host

    def fill(self, ctor, kids: list, **attrs):
        """ctor(*kids, **attrs), the children arriving the way sc["via"] says"""
        via = self.sc.get("via")
        if via is None:
            return ctor(*kids, **attrs)
        t = ctor(**attrs)
        if via == "append":
            t.append(*kids)
        elif via == "extend":
            t.extend(kids)
        elif via == "insert":
            for k in reversed(kids):
                t.insert(0, k)
        elif via == "add":
            if isinstance(t, TagList):
                t = t + kids[:1]
                t += kids[1:]
            else:
                t.children = t.children + kids[:1]
                t.children += kids[1:]
        elif via == "with":
            if not isinstance(t, Tag):
                t.extend(kids)
            else:
                old = sys.displayhook
                try:
                    sys.displayhook = lambda v: None
                    with t:
                        for k in kids:
                            sys.displayhook(k)
                finally:
                    sys.displayhook = old
        else:
            raise ValueError(via)
        return t

    def build_host(self):
        x = self.build_host0()
        post = self.sc.get("post")
        if post == "copy":
            x = _copy.copy(x)
        elif post == "deepcopy":
            x = _copy.deepcopy(x)
        elif post == "tagify" and not isinstance(x, HTMLDocument):
            x = x.tagify()
        return x

    def build_host0(self):
        """Dependencies stay in document order (self.build_order) in every shape."""
        deps = [self.deps[i] for i in self.build_order]
        nest = self.build_nest
        shape = self.shape
        if 6 in [n for n in nest if not isinstance(n, list)] and shape in ("html_deps_in_head", "html_deps_both"):
            shape = "html_head"     # these two shapes place dependencies bare: no component around them
        emb = [embed(dep, nest[k] if k < len(nest) else 0) for k, dep in enumerate(deps)]
        kids = (emb if deps else [div("content")]) + [span("end")]
        if self.sc.get("dup_kid") and emb:      # one object placed in two parents
            kids = kids + [div(emb[0], class_="again")]
        host = self.host_kind()
        fill = self.fill
        dkw = dict(self.sc.get("doc_kwargs") or {})

        def document(*content):
            if self.sc.get("via") in ("append", "extend", "insert", "add"):
                doc = HTMLDocument(**dkw)
                doc.append(*content)
                return doc
            return HTMLDocument(*content, **dkw)
        if shape == "fragment":
            if host == "doc":
                return document(fill(TagList, kids)) if len(deps) % 2 else document(*kids)
            if host == "tag":
                return fill(div, kids, id="host")
            return fill(TagList, kids)
        if shape == "body":
            top = fill(tags.body, kids, id="b")
        elif shape == "html_head":          # own head, dependencies inside body
            top = tags.html(tags.head(tags.title("t")), fill(tags.body, kids), lang="en")
        elif shape == "html_nohead":        # no head of its own
            top = tags.html(fill(tags.body, kids))
        elif shape == "html_nobody":        # neither head nor body
            top = fill(tags.html, kids)
        elif shape == "html_deps_in_head":  # every dependency inside head
            top = tags.html(fill(tags.head, [tags.title("t"), *deps]), tags.body(div("content"), span("end")))
        elif shape == "html_deps_both":     # first dependency in head, the others in body
            top = tags.html(fill(tags.head, deps[:1]), fill(tags.body, [div("content"), *emb[1:], span("end")]))
        else:
            raise ValueError(shape)
        if host == "doc":
            return document(top) if len(deps) % 2 else document(TagList(top))
        if host == "tag":
            return top
        return TagList(top)


class UrlCollector(html.parser.HTMLParser):
    def __init__(self):
        super().__init__(convert_charrefs=True)
        self.urls: list[tuple[str, str]] = []

    def handle_starttag(self, tag, attrs):
        a = dict(attrs)
        if tag == "script" and a.get("src") is not None:
            self.urls.append(("script", a["src"]))
        if tag == "link" and a.get("href") is not None:
            self.urls.append(("link", a["href"]))

    handle_startendtag = handle_starttag


def is_local_url(u: str) -> bool:
    sp = urllib.parse.urlsplit(u)
    return not sp.scheme and not sp.netloc and not sp.path.startswith("/")


def expected_local(r: Realised) -> dict[str, bytes | None]:
    """spec, transcribed from the property statement: decoded relative URL path ->
    bytes of the source file, for every script/stylesheet of a local dependency"""
    sc = r.sc
    out: dict[str, bytes | None] = {}
    for i in r.eff:
        d = sc["deps"][i]
        if d["kind"] in ("url", "none"):
            continue
        prefix = (r.libdir + "/") if r.libdir else ""
        for p in d["scripts"] + d["styles"]:
            src = os.path.join(r.srcdirs[i], p)
            content = open(src, "rb").read() if os.path.isfile(src) else None
            out[prefix + r.namever(i) + "/" + p] = content
    return out


def expected_target(r: Realised, i: int) -> dict[str, bytes]:
    """what the target directory of local dependency i must contain afterwards"""
    d = r.sc["deps"][i]
    src = snapshot(r.srcdirs[i])
    if d["all_files"]:
        return src
    listed = d["scripts"] + d["styles"]
    return {p: c for p, c in src.items() if any(p == q or p.startswith(q + "/") for q in listed)}


def spec_url(sc: dict, d: dict, ver: str, lib_prefix, iv: bool, p: str) -> str:
    """the URL shape of the statement (independent of posixpath.join)"""
    if d["kind"] == "url":
        h = d["href"]
        return (h[:-1] if h.endswith("/") else h) + "/" + urllib.parse.quote(p)
    pre = ""
    if lib_prefix:
        pre = (lib_prefix[:-1] if lib_prefix.endswith("/") else lib_prefix) + "/"
    return pre + d["name"] + ("-" + ver if iv else "") + "/" + urllib.parse.quote(p)


# --------------------------------------------------------------------------------------
# one scenario: save_html (or copy_to) on real directories; oracle + model comparison
# --------------------------------------------------------------------------------------
def run_scenario(ctx: Ctx, sc: dict, top: str, tag: str, mode: str, pending: list) -> None:
    """one copy/save on a freshly realised scenario"""
    r = Realised(sc, top, tag)
    try:
        copy_step(ctx, r, mode, pending, {"mode": mode, "scenario": sc})
    finally:
        r.cleanup_imports()


PROBE_ARGS = [(None, True), ("lib", False), ("p/q", True), ("", False), ("other", True)]


def dep_urls_spec(r: Realised, i: int, lp, iv: bool) -> tuple:
    d = r.sc["deps"][i]
    ver = str(r.deps[i].version)
    return ([spec_url(r.sc, d, ver, lp, iv, p) for p in d["styles"]],
            [spec_url(r.sc, d, ver, lp, iv, p) for p in d["scripts"]])


def markup_urls(text: str) -> tuple:
    pc = UrlCollector()
    pc.feed(text)
    pc.close()
    return ([u for k, u in pc.urls if k == "link"], [u for k, u in pc.urls if k == "script"])


def shape_for_some_prefix(r: Realised, i: int, got) -> bool:
    """got = (stylesheet URLs, script URLs) of dependency i is the statement's shape for SOME lib
    prefix and include_version (calls without arguments: the defaults are not the statement's business)"""
    d = r.sc["deps"][i]
    paths = (list(d["styles"]), list(d["scripts"]))
    if [len(x) for x in got] != [len(x) for x in paths]:
        return False
    if d["kind"] == "url":
        return tuple(got) == dep_urls_spec(r, i, None, True)
    for iv in (True, False):
        tails = [[r.namever(i, iv) + "/" + urllib.parse.quote(p) for p in ps] for ps in paths]
        flat_g, flat_t = list(got[0]) + list(got[1]), tails[0] + tails[1]
        if not flat_g:
            return True
        pre = flat_g[0][:len(flat_g[0]) - len(flat_t[0])] if flat_g[0].endswith(flat_t[0]) else None
        if pre is not None and (pre == "" or pre.endswith("/")) and all(g == pre + t for g, t in zip(flat_g, flat_t)):
            return True
    return False


def probe_targets(r: Realised) -> list[int]:
    loc = [i for i in dict.fromkeys(r.order) if r.sc["deps"][i]["kind"] != "none"]
    return loc[:2] + loc[2:][-1:]


def pre_probe(r: Realised, viol) -> None:
    """read-only calls on the dependency objects BEFORE the operation under test, with other
    arguments than the operation will use: as_dict / as_html_tags / source_path_map / str / copies.
    Each result is judged by the URL shape of the statement; the caller then changes the returned
    dict (its own object).  Whatever these calls leave behind in the dependency object or in the
    class shows in the operation that follows (which has the full oracle)."""
    for i in probe_targets(r):
        dep = r.deps[i]
        r.probe_k += 1
        lp, iv = PROBE_ARGS[r.probe_k % len(PROBE_ARGS)]
        want = dep_urls_spec(r, i, lp, iv)
        which = r.probe_k % 4
        if which == 0:
            o = call(lambda: dep.as_dict(lib_prefix=lp, include_version=iv))
            got = o if o[0] != "ok" else ([x["href"] for x in o[1]["stylesheet"]], [x["src"] for x in o[1]["script"]])
            if o[0] == "ok":            # the caller's own dict now: do with it as one pleases
                for x in o[1]["script"]:
                    x["src"] = "changed-by-caller.js"
                for x in o[1]["stylesheet"]:
                    x.clear()
                o[1]["script"].clear()
            what = "as_dict(lib_prefix=%r, include_version=%r)" % (lp, iv)
        elif which == 1:
            o = call(lambda: dep.as_html_tags(lib_prefix=lp, include_version=iv).get_html_string())
            got = o if o[0] != "ok" else markup_urls(o[1])
            what = "as_html_tags(lib_prefix=%r, include_version=%r)" % (lp, iv)
        elif which == 2:                # no arguments: the statement fixes the shape, not the defaults
            o = call(lambda: str(dep))
            got = o if o[0] != "ok" else markup_urls(o[1])
            want = got if o[0] == "ok" and shape_for_some_prefix(r, i, got) else dep_urls_spec(r, i, "lib", True)
            what = "str(dependency)"
        else:
            o = call(lambda: (_copy.deepcopy(dep) if r.probe_k % 8 == 3 else _copy.copy(dep)).as_dict(
                lib_prefix=lp, include_version=iv))
            got = o if o[0] != "ok" else ([x["href"] for x in o[1]["stylesheet"]], [x["src"] for x in o[1]["script"]])
            what = "copy of the dependency .as_dict(lib_prefix=%r, include_version=%r)" % (lp, iv)
        if got != want:
            viol("dependency URLs from %s are not prefix/name[-version]/path (local) or href/path (URL source)"
                 % what.split("(")[0], {"impl_output": got, "expected": want, "call": what,
                                        "dependency": r.sc["deps"][i]["name"]})


def post_probe(r: Realised, viol) -> None:
    """after the operation: the same dependency objects still give the URLs of the statement, for the
    arguments just used and for the defaults (nothing the operation did is remembered)"""
    for i in probe_targets(r)[:2]:
        dep = r.deps[i]
        for lp, iv, kw in ((r.libdir, r.iv, {"lib_prefix": r.libdir, "include_version": r.iv}), ("lib", True, {})):
            o = call(lambda: dep.as_dict(**kw))
            got = o if o[0] != "ok" else ([x["href"] for x in o[1]["stylesheet"]], [x["src"] for x in o[1]["script"]])
            want = dep_urls_spec(r, i, lp, iv)
            if not kw and o[0] == "ok" and shape_for_some_prefix(r, i, got):
                continue                # defaults: any prefix / include_version, but that shape
            if got != want:
                viol("after saving / copying, as_dict of the same dependency object gives other URLs than the statement's",
                     {"impl_output": got, "expected": want, "call": "as_dict(%r)" % kw,
                      "dependency": r.sc["deps"][i]["name"]})


def copy_step(ctx: Ctx, r: Realised, mode: str, pending: list, case: dict, reuse: bool = False) -> None:
    """mode 'save': save_html on the host object; 'copy': dep.copy_to for each of the document's
    (resolved) dependencies, with the current configuration of r, on whatever the directories
    contain right now.
    Applies the oracle and appends (model case, meta, real tree afterwards) to `pending`."""
    if True:
        sc, top = r.sc, r.top
        before_all = snapshot(top)
        mfs = r.model_fs()
        missing = r.first_missing()
        exp_local = expected_local(r)
        file_at_target = any(r.is_local(i) and os.path.isfile(r.target_dir(i)) for i in r.eff)
        doc_before = open(r.file, "rb").read() if os.path.isfile(r.file) else None
        t_before = [os.path.lexists(r.target_dir(i)) for i in range(len(r.deps))]

        def viol(what, detail):
            ctx.violation(what, case, detail)

        if sc.get("probe"):
            pre_probe(r, viol)
        if mode == "save":
            host = r.host_object(reuse)
            out, names = r.save(host)
        else:
            out = ("ok", None)
            how = sc.get("copy_path", "abs")
            old_cwd = os.getcwd()
            try:
                path = r.destdir
                if how == "slash":
                    path = r.destdir + "/"
                elif how == "rel":
                    os.chdir(top)
                    path = os.path.relpath(r.destdir, top)
                for i in r.eff:
                    dep = r.deps[i]
                    if how == "abs":
                        o = call(lambda: dep.copy_to(path, include_version=r.iv))
                    else:
                        o = call(lambda: dep.copy_to(path, r.iv))
                    if o[0] != "ok":
                        out = o
                        break
            finally:
                os.chdir(old_cwd)
        after_all = snapshot(top)
        # what the model must reproduce: the tree afterwards, without the written document
        real_after = {os.path.join(top, k): abs_bytes(v) for k, v in readable(after_all).items()
                      if os.path.join(top, k) != r.file}
        pending.append(([9, mfs, S(r.docdir), sx_opt(None if r.libdir is None else S(r.libdir)),
                         1 if r.iv else 0, [r.msx[i] for i in r.eff]],
                        (mode, case, top, "ok" if out[0] == "ok" else out, r.file), real_after))

        # ---------------- oracle (from the property statement) ----------------------------
        if missing is not None:
            i, p = missing
            if out[0] != "err":
                viol("a listed file is missing but copying did not raise", {"impl_output": out, "expected": "exception"})
            t = r.target_dir(i)
            rel = os.path.relpath(t, top)
            b = {k: v for k, v in before_all.items() if k == rel or k.startswith(rel + "/")}
            a = {k: v for k, v in after_all.items() if k == rel or k.startswith(rel + "/")}
            if a != b:
                viol("a listed file is missing and the target directory was touched before raising",
                     {"impl_output": sorted(a), "expected": sorted(b)})
            doc_after = open(r.file, "rb").read() if os.path.isfile(r.file) else None
            if mode == "save" and doc_after != doc_before:
                viol("save_html wrote the document although copying a dependency raised",
                     {"impl_output": "index.html written", "expected": "no (new) document"})
            return
        if file_at_target:
            return        # correspondence only: the property makes no claim when rmtree fails
        if out[0] != "ok":
            viol("copying raised although every listed file exists", {"impl_output": out, "expected": "ok"})
            return
        if mode == "save":
            if names != r.file or (r.file_form == "abs" and out[1] != r.file):
                viol(f"save_html on a {r.host} ({r.shape}) did not return the path it wrote",
                     {"impl_output": repr(out[1]), "expected": r.file_arg()[1]})
            if not os.path.isfile(r.file):
                viol("save_html did not write the file", {"impl_output": None, "expected": r.file})
                return
            with open(r.file, "rb") as fh:
                text = fh.read().decode("utf-8", "replace")
            pc = UrlCollector()
            pc.feed(text)
            pc.close()
            local = [u for _, u in pc.urls if is_local_url(u)]
            absolute = [u for _, u in pc.urls if not is_local_url(u)]
            seen = set()
            for u in local:
                sp = urllib.parse.urlsplit(u)
                rel = urllib.parse.unquote(sp.path)
                seen.add(rel)
                target = os.path.join(r.docdir, rel)
                want = exp_local.get(rel)
                if sp.query or sp.fragment:
                    viol("a local dependency URL has a query or fragment part (path not percent-encoded)",
                         {"impl_output": u, "expected": "path only"})
                elif rel not in exp_local:
                    viol("a local URL in the written file is not prefix/name[-version]/path of any dependency file",
                         {"impl_output": u, "expected": sorted(exp_local)})
                elif not os.path.isfile(target):
                    viol("a local URL in the written file does not name a copied file",
                         {"impl_output": u, "expected": target})
                elif open(target, "rb").read() != want:
                    viol("the file a local URL names is not byte-identical to its source",
                         {"impl_output": u, "expected": "source bytes"})
            if seen != set(exp_local):
                viol("the written file lacks the URL of a listed script/stylesheet",
                     {"impl_output": sorted(seen), "expected": sorted(exp_local)})
            # URL-sourced dependencies: href/path
            want_abs = []
            for i in r.eff:
                d = sc["deps"][i]
                if d["kind"] == "url":
                    want_abs += [spec_url(sc, d, "", r.libdir, r.iv, p) for p in d["styles"] + d["scripts"]]
            if sorted(absolute) != sorted(want_abs):
                viol("URL-sourced dependency: script/stylesheet URL is not href/path",
                     {"impl_output": sorted(absolute), "expected": sorted(want_abs)})
            if r.second_doc_urls:
                viol("a second document, made without dependencies after this one, has dependency URLs "
                     "(state shared between documents)", {"impl_output": r.second_doc_urls[:4], "expected": []})
            r.second_doc_urls = None
        post_probe(r, viol)
        # target directories: exactly the copied files, byte-identical; stale content gone
        claimed = [r.file] if mode == "save" else []
        for i in r.eff:
            d = sc["deps"][i]
            t = r.target_dir(i)
            if d["kind"] in ("url", "none"):
                if os.path.lexists(t) and not t_before[i]:
                    viol("a URL-sourced / source-less dependency created a directory",
                         {"impl_output": t, "expected": "nothing copied"})
                continue
            got = snapshot(t)
            want = expected_target(r, i)
            if got != want:
                stale_left = sorted(set(got) - set(want))
                what = ("stale contents of the dependency's target directory remain" if stale_left
                        else "copied files differ from their sources (missing or not byte-identical)")
                if any(v.startswith(UNREADABLE) for v in got.values()):
                    what = ("a path below the target directory is a link that cannot be read there (the source path "
                            "yields bytes: not a byte-identical copy)")
                viol(what, {"impl_output": sorted(got), "expected": sorted(want)})
            claimed.append(t)
        # a superseded version of a dependency that is in the document: the statement says nothing
        # about a directory of its own (name-otherversion); a directory it shares with the
        # dependency that won (no version in the name, or the same version) is that one's
        eff_targets = {r.target_dir(i) for i in r.eff}
        for i in r.superseded:
            if r.is_local(i) and r.target_dir(i) not in eff_targets:
                claimed.append(r.target_dir(i))

        # everything else untouched
        def outside(snap):
            return {k: v for k, v in snap.items()
                    if not any(os.path.join(top, k) == c or os.path.join(top, k).startswith(c + "/") for c in claimed)}
        if outside(before_all) != outside(after_all):
            viol("files outside the dependencies' target directories changed",
                 {"impl_output": sorted(set(outside(after_all)) ^ set(outside(before_all)))[:4]
                  or [k for k in outside(after_all) if outside(after_all)[k] != outside(before_all).get(k)][:4],
                  "expected": "unchanged"})


def check_pending(ctx: Ctx, name: str, pending: list) -> None:
    """compare the real outcomes with the abstract model's copy_to / save_html"""
    if not pending:
        return
    outs = run_model([p[0] for p in pending], driver="c12")
    dis = []
    for (case, meta, real_after), m in zip(pending, outs):
        mode, sc, top, status, docfile = meta
        if isinstance(m, tuple) or m == [999999, 999999]:
            dis.append({"case": sc, "impl_output": status, "model_output": repr(m)[:200]})
            continue
        mres = res_dec(m[0], lambda _: None)
        mstatus = "ok" if mres[0] == "ok" else mres
        mfs = {k: v for k, v in fs_from_sx(m[1]).items() if k.startswith(top + "/") and k != docfile}
        if mstatus != status:
            dis.append({"case": sc, "impl_output": status, "model_output": mstatus})
        elif mfs != real_after:
            diff = sorted(set(mfs) ^ set(real_after))[:4] or [k for k in mfs if mfs[k] != real_after.get(k)][:4]
            dis.append({"case": sc, "impl_output": "tree", "model_output": "tree differs at " + repr(diff)})
    ctx.corr_cases += len(pending)
    ctx.obligation(f"correspondence {name} ({len(pending)} scenarios on real directories)", not dis)
    if dis:
        ctx.extra.setdefault("disagreements", []).extend(dis[:3])
        ctx.extra[f"disagree_{name}"] = dis[:3]


# --------------------------------------------------------------------------------------
# fixed adversarial scenarios (run first)
# --------------------------------------------------------------------------------------
def fixed_scenarios() -> list[dict]:
    weird = {"a b.js": [1], "100%.js": [2], "%41.js": [3], "x#y.css": [4], "q?v=1.js": [5], "a&b.css": [6],
             "it's.js": [7], 'say"hi".js': [8], "<t>.js": [9], "x+y.js": [10], "é.css": [11],
             "日本/\U0001F600.js": [12], "a/b/c.js": [13], ".hidden": [14], "sub dir/d%20/e f.css": [15]}
    out = []
    for libdir, iv, host in itertools.product(LIBDIRS, [True, False], ["doc", "tag", "taglist"]):
        names = sorted(weird)
        dep = {"name": "dep", "version": "1.0", "kind": "dir", "all_files": False, "files": dict(weird),
               "scripts": [n for n in names if not n.endswith(".css")][:9],
               "styles": [n for n in names if n.endswith(".css")], "href": None,
               "stale": {"old.txt": [9, 9], "a/b/stale.js": [8], "a b.js": [0xEE]}, "stale_kind": "files"}
        dep2 = dict(dep, name="all", all_files=True, scripts=["a/b/c.js"], styles=[], kind="pkg")
        dep3 = {"name": "cdn", "version": "2.0", "kind": "url", "all_files": False, "files": {},
                "scripts": ["a b.js", "x/y.js"], "styles": ["s t.css"], "href": URL_HREFS[len(out) % 2],
                "stale": {}, "stale_kind": "none"}
        dep4 = {"name": "meta", "version": "0.1", "kind": "none", "all_files": False, "files": {},
                "scripts": [], "styles": [], "href": None, "stale": {}, "stale_kind": "none"}
        dep5 = {"name": "react", "version": "17.0.2", "kind": "react", "all_files": (len(out) % 2 == 0), "files": {},
                "scripts": ["react.production.min.js"], "styles": [], "href": None,
                "stale": {"junk.js": [1]}, "stale_kind": "files"}
        out.append({"libdir": libdir, "iv": iv, "host": host, "shape": "fragment",
                    "deps": [dep, dep2, dep3, dep4, dep5],
                    "outside": {"keep.txt": [1, 2, 3], "lib/other-1.0/o.js": [4]}, "missing": None})
    return out


def shape_scenarios() -> list[dict]:
    """complete cross: content shape x way of calling save_html x libdir x include_version, with two
    local dependencies (one listing awkward file names, one all_files) and a URL-sourced one"""
    files = {"a b.js": [1, 2], "s/\u00e9%.css": [3], "%41.js": [4]}
    out = []
    for shape, host, libdir, iv in itertools.product(SHAPES, ["doc", "tag", "taglist"], LIBDIRS, [True, False]):
        dep = {"name": "dep", "version": "1.2", "kind": "dir", "all_files": False, "files": dict(files),
               "scripts": ["a b.js", "%41.js"], "styles": ["s/\u00e9%.css"], "href": None,
               "stale": {"old.txt": [9]}, "stale_kind": "files"}
        dep2 = dict(dep, name="w~1", version="0.3", all_files=True, scripts=["a b.js"], styles=[], stale={},
                    stale_kind="none", files=dict(files))
        dep3 = {"name": "cdn", "version": "2.0", "kind": "url", "all_files": False, "files": {},
                "scripts": ["x y.js"], "styles": [], "href": URL_HREFS[len(out) % 2], "stale": {}, "stale_kind": "none"}
        out.append({"libdir": libdir, "iv": iv, "host": host, "shape": shape, "deps": [dep, dep2, dep3],
                    "outside": {"keep.txt": [1]}, "missing": None})
    return out


def family_scenarios() -> list[dict]:
    """complete cross: document order of several objects for ONE dependency name (an older version,
    a newer one whose number is lexically smaller, a second object with the newer version's number
    but other files, the same object twice) and a bystander x include_version x way of calling
    save_html; libdir, content shape, embedding and the spelling of the file argument rotate"""
    f_old = {"grid.js": [1, 1], "css/old \u00e9.css": [2], "only old%.js": [3]}
    f_new = {"grid.js": [9, 9, 9], "css/new#.css": [8]}
    f_eq = {"grid.js": [7], "css/new#.css": [6, 6], "eq only.js": [5]}
    orders = [[0, 1, 2], [1, 0, 2], [1, 2, 0], [1, 0, 1], [0, 2, 0], [1, 3, 2], [3, 1, 0], [2, 1, 1, 0, 3]]
    out = []
    for order, iv, host in itertools.product(orders, [True, False], ["doc", "tag", "taglist"]):
        k = len(out)
        af = k % 4 == 1

        def dep(name, version, files, scripts, styles, kind="dir", all_files=False, stale=None):
            return {"name": name, "version": version, "kind": kind, "all_files": all_files, "files": dict(files),
                    "scripts": list(scripts), "styles": list(styles), "href": None,
                    "stale": dict(stale or {}), "stale_kind": "files" if stale else "none"}
        deps = [dep("grid", "2.3.4", f_old, ["grid.js", "only old%.js"], ["css/old \u00e9.css"],
                    stale={"old.txt": [4]} if k % 3 == 0 else None),
                dep("grid", "10", f_new, ["grid.js"], ["css/new#.css"], kind="pkg" if k % 5 == 2 else "dir",
                    all_files=af, stale={"grid.js": [0xEE], "css/gone.css": [1]} if k % 2 else None),
                dep("other", "1.0", {"o p.js": [3, 3]}, ["o p.js"], []),
                dep("grid", "10.0", f_eq, ["grid.js", "eq only.js"], ["css/new#.css"])]
        out.append({"libdir": LIBDIRS[k % len(LIBDIRS)], "iv": iv, "host": host, "shape": SHAPES[(k // 2) % len(SHAPES)],
                    "deps": deps, "doc_order": order, "nest": [NESTS[(k + j) % len(NESTS)] for j in range(len(order))],
                    "file_form": FILE_FORMS[(k // 3) % len(FILE_FORMS)],
                    "outside": {"keep.txt": [1], "lib/grid-1.0/x.js": [2]}, "missing": None})
    return out


def route_scenarios() -> list[dict]:
    """complete cross: entry point (route) x include_version x libdir; and: way the children got into
    the host (via) x object that is saved (post) x host, for save_html.  Argument style, content
    shape, embedding of the dependencies, constructor spelling, placeholder and probes rotate."""
    files = {"a b.js": [1, 2], "s/\u00e9%.css": [3], "%41.js": [4], "back\\slash.js": [5]}
    all_nests = NESTS + NESTS_MORE
    out = []
    crosses = [(r, iv, ld, None, None, None) for r, iv, ld in itertools.product(ROUTES, [True, False], LIBDIRS)]
    crosses += [("save_html", None, None, v, po, h)
                for v, po, h in itertools.product(VIAS, POSTS, ["doc", "tag", "taglist"])]
    for route, iv, libdir, via, post, host in crosses:
        k = len(out)
        dep = simple_dep("dep", "1.2", files, stale={"old.txt": [9]})
        dep["ctor"] = {"one_dict": k % 2 == 0, "extra": k % 3 == 0, "meta": k % 4 == 1,
                       "head": ([None] + HEAD_FORMS)[k % 4],
                       "version_obj": k % 5 == 2, "subdir": SUBDIR_FORMS[k % 4], "subpkg": k % 2 == 1}
        dep2 = simple_dep("w~1", "0.3", files, scripts=["a b.js"], styles=[], all_files=True,
                          kind="pkg" if k % 2 else "dir")
        dep2["ctor"] = {"one_dict": True, "subdir": SUBDIR_FORMS[(k + 1) % 4], "subpkg": k % 4 == 1}
        dep3 = {"name": "cdn", "version": "2.0", "kind": "url", "all_files": False, "files": {},
                "scripts": ["x y.js"], "styles": ["t/u v.css"], "href": URL_HREFS[k % len(URL_HREFS)], "stale": {},
                "stale_kind": "none"}
        out.append({"libdir": LIBDIRS[k % 4] if libdir is None and iv is None else libdir,
                    "iv": (k % 2 == 0) if iv is None else iv,
                    "host": host or ["doc", "tag", "taglist"][k % 3], "shape": SHAPES[(k // 3) % len(SHAPES)],
                    "deps": [dep, dep2, dep3], "doc_order": [0, 1, 2, 0][:3 + k % 2],
                    "nest": [all_nests[(k + j) % len(all_nests)] for j in range(3 + k % 2)],
                    "outside": {"keep.txt": [1]}, "missing": None, "route": route,
                    "via": VIAS[k % len(VIAS)] if via is None and host is None else via,
                    "post": POSTS[(k // 2) % len(POSTS)] if post is None and host is None else post,
                    "argstyle": k % 3, "probe": k % 2 == 0, "dup_kid": k % 5 == 0,
                    "doc_kwargs": [None, {"lang": "en"}, {"class_": "a b", "style": "margin:0"}][k % 3],
                    "copy_path": ["abs", "slash", "rel"][k % 3],
                    "text": {"pat": k % len(TEXT_PATTERNS), "pad": [0, 300][k % 2], "twice": k % 3 == 0,
                             "indent": [None, 0, 2, 7][k % 4], "json_via": ["str", "serialize"][(k // 2) % 2],
                             "empty_deps": k % 5 == 0}})
    return out


# --------------------------------------------------------------------------------------
# source trees with symbolic links
# --------------------------------------------------------------------------------------
LINK_FILES = {"app.js": [1, 2], "css/site \u00e9.css": [3], "js/v/w/deep.js": [4], "data/d.bin": [5, 6]}
LINK_STORE = {"vendor x.js": [7, 7, 7], "sdir/inner \u00e9.css": [8], "sdir/sub/t.js": [9]}
LINK_LEVELS = {0: "", 1: "js/", 2: "js/v/", 3: "js/v/w/"}


def link_dep(name: str, links: list, listed_extra: list, all_files: bool, kind: str = "dir") -> dict:
    d = simple_dep(name, "1.4", LINK_FILES, scripts=["app.js"] + [p for p in listed_extra if not p.endswith(".css")],
                   styles=[p for p in listed_extra if p.endswith(".css")], kind=kind, all_files=all_files,
                   stale={"old.txt": [9], "js/stale.js": [8]})
    d["links"], d["store"] = links, dict(LINK_STORE)
    return d


def link_shape(what: str, level: int, where: str, absolute: bool) -> tuple:
    """(links, a path that a URL can name through the link)"""
    base = LINK_LEVELS[level]
    if what == "file":
        lp = base + "ln \u00e9.js"
        return [[lp, where, "data/d.bin" if where == "in" else "vendor x.js", absolute]], lp
    if what == "dir":
        lp = base + "lnd"
        return ([[lp, where, "css" if where == "in" else "sdir", absolute]],
                lp + ("/site \u00e9.css" if where == "in" else "/inner \u00e9.css"))
    # a chain of two links: c1 -> c2 (same directory) -> the file
    c1, c2 = base + "c1.js", base + "c2 x.js"
    return [[c2, where, "data/d.bin" if where == "in" else "vendor x.js", absolute],
            [c1, "in", c2, False]], c1


def link_scenarios() -> list[dict]:
    """complete cross: link to a file / to a directory / chain of two links x at the top of the source
    directory or 1-3 levels down x target inside the source directory or outside it x relative or
    absolute link text, each for an all_files dependency and for one that lists the path through the
    link explicitly; plus a listed link that dangles (= a listed file that is missing).  libdir,
    include_version, host, content shape and source kind rotate."""
    out = []
    for what, level, where, absolute, af in itertools.product(["file", "dir", "chain"], [0, 1, 2, 3], ["in", "out"],
                                                              [False, True], [True, False]):
        k = len(out)
        links, through = link_shape(what, level, where, absolute)
        dep = link_dep("linked", links, [] if af else [through], af, kind="pkg" if k % 5 == 3 else "dir")
        out.append({"libdir": LIBDIRS[k % 4], "iv": k % 3 != 0, "host": ["doc", "tag", "taglist"][k % 3],
                    "shape": SHAPES[(k // 2) % len(SHAPES)], "deps": [dep, simple_dep("plain", "1.0", {"p.js": [1]})],
                    "outside": {"keep.txt": [1]}, "missing": None, "links": [what, level, where, absolute, af]})
    for k, absolute in enumerate([False, True]):
        dep = link_dep("linked", [["js/gone.js", "out", "no such file.js", absolute]], ["js/gone.js"], False)
        out.append({"libdir": LIBDIRS[k], "iv": True, "host": "doc", "shape": "fragment", "deps": [dep],
                    "outside": {"keep.txt": [1]}, "missing": None, "links": ["dangling listed", 1, "out", absolute, False]})
    return out


def rand_link_scenario(rng) -> dict:
    """a random local dependency to whose source tree 1-3 links are added"""
    while True:
        sc = rand_scenario(rng)
        loc = [d for d in sc["deps"] if d["kind"] in ("dir", "pkg") and d.get("share") is None
               and not any(e.get("share") is not None for e in sc["deps"])]
        if loc:
            break
    d = rng.choice(loc)
    taken = set(d["files"])
    d["store"] = {"out \u00e9.js": rand_bytes(rng), "od/x y.css": rand_bytes(rng), "od/e/z.js": rand_bytes(rng)}
    d["links"] = []
    dirs_in = sorted({p.rsplit("/", 1)[0] for p in d["files"] if "/" in p})
    for n in range(rng.randrange(1, 4)):
        base = rng.choice([""] + [x + "/" for x in dirs_in] + ["nl%d/" % n, "nl%d/deep er/" % n])
        where = rng.choice(["in", "out", "out"])
        to_dir = rng.random() < 0.4 and (where == "out" or dirs_in)
        lp = base + ("lnk%d d" % n if to_dir else "lnk%d \u00e9.js" % n)
        if any(q == lp or q.startswith(lp + "/") or lp.startswith(q + "/") for q in taken):
            continue
        if where == "in":
            target = rng.choice(dirs_in) if to_dir else rng.choice(sorted(d["files"]))
            if to_dir and (base.startswith(target + "/") or base == target + "/"):
                continue            # no link to a directory that contains the link (a cycle)
        else:
            target = "od" if to_dir else rng.choice(["out \u00e9.js", "od/e/z.js"])
        d["links"].append([lp, where, target, rng.random() < 0.4])
        taken.add(lp)
        if not to_dir and not d["all_files"] and rng.random() < 0.7:
            d["scripts"].append(lp)
    if rng.random() < 0.6:
        d["all_files"] = True
    return sc


def show_available() -> bool:
    import socket
    try:
        with socket.socket() as sk:
            sk.bind(("", 0))
        return True
    except OSError:
        return False


def show_scenarios(rng, n: int) -> list[dict]:
    """Tag.show / TagList.show with the browser renderer: libdir and include_version are the defaults"""
    out = []
    for k in range(n):
        sc = rand_scenario(rng, libdir="lib", iv=True, route="show", host=["tag", "taglist", "doc"][k % 3])
        sc.pop("file_form", None)
        out.append(sc)
    return out


def exhaustive_scenarios() -> list[dict]:
    """small scope, complete: libdir x include_version x all_files x source kind x stale state x
    every subset of three awkward files being listed (scripts first, stylesheets second)"""
    files = {"a b.js": [1, 2], "s/\u00e9.css": [3], "%41.js": [4, 5, 6]}
    names = sorted(files)
    out = []
    for libdir, iv, af, kind, stale_mode in itertools.product(LIBDIRS, [True, False], [False, True],
                                                              ["dir", "pkg"], ["none", "files", "same"]):
        for mask in range(8):
            listed = [n for k, n in enumerate(names) if mask >> k & 1]
            stale = ({} if stale_mode == "none" else {"old/x.txt": [7]} if stale_mode == "files"
                     else {"a b.js": [0xEE], "zz": [8]})
            dep = {"name": "dep", "version": "1.2", "kind": kind, "all_files": af, "files": dict(files),
                   "scripts": [n for n in listed if n.endswith(".js")],
                   "styles": [n for n in listed if n.endswith(".css")], "href": None,
                   "stale": stale, "stale_kind": "files" if stale else "none"}
            out.append({"libdir": libdir, "iv": iv, "host": ["doc", "tag", "taglist"][len(out) % 3],
                        "shape": SHAPES[(len(out) // 3) % len(SHAPES)],
                        "deps": [dep], "outside": {"keep.txt": [1]}, "missing": None})
    return out


# --------------------------------------------------------------------------------------
# histories: several copies / saves of the SAME dependency objects in one process, with the
# source and destination directories changing in between
# --------------------------------------------------------------------------------------
def rand_history(rng, pattern: str | None = None, length: int | None = None) -> dict:
    """a base scenario plus 2-4 copy/save steps separated by 0-2 mutation steps.
    step ::= ["save"|"copy", libdir, iv, host, shape, reuse the document object of an earlier step, file form]
           | ["delete", i, p] | ["restore", i, p, bytes] | ["change", i, p, bytes]
           | ["add", i, p, bytes] | ["rename", i, p, q]
           | ["stale", i, rel, bytes, libdir, iv]
    Only sources of kind dir / pkg (temporary directories) are ever modified; listed files of
    all_files dependencies are never deleted or renamed."""
    while True:
        sc = rand_scenario(rng)
        loc = [i for i, d in enumerate(sc["deps"]) if d["kind"] in ("dir", "pkg") and d.get("share") is None]
        listed_loc = [i for i in loc if not sc["deps"][i]["all_files"]
                      and sc["deps"][i]["scripts"] + sc["deps"][i]["styles"]]
        if loc and (listed_loc or pattern in (None, "allfiles", "resave")) and (
                length is None or sum(len(d["files"]) for d in sc["deps"]) <= 8):
            if pattern == "allfiles" and not any(sc["deps"][i]["all_files"] for i in loc):
                sc["deps"][loc[0]]["all_files"] = True
            break
    for d in sc["deps"]:      # no regular file in place of a target directory here
        if d["stale_kind"] == "file_at_target":
            d["stale_kind"], d["stale"] = "none", {}
    cur = {i: dict(sc["deps"][i]["files"]) for i in loc}       # current source content
    deleted: dict[int, dict[str, list[int]]] = {i: {} for i in loc}
    steps: list = []
    uniq = itertools.count()
    cfg = [sc["libdir"], sc["iv"], sc["host"]]

    def copy_step_desc(same: bool):
        if not same and rng.random() < 0.35:
            cfg[0] = rng.choice(LIBDIRS)
        if not same and rng.random() < 0.35:
            cfg[1] = rng.random() < 0.5
        cfg[2] = rng.choice(["doc", "tag", "taglist"])
        return [rng.choice(["save", "save", "copy"]), cfg[0], cfg[1], cfg[2],
                rng.choice(SHAPES) if not same or rng.random() < 0.5 else "fragment",
                rng.random() < 0.5, rng.choice(FILE_FORMS) if rng.random() < 0.3 else "abs",
                rng.choice(ROUTES) if rng.random() < 0.3 else None]

    def mutation():
        i = rng.choice(loc)
        d = sc["deps"][i]
        listed = [p for p in dict.fromkeys(d["scripts"] + d["styles"])]
        # files that a dependency served from the same directory lists: they stay (a listed file of
        # an all_files dependency that does not exist is outside the statement)
        pinned = [p for e in sc["deps"] if e.get("share") == i for p in e["scripts"] + e["styles"]]
        deletable = [p for p in listed if p in cur[i] and p not in pinned]
        ops = ["stale", "add"]
        if cur[i]:
            ops += ["change", "change"]
        if deletable and not d["all_files"]:
            ops += ["delete", "delete", "delete"]
        if deleted[i]:
            ops += ["restore", "restore", "restore"]
        unlisted = [p for p in cur[i] if not any(p == q or p.startswith(q + "/") for q in listed + pinned)]
        if unlisted:
            ops += ["rename"]
        op = rng.choice(ops)
        k = next(uniq)
        if op == "delete":
            p = rng.choice(deletable)
            deleted[i][p] = cur[i].pop(p)
            return ["delete", i, p]
        if op == "restore":
            p = rng.choice(sorted(deleted[i]))
            b = deleted[i].pop(p) if rng.random() < 0.7 else (deleted[i].pop(p) and rand_bytes(rng))
            cur[i][p] = b
            return ["restore", i, p, b]
        if op == "change":
            p = rng.choice(sorted(cur[i]))
            nb = rand_bytes(rng)
            cur[i][p] = nb + [k % 256] if isinstance(nb, list) else nb
            return ["change", i, p, cur[i][p]]
        if op == "add":
            p = rng.choice([f"new{k} file.js", f"nd{k}/x y%.css", f"n{k}é.txt"])
            cur[i][p] = rand_bytes(rng)
            return ["add", i, p, cur[i][p]]
        if op == "rename":
            p = rng.choice(sorted(unlisted))
            q = rng.choice([f"rn{k} é.js", f"rd{k}/r#.css"])
            cur[i][q] = cur[i].pop(p)
            return ["rename", i, p, q]
        return ["stale", i, rng.choice([f"zz stale{k}.txt", f"zd{k}/old%.js"]), rand_bytes(rng), cfg[0], cfg[1]]

    if pattern == "delete":          # copy, delete a listed file, copy (must raise), restore, copy
        winners = [i for i in listed_loc if i in resolved_indices(sc)]
        i = rng.choice(winners if winners and rng.random() < 0.75 else listed_loc)
        d = sc["deps"][i]
        p = rng.choice(d["scripts"] + d["styles"])
        steps = [copy_step_desc(True), ["delete", i, p], copy_step_desc(rng.random() < 0.7)]
        if rng.random() < 0.6:
            steps += [["restore", i, p, cur[i][p] if rng.random() < 0.5 else rand_bytes(rng)], copy_step_desc(True)]
    elif pattern == "resave":        # the SAME document / tag / list object saved again with another
        host, shape = rng.choice(["doc", "doc", "tag", "taglist"]), rng.choice(SHAPES)   # libdir / include_version
        steps = [["save", cfg[0], cfg[1], host, shape, False, "abs"]]
        for _ in range(rng.randrange(1, 3)):
            for _ in range(rng.randrange(0, 2)):
                steps.append(mutation())
            r_ = rng.random()
            if r_ < 0.4:
                cfg[1] = not cfg[1]
            elif r_ < 0.8:
                cfg[0] = rng.choice([x for x in LIBDIRS if x != cfg[0]])
            steps.append(["save", cfg[0], cfg[1], host, shape, True,
                          rng.choice(FILE_FORMS) if rng.random() < 0.3 else "abs"])
    elif pattern == "allfiles":      # copy, add / rename / change in the source, copy
        steps = [copy_step_desc(True)]
        for _ in range(rng.randrange(1, 3)):
            for _ in range(rng.randrange(1, 3)):
                steps.append(mutation())
            steps.append(copy_step_desc(rng.random() < 0.7))
    else:         # with `length`: that many copy/save steps in one history
        for n in range(rng.randrange(2, 5) if length is None else length):
            if n > 0 or rng.random() < 0.3:
                for _ in range(rng.randrange(0, 3)):
                    steps.append(mutation())
            steps.append(copy_step_desc(False))
    return {"scenario": sc, "steps": steps}


def apply_mutation(r: Realised, st: list) -> None:
    op, i = st[0], st[1]
    srcdir = r.srcdirs[i]
    assert r.sc["deps"][i]["kind"] in ("dir", "pkg") and srcdir.startswith(r.top + "/")
    if op == "delete":
        os.remove(os.path.join(srcdir, st[2]))
    elif op in ("restore", "change", "add"):
        write_tree(srcdir, [(st[2], st[3])])
    elif op == "rename":
        dst = os.path.join(srcdir, st[3])
        os.makedirs(os.path.dirname(dst), exist_ok=True)
        os.rename(os.path.join(srcdir, st[2]), dst)
    elif op == "stale":
        write_tree(r.target_dir_for(i, st[4], st[5]), [(st[2], st[3])])
    else:
        raise ValueError(op)


def run_history(ctx: Ctx, h: dict, top: str, tag: str, pending: list) -> int:
    """returns the number of copy/save steps performed"""
    r = Realised(h["scenario"], top, tag)
    n = 0
    try:
        for k, st in enumerate(h["steps"]):
            if st[0] in ("save", "copy"):
                r.configure(st[1], st[2], st[3], st[4] if len(st) > 4 else "fragment",
                            st[6] if len(st) > 6 else "abs",
                            st[7] if len(st) > 7 and st[7] else r.sc.get("route", "save_html"))
                n += 1
                copy_step(ctx, r, st[0], pending,
                          {"mode": "history", "scenario": h["scenario"], "steps": h["steps"], "at_step": k},
                          reuse=bool(st[5]) if len(st) > 5 else False)
            else:
                apply_mutation(r, st)
    finally:
        r.cleanup_imports()
    return n


def missing_variants(sc: dict) -> list[dict]:
    """one scenario per listed file of every local dependency without all_files"""
    out = []
    for i, d in enumerate(sc["deps"]):
        if d["kind"] not in ("dir", "pkg") or d["all_files"]:
            continue
        for p in sorted(set(d["scripts"] + d["styles"])):
            out.append(dict(sc, missing=[i, p]))
    return out


# --------------------------------------------------------------------------------------
def string_cases(ctx: Ctx) -> list[str]:
    rng = ctx.rng
    alpha = list("%%%/ab AZaz09_.-~#?&'\"<>+é日本\U0001F600\u0080߿ࠀ￿\U00010000\U0010ffff") + [
        "%41", "%e9", "%C3%A9", "%E6%97%A5", "%F0%9F%98%80", "%c3", "%A9", "%ED%A0%80", "%F4%90", "%zz", "%4",
        "%E0%80", "%C0%AF", "%F8", "%80", "%2F", "%2f", "%25", "%"]
    out = ["", "/", "a b", "%", "%%", "%4", "%41", "%4g", "a%2Fb", "é%41", "%C3é%A9", "~", "a/b/c.js"]
    for _ in range(ctx.budget(12000, 150000)):
        r = rng.random()
        n = rng.randrange(0, 10)
        if r < 0.55:
            out.append("".join(rng.choice(alpha) for _ in range(n)))
        elif r < 0.75:
            out.append("".join(trees.rand_char(rng) for _ in range(n)))
        elif r < 0.9:
            out.append("".join("%%%02X" % rng.randrange(256) if rng.random() < 0.8 else trees.rand_char(rng)
                               for _ in range(n)))
        else:
            out.append(trees.rand_text(rng, 12))
    # long strings (>= 300, >= 5000, >= 70000 characters) whose awkward part is the tail
    for n in [300, 5000, 70000] if ctx.quick else [300, 1000, 5000, 20000, 70000, 140000]:
        # (the extracted model is not tail-recursive: its result must stay below ~250000 characters,
        # so the longest strings are made of pieces that quote to little more than themselves)
        fill = rng.choice(["a", "ab/", "\u00e9", "%41", "x y"] if n <= 20000 else
                          ["a", "ab/", "%41", "x y"] if n <= 70000 else ["a", "ab/"])
        out.append((fill * (n // len(fill) + 1))[:n] + rng.choice([" \u00e9%41/%", "%C3%A9%zz%4", "/\U0001F600 #?"]))
    for n in SIZES:
        out.append("a" * (n - 1) + rng.choice(["%", " ", "\u00e9", "/", "%41"]))
    return out


def run(ctx: Ctx) -> None:
    rng = ctx.rng
    ctx.rule = ("strings: random strings over all of Unicode, a percent/slash/metacharacter-heavy alphabet, "
                "well-formed and ill-formed %XX sequences (quote, unquote, UTF-8 codec, posixpath.join); "
                "dependencies: names x versions x sources (directory, temporary package, the htmltools package "
                "itself, URL with/without trailing slash, None) x lib_prefix/libdir in {None, '', 'lib', 'a/b'} (+ "
                "out-of-domain prefixes for the URL correspondence) x include_version x all_files, file names "
                "built from pieces containing space % # ? & ' \" < > + \\ tab newline non-ASCII and emoji, nested "
                "directories, dot-files, the same file listed twice; scenarios on real temporary directories: "
                "save_html on HTMLDocument / Tag / TagList whose content is a fragment, a lone <body> tag or a lone "
                "<html> tag (with / without head and body, dependencies inside head, body or both), and copy_to directly, with stale files (also with "
                "the names of real files) in the target directory, bystander files, a regular file in place of "
                "the target directory, and one scenario per choice of missing listed file; histories: 2-4 copy/save steps (changing libdir / "
                "include_version / host) on the same dependency objects and directories in one process, separated "
                "by deleting / restoring / changing listed source files (and a pattern that saves the very same object again under another libdir / include_version), adding / renaming source files, dropping "
                "stale files into a target directory, with the full oracle and the model comparison after every "
                "step (optionally on the document object of an earlier step). Documents hold several objects "
                "for one dependency name (older / newer / numerically-but-not-lexically newer / equal versions "
                "with other files, kinds and all_files settings), the same object at several places, two names "
                "served from one source directory, in every document order and embedded directly, in nested "
                "tags, in a TagList, in a list child or produced only by a user object's tagify(); the "
                "dependencies a saved document has are the resolved ones of C10/C11 (one per name, highest "
                "version, earliest on ties, names by first occurrence), so a superseded version must neither "
                "disturb the winner's directory nor make saving fail; the file argument of save_html is "
                "absolute, relative to the current directory, has a redundant ../ component or goes through a "
                "symbolic link. Entry points and argument spellings (list at the top of the module): besides "
                "save_html (keywords / positional / defaults left out) the same scenario is driven through "
                "HTMLDocument.render(lib_prefix, include_version) + copy_to of the returned dependencies, through "
                "HTMLTextDocument.render with the dependencies given directly or travelling inside the text (json "
                "render mode via str(), or serialize_to_script_json(indent=..)) with placeholders containing regex "
                "metacharacters, long templates and a second dependency-free document made afterwards, and through "
                "Tag/TagList.show(renderer='browser'); the host's children arrive by constructor / append / extend / "
                "insert / + and += / a with-block, and the host itself or its copy / deepcopy / tagify() is saved; "
                "HTMLDocument gets html attributes; dependencies are constructed with a lone item as a dict, extra "
                "item attributes, meta items, a head payload, a Version object, source directories spelled with a "
                "trailing slash or redundant components, sub-package sources; they sit inside JSX components (whose "
                "own react / react-dom dependencies are then definitions of the scenario), next to head_content and "
                "source-less dependencies, below chains of tags / lists / tuples / TagLists; copy_to gets its path "
                "absolute, with a trailing slash or relative. Read-only calls (as_dict / as_html_tags / str / "
                "copies, with other arguments; the returned dict then changed by the caller) run before the "
                "operation and as_dict again after it, each judged by the URL shape of the statement. Sizes: every "
                "countable thing (dependencies, scripts, stylesheets, files below an all_files directory, path "
                "depth, nesting depth, objects of one name, libdir depth, stale files, file-name / dependency-name / "
                "version length, occurrences of one object, template length, steps of a history) at 7..300 (quick: "
                "the largest and two others each), files of 8 KiB .. 1.5 MiB at, around and beyond every usual buffer "
                "size with sizes that are no multiple of one (contents without repeating blocks), strings and paths "
                "of 300 / 5000 / 70000 characters with the awkward part last. A scenario is "
                "non-trivial when a file name needs quoting or is nested, or the target has stale content, or a "
                "source is a package/URL/None, or a file is missing; distinct = distinct canonical scenario "
                "descriptions / strings.")
    ctx.assumptions = [
        "the extracted OCaml model behaves as the Gallina model (ExtrOcamlBasic only)",
        "urllib.parse.quote/unquote, posixpath.join, bytes.decode are modelled (and compared on every run), "
        "not verified; str(packaging Version) is an input of the model",
        "the filesystem theorems are about an abstract filesystem (finite map path -> bytes): symlinks, "
        "permissions, Path.resolve(), empty directories, copytree/rmtree internals are runtime behaviour "
        "observed only by the differential run on real temporary directories (partial)",
        "agreement theorems assume dependency names, versions and libdir components of URL-safe characters: "
        "the code does not quote them",
    ]
    ctx.proof()

    # ---- B/C 1: quote / unquote / codec / join ------------------------------------------
    strs = string_cases(ctx)

    def nontriv_s(s):
        return any(c in s for c in "%/ #?") or any(ord(c) > 127 for c in s)

    def oracle_quote(s, out):
        if out[0] != "ok":
            return None if any(0xD800 <= ord(c) <= 0xDFFF for c in s) else "quote raised on a string of scalar values"
        q = out[1]
        ok_chars = set("ABCDEFGHIJKLMNOPQRSTUVWXYZabcdefghijklmnopqrstuvwxyz0123456789_.-~/")
        i = 0
        while i < len(q):
            if q[i] == "%":
                if not (i + 3 <= len(q) and q[i + 1] in "0123456789ABCDEF" and q[i + 2] in "0123456789ABCDEF"):
                    return "quoted text has a % that is not followed by two upper-case hex digits"
                i += 3
            elif q[i] in ok_chars:
                i += 1
            else:
                return "quoted text has a character outside the safe set"
        if urllib.parse.unquote(q) != s:
            return "unquote(quote(s)) != s"
        if q.count("/") != s.count("/") or [urllib.parse.unquote(x) for x in q.split("/")] != s.split("/"):
            return "quote changed the segment structure"
        return None

    differential(ctx, "urllib.parse.quote", strs, to_sx=lambda s: [1, S(s)],
                 impl=lambda s: call(urllib.parse.quote, s), decode=lambda m: res_dec(m, unS),
                 oracle=oracle_quote, nontrivial=nontriv_s, kind=lambda s: "string (quote)", driver="c12")
    sur = ["\ud800", "a\udfffb", "\udc80/x"]
    differential(ctx, "urllib.parse.quote (surrogates raise)", sur, to_sx=lambda s: [1, S(s)],
                 impl=lambda s: call(urllib.parse.quote, s), decode=lambda m: res_dec(m, unS),
                 kind=lambda s: "string (quote)", driver="c12")
    # (the model's unquote is a proof-friendly definition whose running time grows faster than
    # linearly: 0.2 s at 5000 characters, minutes at 70000; unquote is a stdlib function used by the
    # oracle, not library code, so the longest strings go through quote / UTF-8 / the oracle only)
    differential(ctx, "urllib.parse.unquote", [s for s in strs if len(s) <= (6000 if ctx.quick else 21000)],
                 to_sx=lambda s: [2, S(s)],
                 impl=lambda s: urllib.parse.unquote(s), decode=unS,
                 nontrivial=nontriv_s, kind=lambda s: "string (unquote)", driver="c12")
    bs = [bytes(rng.choice([rng.randrange(256), rng.choice([0xC2, 0xE0, 0xED, 0xF0, 0xF4, 0x80, 0xA0, 0x90, 0xBF,
                                                          0x9F, 0x8F, 0x41, 0xE2, 0xF1, 0xC0, 0xF5])])
                for _ in range(rng.randrange(0, 7))) for _ in range(ctx.budget(8000, 120000))]
    differential(ctx, "bytes.decode('utf-8', 'replace')", bs, to_sx=lambda b: [3, list(b)],
                 impl=lambda b: b.decode("utf-8", "replace"), decode=unS,
                 nontrivial=lambda b: any(x >= 128 for x in b), kind=lambda b: "byte string", driver="c12")
    scal = [s for s in strs if not any(0xD800 <= ord(c) <= 0xDFFF for c in s)][:ctx.budget(4000, 60000)]
    if not ctx.quick:
        cps = [c for c in range(0x110000) if not 0xD800 <= c <= 0xDFFF]
        scal += ["".join(chr(c) for c in cps[i:i + 64]) for i in range(0, len(cps), 64)]
    differential(ctx, "str.encode('utf-8')", scal, to_sx=lambda s: [4, S(s)],
                 impl=lambda s: list(s.encode("utf-8")), decode=lambda m: m,
                 oracle=lambda s, out: None if bytes(out).decode("utf-8") == s else "utf-8 round trip",
                 nontrivial=nontriv_s, kind=lambda s: "string (utf-8)", driver="c12")
    ps = ["", "/", "a", "a/", "/a", "a//", "lib", "https://x/y", "https://x/y/", "a b", "//", "%", "a/b", "x.js", "é/"]
    joins = [(a, b) for a in ps for b in ps] + [(trees.rand_text(rng, 6), trees.rand_text(rng, 6))
                                                for _ in range(ctx.budget(1000, 10000))]
    differential(ctx, "posixpath.join", joins, to_sx=lambda c: [5, S(c[0]), S(c[1])],
                 impl=lambda c: posixpath.join(c[0], c[1]), decode=unS,
                 oracle=lambda c, out: None if os.path.join(c[0], c[1]) == out else "os.path.join differs from posixpath.join",
                 nontrivial=lambda c: "/" in c[0] + c[1], kind=lambda c: "join pair", driver="c12")

    # ---- B/C 2: as_dict URLs (no filesystem needed) --------------------------------------
    url_cases = []
    odd_prefixes = LIBDIRS + ["lib/", "/abs", "a b", "p%q", "x//"]
    odd_names = DEP_NAMES + ["my dep", "a%41", "n/m", "é"]
    for _ in range(ctx.budget(1500, 25000)):
        indom = rng.random() < 0.7
        kind = rng.choice(["dir", "dir", "pkg", "url", "none"])
        d = {"name": rng.choice(DEP_NAMES if indom else odd_names), "version": rng.choice(VERSIONS), "kind": kind,
             "href": rng.choice(URL_HREFS + ([] if indom else ["", "x", "h//"])),
             "scripts": [rand_relpath(rng, ".js") for _ in range(rng.randrange(0, 4))],
             "styles": [rand_relpath(rng, ".css") for _ in range(rng.randrange(0, 3))],
             "all_files": rng.random() < 0.3}
        if not indom and rng.random() < 0.4:
            d["scripts"].append(rng.choice(["/abs.js", "", "a//b.js", "./x.js", "\ud800.js", "../up.js"]))
        url_cases.append((d, rng.choice(LIBDIRS if indom else odd_prefixes), rng.random() < 0.5, indom))

    # sizes: many scripts / stylesheets, long and deep paths, long names and prefixes (tail awkward)
    for n in ([300] + rng.sample(SIZES[:-1], 3)) if ctx.quick else SIZES:
        items = ["s%03d.js" % k for k in range(n - 1)] + ["sub dir/" + AWKWARD_LAST]
        kind = rng.choice(["dir", "pkg", "url"])
        d = {"name": "many", "version": "1.0", "kind": kind, "href": rng.choice(URL_HREFS),
             "scripts": items if n % 2 else items[:1], "styles": [x + ".css" for x in (items if not n % 2 else items[-1:])],
             "all_files": False}
        url_cases.append((d, rng.choice(LIBDIRS), rng.random() < 0.5, True))
    for n in [70, 300, 5000, 70000]:
        kind = rng.choice(["dir", "pkg", "url"])
        deep = "/".join(["d"] * (n // 2)) + "/" + AWKWARD_LAST
        long_ = "a" * n + " \u00e9%#.js"
        d = {"name": ("n" * min(n, 300)), "version": "1.0", "kind": kind, "href": rng.choice(URL_HREFS),
             "scripts": [deep, "x.js"], "styles": [long_], "all_files": False}
        url_cases.append((d, rng.choice(["/".join(["l"] * min(n, 70)), "p" * min(n, 5000), None]), n % 3 == 0, True))

    def mk_dep(d):
        source = ({"subdir": "/nonexistent/src"} if d["kind"] == "dir" else
                  {"package": "htmltools", "subdir": "lib"} if d["kind"] == "pkg" else
                  {"href": d["href"]} if d["kind"] == "url" else None)
        return HTMLDependency(d["name"], d["version"], source=source,
                              script=[{"src": p} for p in d["scripts"]],
                              stylesheet=[{"href": p, "media": "all"} for p in d["styles"]],
                              all_files=d["all_files"])

    def dep_sx(d, dep):
        pdir = os.path.dirname(os.path.abspath(htmltools.__file__))
        msrc = ([2, [], S("/nonexistent/src")] if d["kind"] == "dir" else
                [2, [S(pdir)], S("lib")] if d["kind"] == "pkg" else
                [1, S(d["href"])] if d["kind"] == "url" else [0])
        return [S(d["name"]), S(str(dep.version)), msrc, [S(p) for p in d["scripts"]],
                [S(p) for p in d["styles"]], 1 if d["all_files"] else 0]

    def impl_urls(c):
        d, lp, iv, _ = c
        def go():
            x = mk_dep(d).as_dict(lib_prefix=lp, include_version=iv)
            return ([s["href"] for s in x["stylesheet"]], [s["src"] for s in x["script"]])
        return call(go)

    def oracle_urls(c, out):
        d, lp, iv, indom = c
        if not indom:
            return None
        if out[0] != "ok":
            return "as_dict raised"
        ver = str(mk_dep(d).version)
        want = ([spec_url(None, d, ver, lp, iv, p) for p in d["styles"]],
                [spec_url(None, d, ver, lp, iv, p) for p in d["scripts"]])
        if d["kind"] == "none":
            want = ([urllib.parse.quote(p) for p in d["styles"]], [urllib.parse.quote(p) for p in d["scripts"]])
        if (list(out[1][0]), list(out[1][1])) != want:
            return "URL is not prefix/name[-version]/percent-encoded path (local) or href/path (URL source)"
        return None

    differential(ctx, "HTMLDependency.as_dict URLs", url_cases,
                 to_sx=lambda c: [7, dep_sx(c[0], mk_dep(c[0])), sx_opt(None if c[1] is None else S(c[1])), 1 if c[2] else 0],
                 impl=impl_urls,
                 decode=lambda m: res_dec(m, lambda r: ([unS(x) for x in r[0]], [unS(x) for x in r[1]])),
                 oracle=oracle_urls,
                 nontrivial=lambda c: any(any(ch in NONTRIVIAL_CHARS or ord(ch) > 127 for ch in p) for p in c[0]["scripts"] + c[0]["styles"]),
                 kind=lambda c: "as_dict " + c[0]["kind"], driver="c12")

    # source_path_map
    differential(ctx, "HTMLDependency.source_path_map", [c for c in url_cases if c[0]["kind"] != "dir"][:ctx.budget(400, 4000)],
                 to_sx=lambda c: [6, dep_sx(c[0], mk_dep(c[0])), sx_opt(None if c[1] is None else S(c[1])), 1 if c[2] else 0],
                 impl=lambda c: (lambda m: [m["source"], m["href"]])(mk_dep(c[0]).source_path_map(lib_prefix=c[1], include_version=c[2])),
                 decode=lambda m: [unS(m[0]), unS(m[1])],
                 kind=lambda c: "source_path_map " + c[0]["kind"], driver="c12")

    # ---- B/C 3: real directories ----------------------------------------------------------
    if sys.getfilesystemencoding().lower().replace("-", "") != "utf8":
        ctx.obligation("filesystem encoding is UTF-8 (needed for non-ASCII file names)", False)
        return
    fixed = fixed_scenarios()
    scen_save: list[dict] = []
    scen_copy: list[dict] = []
    scen_save += fixed if not ctx.quick else fixed[::3]
    for _ in range(ctx.budget(140, 2500)):
        scen_save.append(rand_scenario(rng))
    for _ in range(ctx.budget(80, 1500)):
        scen_copy.append(rand_scenario(rng))
    # every choice of missing listed file
    miss: list[dict] = []
    for sc in (fixed[:2] if ctx.quick else fixed[:8]):
        miss += missing_variants(sc)
    for sc in scen_save[len(fixed if not ctx.quick else fixed[::3]):][:ctx.budget(30, 400)]:
        miss += missing_variants(sc)
    if ctx.quick:
        miss = miss[:70]
    # a regular file where the target directory should be (correspondence only), and
    # out-of-domain listings: a directory listed next to a file inside it
    special: list[dict] = []
    for _ in range(ctx.budget(10, 150)):
        sc = rand_scenario(rng)
        locals_ = [d for d in sc["deps"] if d["kind"] in ("dir", "pkg")]
        if not locals_:
            continue
        d = locals_[0]
        if rng.random() < 0.5:
            d["stale_kind"], d["stale"] = "file_at_target", {}
        else:
            nested = [p for p in d["files"] if "/" in p]
            if not nested:
                continue
            p = nested[0]
            top_dir = p.split("/")[0]
            d["all_files"] = False
            d["scripts"], d["styles"] = ([p, top_dir] if rng.random() < 0.5 else [top_dir, p]), []
            d["stale_kind"], d["stale"] = "none", {}
            sc["dir_listed"] = True
        special.append(sc)

    root = os.path.realpath(tempfile.mkdtemp(prefix="verif-c12-"))
    try:
        counter = itertools.count()

        def go(scs: list[dict], mode: str, name: str, oracle_on: bool = True) -> None:
            pending: list = []
            for sc in scs:
                k = next(counter)
                top = os.path.join(root, f"s{k}")
                os.makedirs(top)
                try:
                    ctx.count({"mode": mode, "scenario": sc}, nontrivial_scenario(sc),
                              f"{mode} scenario" + (" (missing file)" if sc.get("missing") else ""))
                    if oracle_on:
                        run_scenario(ctx, sc, top, f"{os.getpid()}_{k}", mode, pending)
                    else:
                        # correspondence only: violations raised by the oracle are not meaningful
                        saved = list(ctx.violations), list(ctx.known_hits)
                        run_scenario(ctx, sc, top, f"{os.getpid()}_{k}", mode, pending)
                        ctx.violations, ctx.known_hits = saved
                finally:
                    shutil.rmtree(top, ignore_errors=True)
            check_pending(ctx, name, pending)

        go(scen_save, "save", "save_html copies")
        shp = shape_scenarios()
        if ctx.quick:      # every shape x host x include_version; libdir rotates
            shp = [sc for k, sc in enumerate(shp) if (k // 2) % 4 == (k // 8) % 4]
        go(shp, "save", "save_html, content shape x host x libdir x include_version")
        lks = link_scenarios()
        if ctx.quick:      # every all_files shape; every other listed one; the dangling ones
            lks = [sc for k, sc in enumerate(lks) if sc["links"][4] or k % 4 == 1 or sc["links"][0] == "dangling listed"]
        lks += [rand_link_scenario(rng) for _ in range(ctx.budget(6, 80))]
        go(lks, "save", "source trees with symbolic links (file / directory / chain; top level or nested; "
                        "inside or outside the source; relative or absolute) x all_files / listed")
        go(lks[1::3], "copy", "copy_to, source trees with symbolic links")
        rts = route_scenarios()
        if ctx.quick:      # the route cross completely; a third of the via x post x host cross
            rts = rts[:32] + rts[32 + ctx.seed % 3::3]
        go(rts, "save", "entry point x include_version x libdir; way of building x object saved x host")
        go(rts[3::4], "copy", "copy_to with the path absolute / with a trailing slash / relative")
        if show_available():
            go(show_scenarios(rng, ctx.budget(3, 15)), "save", "Tag.show / TagList.show (browser renderer)")
        fam = family_scenarios()
        go(fam, "save", "save_html, several objects for one dependency name x document order x include_version x host")
        fam_miss = [m for sc in (fam[1::7] if ctx.quick else fam[::2]) for m in missing_variants(sc)]
        go(fam_miss, "save", "missing listed file of a winning / superseded version (save_html)")
        if not ctx.quick:
            ex = exhaustive_scenarios()
            go(ex, "save", "save_html copies, exhaustive small scope")
            go(ex, "copy", "copy_to, exhaustive small scope")
            exm = [m for sc in ex[::7] for m in missing_variants(sc)]
            go(exm, "copy", "missing listed file, small scope")
        go(scen_copy, "copy", "HTMLDependency.copy_to")
        # sizes: every countable thing at 7 .. 300 (quick: the largest and two others each), big files
        bigs = big_scenarios(rng, ctx.quick)
        go(bigs, "save", "sizes 7..300 of: " + ", ".join(BIG_ITEMS))
        go([sc for sc in bigs if sc["big"][0] in ("scripts", "allfiles", "pathdepth", "stale", "family", "namelen")][::2],
           "copy", "copy_to, sizes 7..300")
        bf = big_file_scenarios(rng, ctx.quick)
        go(bf, "save", "files around and beyond 8 KiB .. 1 MiB (sizes that are no multiple of a buffer size)")
        go(bf[:1] if ctx.quick else bf, "copy", "copy_to, files around and beyond 8 KiB .. 1 MiB")
        go(miss, "save", "missing listed file (save_html)")
        go([dict(sc) for sc in miss[:ctx.budget(25, 300)]], "copy", "missing listed file (copy_to)")
        go(special, "copy", "target is a regular file / directory listed with a file inside it", oracle_on=False)

        # histories in one process on the same dependency objects and directories
        hists = ([rand_history(rng, "delete") for _ in range(ctx.budget(25, 400))]
                 + [rand_history(rng, "allfiles") for _ in range(ctx.budget(12, 200))]
                 + [rand_history(rng, "resave") for _ in range(ctx.budget(20, 300))]
                 + [rand_history(rng) for _ in range(ctx.budget(25, 500))]
                 # many operations in one history (on the same objects and directories)
                 + [rand_history(rng, None, n) for n in ([9, 33, rng.choice([17, 65])] if ctx.quick else SIZES[:17:2])])
        pending_h: list = []
        nsteps = 0
        for h in hists:
            k = next(counter)
            top = os.path.join(root, f"h{k}")
            os.makedirs(top)
            try:
                ctx.count({"mode": "history", **h}, True,
                          "history (%d copy/save steps)" % sum(st[0] in ("save", "copy") for st in h["steps"]))
                nsteps += run_history(ctx, h, top, f"{os.getpid()}_{k}", pending_h)
            finally:
                shutil.rmtree(top, ignore_errors=True)
        check_pending(ctx, f"histories ({len(hists)} histories, every copy/save step)", pending_h)
        ctx.extra["history_copy_steps"] = nsteps

        # ---- C 4: the extracted specification of C12_agree against where files really land
        spec_cases = []
        for sc in (scen_save[:ctx.budget(60, 600)]):
            for i, d in enumerate(sc["deps"]):
                if d["kind"] != "dir":
                    continue
                for p in d["scripts"] + d["styles"]:
                    spec_cases.append((sc["libdir"], sc["iv"], d["name"], d["version"], p))
        docdir = "/tmp/x/out"

        def spec_sx(c):
            libdir, iv, name, ver, p = c
            dep = [S(name), S(str(HTMLDependency(name, ver).version)), [2, [], S("/tmp/x/src")], [S(p)], [], 0]
            return [10, dep, S(docdir), sx_opt(None if libdir is None else S(libdir)), 1 if iv else 0, S(p)]

        outs = run_model([spec_sx(c) for c in spec_cases], driver="c12")
        ok = True
        for c, m in zip(spec_cases, outs):
            libdir, iv, name, ver, p = c
            resolved = ["/".join(unS(x) for x in m[0]), "/".join(unS(x) for x in m[1])]
            want = "/".join(segs(docdir) + segs(libdir or "") + [name + ("-" + str(HTMLDependency(name, ver).version) if iv else "")] + segs(p))
            ctx.count(("agree", c), True, "agreement instance (extracted spec)")
            if resolved != [want, want]:
                ok = False
                ctx.extra.setdefault("disagree_spec", []).append({"case": c, "model_output": resolved, "expected": want})
        ctx.obligation(f"extracted resolve_url(url_of ..) = copier target = dir/libdir/name[-version]/path ({len(spec_cases)} instances)", ok)
    finally:
        shutil.rmtree(root, ignore_errors=True)
    ctx.obligation("temporary directory removed", not os.path.exists(root))


def replay(ctx: Ctx, path: str) -> None:
    with open(path, encoding="utf-8") as f:
        r = json.load(f)
    print(json.dumps(r, indent=1)[:4000])
    case = r.get("case")
    if isinstance(case, dict) and "steps" in case:
        ctx.rule = "replay of one recorded history"
        ctx.proof()
        root = os.path.realpath(tempfile.mkdtemp(prefix="verif-c12-"))
        try:
            top = os.path.join(root, "h0")
            os.makedirs(top)
            pending = []
            ctx.count(case, True, "replayed history")
            run_history(ctx, {"scenario": case["scenario"], "steps": case["steps"]}, top, f"{os.getpid()}_r", pending)
            check_pending(ctx, "replayed history", pending)
        finally:
            shutil.rmtree(root, ignore_errors=True)
    elif isinstance(case, dict) and "scenario" in case:
        ctx.rule = "replay of one recorded scenario"
        ctx.proof()
        sc = case["scenario"]
        if sc.get("missing") is not None:
            sc["missing"] = list(sc["missing"])
        root = os.path.realpath(tempfile.mkdtemp(prefix="verif-c12-"))
        try:
            top = os.path.join(root, "s0")
            os.makedirs(top)
            pending: list = []
            ctx.count(case, True, "replayed scenario")
            run_scenario(ctx, sc, top, f"{os.getpid()}_r", case.get("mode", "save"), pending)
            check_pending(ctx, "replayed scenario", pending)
        finally:
            shutil.rmtree(root, ignore_errors=True)
    else:
        run(ctx)

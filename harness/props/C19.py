"""C19  Every tag function creates its own element with the documented default.

ENTRY POINTS AND ARGUMENTS THAT REACH THE BEHAVIOUR THIS PROPERTY DESCRIBES
---------------------------------------------------------------------------
Creating the element (each is exercised below, with default and non-default arguments):
  * htmltools.tags.<113 functions>, htmltools.svg.<66 functions>, the 17 top-level shortcuts
    htmltools.a ... htmltools.strong, `from htmltools import *` / `from htmltools.tags import *`
    (the names of __all__), and the reference they are compared with: Tag(name, *args, _add_ws=, **kw).
  * positional arguments: children (str, str subclass, HTML, HTML subclass, int, float, None, Tag,
    Tagifiable objects, self-rendering objects (_repr_html_), objects that are both, MetadataNode,
    HTMLDependency, JSX components; list / tuple / TagList / another tag's .children, nested to any
    depth) and attribute dicts (dict, OrderedDict, a user dict subclass, another tag's .attrs
    (TagAttrDict), the dict returned by consolidate_attrs), in any interleaving and number.
  * keyword arguments: _add_ws (absent / True / False / non-bool), keyword attributes (trailing
    underscore, inner underscores, names that collide with dict keys after normalisation).
Observing the element (wrapper result and Tag(...) result must be indistinguishable; where the property
text gives the value, it is judged by the specification oracle):
  * .name .add_ws .attrs .children; == ; str / repr / _repr_html_ ; get_html_string(indent=, eol=);
    render(); tagify(); get_dependencies(dedup=False); save_html(libdir=None, include_version=False);
    HTMLDocument(x, lang=, class_=).render(lib_prefix=None, include_version=False);
    TagList(x).get_html_string(indent=, eol=, add_ws=False); copy.copy / copy.deepcopy;
    htmltools.html_dependency_render_mode = "json"; the with-block (sys.displayhook) route on the
    element a wrapper returned; consolidate_attrs(*args, **kw) fed back into the wrapper;
    add_class / add_style(prepend=True) on the result, then its .attrs into another wrapper.

The oracle for "passes children, attribute dicts and keyword attributes through exactly as the Tag
constructor does" is a transcription of what the constructor is documented to do (statements C14,
C15, C03 of properties.jsonl), NOT a second run of the implementation: comparing f(*a) with
Tag(name, *a) alone cannot see a constructor that is wrong for both.
"""
from __future__ import annotations

import ast
import collections
import copy
import os
import shutil
import sys
import tempfile
import types

from ..common import Ctx, REPO, S, unS, run_model, ImplTimeout, time_limit
from .. import trees
from ..trees import safe_call

import htmltools
from htmltools import HTML, HTMLDependency, HTMLDocument, MetadataNode, Tag, TagList, consolidate_attrs, svg, tags

# The project's classification, as the statement's "elements the project classifies as
# inline": read from scripts/generate_tags.py (ast, not import: the script downloads).
def project_inline_names() -> set[str]:
    with open(os.path.join(REPO, "scripts/generate_tags.py"), encoding="utf-8") as f:
        mod = ast.parse(f.read())
    for node in mod.body:
        if isinstance(node, ast.Assign) and getattr(node.targets[0], "id", None) == "_INLINE_TAG_NAMES":
            return set(ast.literal_eval(node.value))
    raise RuntimeError("no _INLINE_TAG_NAMES")


TOPLEVEL = ["a", "br", "code", "div", "em", "h1", "h2", "h3", "h4", "h5", "h6", "hr", "img",
            "p", "pre", "span", "strong"]


def functions(mod) -> dict:
    return {n: f for n, f in vars(mod).items()
            if isinstance(f, types.FunctionType) and f.__module__ == mod.__name__}


def rand_args(rng):
    """argument lists: children (nested), attribute dicts, keyword attributes"""
    args = []
    for _ in range(rng.choice([0, 1, 2, 3, 4])):
        r = rng.random()
        if r < 0.3:
            args.append(trees.rand_text(rng, 5))
        elif r < 0.4:
            args.append(HTML(trees.rand_text(rng, 5)))
        elif r < 0.5:
            args.append(rng.choice([None, 3, 2.5, [], ["a", None, ("b", 1)]]))
        elif r < 0.7:
            args.append(trees.build(trees.rand_tree(rng, 1, leaves="TH")))
        elif r < 0.8:
            args.append(TagList("x", Tag("i")))
        else:
            # attribute dicts are attributes and nothing else, whatever their keys are called
            args.append({rng.choice(["class", "id", "data_x", "style_", "_add_ws", "add_ws", "_name", "name", "children",
                                     "attrs", "_add_ws_", "_", "self"]):
                         rng.choice(["v", 1, True, None, False, HTML("<"), "no", 0])})
    kw = {}
    for _ in range(rng.choice([0, 0, 1, 2])):
        kw[rng.choice(["class_", "id", "data_y", "for_", "aria_label"])] = rng.choice(["w", 2, True, None, HTML("&")])
    return args, kw


# =================================================================================================
# The constructor's documented behaviour (specification oracle).  From the property texts:
#   C14: "the children are exactly the depth-first, left-to-right flattening of the supplied
#         arguments: nested lists, tuples and TagLists spliced, None dropped, numbers converted to
#         their str() text, strings kept whole ... An argument of unsupported type raises TypeError"
#   C15: "names with one trailing underscore removed and remaining underscores turned into hyphens;
#         None/False dropped, True as empty string, numbers as text; all values given for the same
#         normalised name within one call joined by single spaces in argument order (positional
#         dicts left to right, then keywords), and attributes ordered by first appearance"
#   C03: a plain value "merged by the library with other values given for the same attribute,
#         including values marked HTML()" is written with & < > " ' CR LF as character references:
#         the merged value of a group holding an HTML() value is HTML() (written verbatim), so its
#         plain members are stored escaped with exactly that table.
# =================================================================================================
ATTR_MAP = {"&": "&amp;", "<": "&lt;", ">": "&gt;", '"': "&quot;", "'": "&apos;", "\r": "&#13;", "\n": "&#10;"}


def esc_attr(s: str) -> str:
    return "".join(ATTR_MAP.get(c, c) for c in s)


def spec_name(k: str) -> str:
    if k.endswith("_"):
        k = k[:-1]
    return k.replace("_", "-")


def long_text(n: int, unit: str, tail: str) -> str:
    """n characters: `unit` repeated, the last len(tail) characters being `tail` (the interesting
    content sits at the very end)"""
    unit = unit or "x"
    return (unit * (n // len(unit) + 1))[:max(n - len(tail), 0)] + tail


def scalar_text(v) -> str:
    k = v[0]
    if k in ("s", "S", "h", "hs"):
        return v[1]
    if k in ("ls", "lh"):
        return long_text(v[1], v[2], v[3])
    if k == "i":
        return str(int(v[1]))
    if k == "fl":
        return str(float(v[1]))
    raise ValueError(v)


def mk_scalar(v):
    k = v[0]
    if k == "s":
        return v[1]
    if k == "S":
        return trees.StrSub(v[1])
    if k == "h":
        return HTML(v[1])
    if k == "hs":
        return trees.HtmlSub(v[1])
    if k == "ls":
        return long_text(v[1], v[2], v[3])
    if k == "lh":
        return HTML(long_text(v[1], v[2], v[3]))
    if k == "i":
        return int(v[1])
    if k == "fl":
        return float(v[1])
    if k == "t":
        return True
    if k == "f":
        return False
    if k == "z":
        return None
    raise ValueError(v)


def spec_value(v):
    """None/False dropped, True as empty string, numbers as text -> None | (is_html, text)"""
    k = v[0]
    if k in ("z", "f"):
        return None
    if k == "t":
        return (0, "")
    return (1 if k in ("h", "hs", "lh") else 0, scalar_text(v))


def dict_pairs(pairs):
    """what a Python dict built from these (key, value) pairs holds: one entry per key, at the key's
    first position, with its last value (the language, not the library)"""
    d: dict = {}
    for k, v in pairs:
        d[k] = v
    return list(d.items())


def spec_merge(pairlists):
    """[[(raw name, value description)]] in argument order -> [[name, is_html, text]]"""
    groups: dict = {}
    for pl in pairlists:
        for k, v in pl:
            t = spec_value(v)
            if t is not None:
                groups.setdefault(spec_name(k), []).append(t)
    out = []
    for n, vals in groups.items():
        if any(m for m, _ in vals):
            out.append([n, 1, " ".join(t if m else esc_attr(t) for m, t in vals)])
        else:
            out.append([n, 0, " ".join(t for _, t in vals)])
    return out


# =================================================================================================
# A small JSON-able language of calls (what the replay file shows), and its builder, which returns
# the live arguments TOGETHER WITH what the property says the element must hold.
#
#  scalar (child or attribute value):
#     ["s",t] str   ["S",t] str subclass   ["h",t] HTML   ["hs",t] HTML subclass   ["i",n]   ["fl",repr]
#     ["z"] None   ["t"] True   ["f"] False   ["ls",n,unit,tail] / ["lh",...] long str / HTML (long_text)
#  child:
#     scalar | ["g",name,ws,[args],[[k,v]]] Tag(...) | ["chain",depth,leaf] tags nested `depth` deep
#     | ["r",t] self-rendering | ["c",n] tagifiable | ["cr",t] both | ["m"] MetadataNode
#     | ["dep",name,version] | ["jsx",name] | ["bad",kind] unsupported type
#     | ["L",[..]] list | ["T",[..]] tuple | ["TL",[..]] TagList | ["KC",[..]] another tag's .children
#     | ["rep",n,template,"L"|"T"|"TL"] container of n items ("{i}" in texts is the index)
#     | ["nest",kind,depth,item]  kind: list | tuple | mixed | sib | tl
#     | ["same",key,child]  the very same object wherever the key is used again
#  attribute dict (top level only; inside a container a dict is an unsupported child):
#     ["d",[[k,v]]] dict | ["od",..] OrderedDict | ["dsub",..] user subclass
#     | ["D",[[k,v]],[[k,v]]] Tag('span', {..}, **{..}).attrs | ["drep",n,keytemplate,vtemplate,kind]
#  top level only:
#     ["*rep",n,template] n positional arguments | ["*ca",[args],[[k,v]]] attrs, *children of
#     consolidate_attrs(*args, **kw)
# =================================================================================================
class DictSub(dict):
    """a user's dict subclass"""
    note = "subclass"


def subst(d, i: int):
    if isinstance(d, str):
        return d.replace("{i}", str(i)) if "{i}" in d else d
    if isinstance(d, list):
        return [subst(x, i) for x in d]
    return d


SCALARS = ("s", "S", "h", "hs", "i", "fl", "z", "t", "f", "ls", "lh")
DICTS = ("d", "od", "dsub", "D", "drep")
CHAIN_FNS = [("tags", "div"), ("tags", "span"), ("svg", "g"), ("tags", "li"), ("tags", "a")]


class Builder:
    def __init__(self, mods):
        self.mods = mods
        self.memo: dict = {}
        self.invalid = False      # an argument of unsupported type was built: TypeError expected
        self.depth = 0            # deepest container nesting built
        self.custom = False       # objects without value equality / with their own rendering
        self.chains: list = []    # (outermost tag, depth, leaf object) of every chain built

    # ---- children -----------------------------------------------------------------------------
    def child(self, d, level: int = 0):
        """-> (object, [expected stored nodes])
        expected node: ("str", text) | ("is", object) | ("html", HTML object: that object or an equal HTML value)"""
        k = d[0]
        self.depth = max(self.depth, level)
        if k in ("s", "S", "ls"):
            return mk_scalar(d), [("str", scalar_text(d))]
        if k in ("i", "fl"):
            o = mk_scalar(d)
            return o, [("str", str(o))]
        if k in ("h", "hs", "lh"):
            o = mk_scalar(d)
            return o, [("html", o)]
        if k == "z":
            return None, []
        if k == "g":
            _, name, ws, args, kw = d
            built = [self.child(a, 0)[0] if a[0] not in DICTS else self.dictarg(a)[0] for a in args]
            o = Tag(name, *built, _add_ws=ws, **{kk: mk_scalar(v) for kk, v in kw})
            return o, [("is", o)]
        if k == "chain":
            _, depth, leaf = d
            o = bottom = self.child(leaf, 0)[0]
            for j in range(depth):
                mn, fn = CHAIN_FNS[j % len(CHAIN_FNS)]
                o = self.mods[mn][fn](o)
            self.chains.append((o, depth, bottom))
            return o, [("is", o)]
        if k == "r":
            self.custom = True
            o = trees.ReprObj(d[1])
            return o, [("is", o)]
        if k == "c":
            self.custom = True
            o = trees.CustomObj([Tag("i", "e%d" % j) for j in range(d[1])], d[1] != 1)
            return o, [("is", o)]
        if k == "cr":
            self.custom = True
            o = trees.CustomReprObj([Tag("u", "both")], False, d[1])
            return o, [("is", o)]
        if k == "m":
            self.custom = True
            o = MetadataNode()
            return o, [("is", o)]
        if k == "dep":
            self.custom = True
            o = HTMLDependency(d[1], d[2], head="<meta name='%s'>" % d[1])
            return o, [("is", o)]
        if k == "jsx":
            self.custom = True
            from htmltools._jsx import jsx_tag_create
            o = jsx_tag_create(d[1])("kid", prop=1)
            return o, [("is", o)]
        if k == "bad":
            self.invalid = True
            o = {"object": object(), "bytes": b"x", "set": {1}, "gen": (x for x in "ab"), "complex": 1j,
                 "dict-in-container": {"id": "x"}, "type": int}[d[1]]
            return o, []
        if k in DICTS:
            # only reachable inside a container: there a dict is not an attribute dict
            self.invalid = True
            return self.dictarg(d)[0], []
        if k in ("L", "T", "TL", "KC"):
            objs, kids = [], []
            for x in d[1]:
                o, ks = self.child(x, level + 1)
                objs.append(o)
                kids += ks
            return self._container(k, objs), kids
        if k == "rep":
            _, n, template, kind = d
            objs, kids = [], []
            for i in range(n):
                o, ks = self.child(subst(template, i), level + 1)
                objs.append(o)
                kids += ks
            return self._container(kind, objs), kids
        if k == "nest":
            _, kind, depth, item = d
            o, kids = self.child(item, level + depth)
            left, right = [], []
            for i in range(depth):
                if kind == "list":
                    o = [o]
                elif kind == "tuple":
                    o = (o,)
                elif kind == "mixed":
                    o = [o] if i % 2 else (None, o)
                elif kind == "sib":
                    o = ["L%d" % i, o, "R%d" % i]
                    left.append(("str", "L%d" % i))
                    right.append(("str", "R%d" % i))
                elif kind == "tl":
                    o = TagList(o) if i == 0 else ([o] if i % 2 else (o,))
                else:
                    raise ValueError(d)
            return o, left[::-1] + kids + right
        if k == "same":
            if d[1] not in self.memo:
                self.memo[d[1]] = self.child(d[2], level)
            return self.memo[d[1]]
        raise ValueError(d)

    @staticmethod
    def _container(kind, objs):
        if kind == "L":
            return list(objs)
        if kind == "T":
            return tuple(objs)
        if kind == "TL":
            return TagList(*objs)
        if kind == "KC":
            return Tag("section", *objs).children
        raise ValueError(kind)

    # ---- attribute dicts ------------------------------------------------------------------------
    def dictarg(self, d):
        """-> (object, [(raw name, value description)] as the constructor must read it)"""
        k = d[0]
        if k == "same":
            if d[1] not in self.memo:
                self.memo[d[1]] = self.dictarg(d[2])
            return self.memo[d[1]]
        if k == "drep":
            _, n, kt, vt, kind = d
            return self.dictarg([kind, [[subst(kt, i), subst(vt, i)] for i in range(n)], []])
        pairs = dict_pairs(d[1])
        live = {kk: mk_scalar(v) for kk, v in pairs}
        if k == "d":
            return live, pairs
        if k == "od":
            return collections.OrderedDict(live), pairs
        if k == "dsub":
            return DictSub(live), pairs
        if k == "D":
            kwp = dict_pairs(d[2])
            donor = Tag("span", "donor", live, **{kk: mk_scalar(v) for kk, v in kwp})
            # what the donor holds is itself given by the specification
            return donor.attrs, [(n, ["h" if m else "s", t]) for n, m, t in spec_merge([pairs, kwp])]
        raise ValueError(d)

    # ---- a whole call ---------------------------------------------------------------------------
    def call(self, case):
        """-> (args, kw, expected children, expected attributes [[name, is_html, text]])"""
        args, kids, pls = [], [], []
        for a in case["args"]:
            self._toplevel(a, args, kids, pls)
        kwp = [(kk, list(v)) for kk, v in case.get("kw", [])]
        if case.get("kwrep"):
            n, kt, vt = case["kwrep"]
            kwp += [(subst(kt, i), subst(vt, i)) for i in range(n)]
        kwp = dict_pairs(kwp)
        kw = {kk: mk_scalar(v) for kk, v in kwp}
        return args, kw, kids, spec_merge(pls + [kwp])

    def _toplevel(self, a, args, kids, pls):
        k = a[0]
        if k == "*rep":
            for i in range(a[1]):
                self._toplevel(subst(a[2], i), args, kids, pls)
        elif k == "*ca":
            iargs, ikids, ipls = [], [], []
            for x in a[1]:
                self._toplevel(x, iargs, ikids, ipls)
            ikw = dict_pairs(a[2])
            r = call(lambda: consolidate_attrs(*iargs, **{kk: mk_scalar(v) for kk, v in ikw}))
            if r[0] != "ok":
                # consolidate_attrs is the constructor: a failure here is judged where it is used
                self.invalid = True
                return
            attrs, children = r[1]
            args.append(attrs)
            args.extend(children)
            kids += ikids
            # "returns exactly those attributes": as values of a plain dict
            pls.append([(n, ["h" if m else "s", t]) for n, m, t in spec_merge(ipls + [ikw])])
        elif k in DICTS or (k == "same" and a[2][0] in DICTS):
            o, pairs = self.dictarg(a)
            args.append(o)
            pls.append(pairs)
        else:
            o, ks = self.child(a, 0)
            args.append(o)
            kids += ks


# ---- the call as Python text (for the replay file) ------------------------------------------------
def src(d) -> str:
    k = d[0]
    if k in ("s",):
        return repr(d[1])
    if k == "S":
        return "StrSub(%r)" % d[1]
    if k == "h":
        return "HTML(%r)" % d[1]
    if k == "hs":
        return "HtmlSub(%r)" % d[1]
    if k == "ls":
        return "long_text(%d, %r, %r)" % (d[1], d[2], d[3])
    if k == "lh":
        return "HTML(long_text(%d, %r, %r))" % (d[1], d[2], d[3])
    if k == "i":
        return str(d[1])
    if k == "fl":
        return "float(%r)" % d[1]
    if k in ("z", "t", "f"):
        return {"z": "None", "t": "True", "f": "False"}[k]
    if k == "g":
        parts = [src(a) for a in d[3]] + ["_add_ws=%r" % d[2]] + ["**{%r: %s}" % (kk, src(v)) for kk, v in d[4]]
        return "Tag(%r, %s)" % (d[1], ", ".join(parts))
    if k == "chain":
        return "chain(%s, depth=%d, via=div/span/svg.g/li/a)" % (src(d[2]), d[1])
    if k == "r":
        return "ReprObj(%r)" % d[1]
    if k == "c":
        return "Tagifiable(expanding to %d tags)" % d[1]
    if k == "cr":
        return "TagifiableAndReprHtml(%r)" % d[1]
    if k == "m":
        return "MetadataNode()"
    if k == "dep":
        return "HTMLDependency(%r, %r, head=...)" % (d[1], d[2])
    if k == "jsx":
        return "jsx_tag_create(%r)('kid', prop=1)" % d[1]
    if k == "bad":
        return "<unsupported: %s>" % d[1]
    if k == "L":
        return "[" + ", ".join(src(x) for x in d[1]) + "]"
    if k == "T":
        return "(" + "".join(src(x) + ", " for x in d[1]) + ")"
    if k == "TL":
        return "TagList(" + ", ".join(src(x) for x in d[1]) + ")"
    if k == "KC":
        return "Tag('section', " + ", ".join(src(x) for x in d[1]) + ").children"
    if k == "rep":
        return "%s(%s for i in range(%d))" % ({"L": "list", "T": "tuple", "TL": "TagList", "KC": "children_of"}[d[3]], src(d[2]), d[1])
    if k == "nest":
        return "nest(%s, depth=%d, kind=%r)" % (src(d[3]), d[2], d[1])
    if k == "same":
        return "same_object[%r](%s)" % (d[1], src(d[2]))
    if k in ("d", "od", "dsub"):
        body = "{" + ", ".join("%r: %s" % (kk, src(v)) for kk, v in d[1]) + "}"
        return {"d": "%s", "od": "OrderedDict(%s)", "dsub": "DictSub(%s)"}[k] % body
    if k == "D":
        return "Tag('span', 'donor', %s, **%s).attrs" % (src(["d", d[1]]), src(["d", d[2]]))
    if k == "drep":
        return "%s({%r: %s for i in range(%d)})" % ({"d": "dict", "od": "OrderedDict", "dsub": "DictSub", "D": "attrs_of_a_tag_with"}[d[4]],
                                                     d[2], src(d[3]), d[1])
    if k == "*rep":
        return "*[%s for i in range(%d)]" % (src(d[2]), d[1])
    if k == "*ca":
        return "*attrs_and_children(consolidate_attrs(%s))" % ", ".join([src(x) for x in d[1]] + ["**{%r: %s}" % (kk, src(v)) for kk, v in d[2]])
    return repr(d)


def case_src(case) -> str:
    parts = [src(a) for a in case["args"]]
    if case.get("ws") is not None:
        parts.append("_add_ws=%r" % case["ws"])
    parts += ["**{%r: %s}" % (kk, src(v)) for kk, v in case.get("kw", [])]
    if case.get("kwrep"):
        n, kt, vt = case["kwrep"]
        parts.append("**{%r: %s for i in range(%d)}" % (kt, src(vt), n))
    s = "%s.%s(%s)" % (case["fn"][0], case["fn"][1], ", ".join(parts))
    return s if len(s) < 1500 else s[:1500] + " ..."


# ---- running the implementation --------------------------------------------------------------------
def call(f):
    """like trees.safe_call, but a RecursionError stays distinguishable (code 7)"""
    try:
        with time_limit():
            return ("ok", f())
    except ImplTimeout:
        return ("err", "exc:did-not-terminate")
    except RecursionError:
        return ("err", 7)
    except RuntimeError:
        return ("err", 6)
    except TypeError:
        return ("err", 3)
    except KeyError:
        return ("err", 4)
    except ValueError:
        return ("err", 5)
    except Exception as e:
        return ("err", "exc:" + type(e).__name__)


def snap(o, depth: int = 0):
    """picture of a caller-side object: a read-only call must leave it as it was.  Containers by
    content (element identity for objects, value for text), tags by name / flag / attrs / children."""
    if o is None or isinstance(o, (bool, int, float)):
        return (type(o).__name__, repr(o))
    if isinstance(o, str):
        return (type(o).__name__, len(o), o[:40], o[-40:])
    if isinstance(o, HTML):
        s = str(o)
        return (type(o).__name__, len(s), s[:40], s[-40:])
    if depth > 400:
        return ("...",)
    if isinstance(o, (list, tuple, TagList)):
        return (type(o).__name__, [snap(x, depth + 1) for x in o])
    if isinstance(o, dict):
        return (type(o).__name__, [(k, snap(v, depth + 1)) for k, v in o.items()])
    if isinstance(o, Tag):
        return ("Tag", id(o), o.name, o.add_ws, snap(o.attrs, depth + 1), snap(o.children, depth + 1) if depth < 80 else len(o.children))
    return (type(o).__name__, id(o))


def attrs_view(t):
    return [[k, 1 if isinstance(v, HTML) else 0, str(v) if isinstance(v, (str, HTML)) else "<%s>" % type(v).__name__]
            for k, v in t.attrs.items()]


def short(x, n=160):
    s = x if isinstance(x, str) else repr(x)
    return s if len(s) <= n else s[:n // 2] + " ...[%d chars]... " % len(s) + s[-n // 2:]


def node_view(c):
    if isinstance(c, (str, HTML)):
        return "%s:%s" % (type(c).__name__, short(str(c), 60))
    if isinstance(c, Tag):
        return "<%s> tag with %d children" % (c.name, len(c.children))
    return type(c).__name__


def children_problem(kids, exp):
    """None, or where the stored children differ from the expected ones"""
    n = min(len(kids), len(exp))
    for i in range(n):
        e = exp[i]
        c = kids[i]
        if e[0] == "is":
            ok = c is e[1]
        elif e[0] == "html":
            ok = c is e[1] or (isinstance(c, HTML) and str(c) == str(e[1]))
        else:
            ok = isinstance(c, str) and not isinstance(c, HTML) and str.__eq__(c, e[1])
        if not ok:
            return {"first_difference_at": i, "stored": node_view(c),
                    "expected": node_view(e[1]) + (" (that very object)" if e[0] == "is" else ""),
                    "stored_count": len(kids), "expected_count": len(exp)}
    if len(kids) != len(exp):
        extra = kids[n:n + 3] if len(kids) > n else [e[1] for e in exp[n:n + 3]]
        return {"stored_count": len(kids), "expected_count": len(exp),
                ("unexpected" if len(kids) > n else "missing"): [node_view(x) for x in extra]}
    return None


def attrs_problem(got, exp):
    if got == exp:
        return None
    for i in range(max(len(got), len(exp))):
        g = got[i] if i < len(got) else None
        e = exp[i] if i < len(exp) else None
        if g != e:
            return {"first_difference_at": i, "stored_count": len(got), "expected_count": len(exp),
                    "stored [name, is_html, text]": None if g is None else [g[0], g[1], short(g[2])],
                    "expected [name, is_html, text]": None if e is None else [e[0], e[1], short(e[2])]}
    return {"stored": short(got), "expected": short(exp)}


class Judge:
    """judges one element against what the property says it must be"""

    def __init__(self, ctx: Ctx):
        self.ctx = ctx

    def element(self, how: str, t, name, ws, exp_kids, exp_attrs, rec) -> bool:
        ctx = self.ctx
        if not isinstance(t, Tag):
            ctx.violation(f"{how}: the result is not a Tag", rec, {"impl_output": short(t)})
            return False
        ok = True
        if t.name != name or t.add_ws is not ws:
            ctx.violation(f"{how}: element name / whitespace flag is not the function's name and the documented "
                          "default (or the explicit _add_ws)", rec,
                          {"impl_output": repr((t.name, t.add_ws)), "expected": repr((name, ws))})
            ok = False
        p = call(lambda: children_problem(list(t.children), exp_kids))
        if p != ("ok", None):
            ctx.violation(f"{how}: the children are not the depth-first flattening of the child arguments (lists, tuples, "
                          "TagLists spliced at any depth, None dropped, numbers as text, everything else kept as is)",
                          rec, {"impl_output": p[1], "expected": "see case.python"})
            ok = False
        p = call(lambda: attrs_problem(attrs_view(t), exp_attrs))
        if p != ("ok", None):
            ctx.violation(f"{how}: the attributes are not the normalised values of the attribute dicts and keyword "
                          "attributes merged per name in argument order (plain members of a group holding an HTML() "
                          "value escaped as attribute text)", rec, {"impl_output": p[1], "expected": "see case.python"})
            ok = False
        return ok


def observations(x, light: bool):
    """(route, thunk): every public way of looking at an element, with non-default arguments"""
    def dep_names(ds):
        return [(d.name, str(d.version)) for d in ds]

    def json_mode():
        old = htmltools.html_dependency_render_mode
        try:
            htmltools.html_dependency_render_mode = "json"
            return str(x), TagList("before", x).get_html_string()
        finally:
            htmltools.html_dependency_render_mode = old

    obs = [("str()", lambda: str(x)),
           ("get_html_string(indent=2, eol='\\r\\n')", lambda: x.get_html_string(indent=2, eol="\r\n")),
           ("render()", lambda: (lambda r: (r["html"], dep_names(r["dependencies"])))(x.render()))]
    if light:
        return obs
    obs += [("repr()", lambda: repr(x)),
            ("_repr_html_()", lambda: x._repr_html_()),
            ("get_html_string(1, '')", lambda: x.get_html_string(1, "")),
            ("tagify().get_html_string()", lambda: x.tagify().get_html_string()),
            ("get_dependencies(dedup=False)", lambda: dep_names(x.get_dependencies(dedup=False))),
            ("TagList(x).get_html_string(indent=1, eol='\\n', add_ws=False)",
             lambda: TagList("t", x, x).get_html_string(indent=1, eol="\n", add_ws=False)),
            ("HTMLDocument(x, lang='en', class_='k').render(lib_prefix=None, include_version=False)",
             lambda: HTMLDocument(x, lang="en", class_="k").render(lib_prefix=None, include_version=False)["html"]),
            ("HTMLDocument(x).render(lib_prefix='a/b')", lambda: HTMLDocument(x).render(lib_prefix="a/b")["html"]),
            ("HTMLTextDocument(markup + pattern, deps, deps_replace_pattern='<!-- (deps$) [^] -->').render(lib_prefix=None)",
             lambda: htmltools.HTMLTextDocument("<html><head><!-- (deps$) [^] --></head><body>" + x.get_html_string() + "</body></html>",
                                                deps=x.get_dependencies(), deps_replace_pattern="<!-- (deps$) [^] -->"
                                                ).render(lib_prefix=None)["html"]),
            ("str() with html_dependency_render_mode = 'json'", json_mode),
            ("str(copy.copy(x))", lambda: str(copy.copy(x))),
            ("copy.copy(x) == x", lambda: copy.copy(x) == x),
            ("x == x", lambda: x == x)]
    return obs


def saved(x, where: str) -> str:
    d = tempfile.mkdtemp(prefix="c19_", dir=where)
    try:
        p = x.save_html(os.path.join(d, "page.html"), libdir=None, include_version=False)
        with open(p, encoding="utf-8", newline="") as f:
            return f.read()
    finally:
        shutil.rmtree(d, ignore_errors=True)


# =================================================================================================
# generators
# =================================================================================================
ATTR_KEYS = ["class", "class_", "id", "style", "title", "data_x", "data-x", "aria_label", "for_", "_add_ws",
             "children", "name", "x__y_", "_", "href"]
SPECIALS = ['say "hi"', "it's", "a\nb", "c\rd", "a&b<c>d", '"', "x' on='y", ""]
SIZES = [7, 8, 9, 15, 16, 17, 31, 32, 33, 63, 64, 65, 127, 128, 129, 255, 256, 257, 300]
DEPTHS = [7, 8, 9, 15, 16, 17, 31, 32, 33, 63, 64, 65, 70, 100, 129, 257, 300]
CHAIN_DEPTHS = [7, 8, 9, 15, 16, 17, 31, 32, 33, 63, 64, 65, 70]
LENGTHS = [300, 5000, 65537, 70001]
TOLERATE_RECURSION_ABOVE = 70    # a Python-level resource limit on very deep nesting is not a silent loss


def rand_vdesc(rng, long_ok=True):
    r = rng.random()
    if r < 0.22:
        return ["s", trees.rand_text(rng, 6)]
    if r < 0.37:
        return ["s", rng.choice(SPECIALS)]
    if r < 0.45:
        return ["S", trees.rand_text(rng, 5)]
    if r < 0.65:
        return ["h", trees.rand_text(rng, 6)]
    if r < 0.70:
        return ["hs", trees.rand_text(rng, 4)]
    if r < 0.75:
        return ["t"]
    if r < 0.79:
        return ["f"]
    if r < 0.83:
        return ["z"]
    if r < 0.91:
        return ["i", rng.choice([0, 1, -3, 10, 2 ** 70])]
    if r < 0.97 or not long_ok:
        return ["fl", rng.choice(["0.0", "-0.0", "2.5", "1e+20", "inf", "nan", "0.1"])]
    return [rng.choice(["ls", "lh"]), rng.choice([300, 700, 5000]), rng.choice(["ab ", "<i>", "&"]), rng.choice(SPECIALS)]


def rand_pairs(rng, n, kw=False):
    # as a KEYWORD, _add_ws is the whitespace option of Tag / consolidate_attrs / the tag function, not an attribute
    pool = [k for k in ATTR_KEYS if k != "_add_ws"] if kw else ATTR_KEYS
    keys = rng.sample(pool, min(n, len(pool)))
    return [[k, rand_vdesc(rng)] for k in keys]


def rand_ddesc(rng):
    r = rng.random()
    n = rng.choice([0, 1, 1, 2, 2, 3])
    if r < 0.4:
        return ["d", rand_pairs(rng, n)]
    if r < 0.5:
        return ["od", rand_pairs(rng, n)]
    if r < 0.6:
        return ["dsub", rand_pairs(rng, n)]
    return ["D", rand_pairs(rng, n), rand_pairs(rng, rng.choice([0, 0, 1]), kw=True)]


def rand_leaf(rng):
    r = rng.random()
    if r < 0.25:
        return ["s", trees.rand_text(rng, 6)]
    if r < 0.30:
        return ["S", trees.rand_text(rng, 4)]
    if r < 0.42:
        return ["h", trees.rand_text(rng, 6)]
    if r < 0.45:
        return ["hs", trees.rand_text(rng, 4)]
    if r < 0.53:
        return ["i", rng.choice([0, 1, -3, 10])]
    if r < 0.58:
        return ["fl", rng.choice(["0.0", "-0.0", "2.5", "1e+20", "inf"])]
    if r < 0.68:
        return ["z"]
    if r < 0.82:
        return ["g", rng.choice(["b", "div", "my-el", "br", "script"]), rng.random() < 0.5,
                [rand_leaf(rng) for _ in range(rng.choice([0, 1, 2]))] + ([["d", rand_pairs(rng, 1)]] if rng.random() < 0.3 else []),
                []]
    if r < 0.86:
        return ["r", trees.rand_text(rng, 5)]
    if r < 0.90:
        return ["c", rng.choice([0, 1, 2])]
    if r < 0.93:
        return ["cr", trees.rand_text(rng, 4)]
    if r < 0.95:
        return ["m"]
    if r < 0.97:
        return ["dep", rng.choice(["a", "b"]), rng.choice(["1.0", "1.10"])]
    if r < 0.985:
        return ["jsx", "Foo"]
    return [rng.choice(["ls", "lh"]), rng.choice([300, 5000]), "ab<", "&tail>"]


def rand_cdesc(rng, depth=3):
    r = rng.random()
    if depth <= 0 or r < 0.5:
        return rand_leaf(rng)
    if r < 0.85:
        kind = rng.choice(["L", "L", "T", "TL", "KC"])
        return [kind, [rand_cdesc(rng, depth - 1) for _ in range(rng.choice([0, 1, 2, 2, 3]))]]
    if r < 0.95:
        return ["nest", rng.choice(["list", "tuple", "mixed", "sib", "tl"]), rng.choice([1, 2, 3, 5, 9, 17, 33, 40, 65]),
                rand_cdesc(rng, depth - 1)]
    return ["rep", rng.choice([0, 1, 5, 9, 17, 33, 65]), ["s", "item{i}"], rng.choice(["L", "T", "TL"])]


def rand_case(rng, fn):
    args = []
    for _ in range(rng.choice([0, 1, 2, 3, 4, 5])):
        r = rng.random()
        if r < 0.55:
            args.append(rand_cdesc(rng))
        elif r < 0.93:
            args.append(rand_ddesc(rng))
        elif r < 0.97:
            args.append(["*ca", [rand_cdesc(rng, 1), rand_ddesc(rng), rand_ddesc(rng)], rand_pairs(rng, 1, kw=True)])
        else:
            args.append(["*rep", rng.choice([8, 17, 33]), rng.choice([["s", "c{i}"], ["d", [["class", ["s", "k{i}"]]]]])])
    kw = rand_pairs(rng, rng.choice([0, 0, 1, 2]), kw=True)
    return {"fn": list(fn), "args": args, "kw": kw, "ws": rng.choice([None, None, True, False])}


def rand_invalid_case(rng, fn):
    r = rng.random()
    # (a dict is an unsupported child only INSIDE a container; at top level it is an attribute dict)
    bad = ["bad", rng.choice(["object", "bytes", "set", "gen", "complex", "type"] + (["dict-in-container"] * 2 if r >= 0.4 else []))]
    if r < 0.4:
        item = bad
    elif r < 0.8:
        item = [rng.choice(["L", "T"]), [["s", "ok"], bad]]
    else:
        item = ["nest", "list", rng.choice([1, 5, 33]), bad]
    args = [rand_leaf(rng), item, rand_ddesc(rng)]
    rng.shuffle(args)
    return {"fn": list(fn), "args": args, "kw": [], "ws": None}


def sweep_cases(n: int):
    """for a size n: one call per countable thing of an argument list, the interesting member LAST"""
    q = ["s", 'q{i}"']
    out = [
        ("positional children", {"args": [["*rep", n - 1, ["s", "c{i}"]], ["g", "b", False, [["s", "last"]], []]]}),
        ("items of one list", {"args": [["rep", n, ["s", "item{i}"], "L"]]}),
        ("items of one tuple", {"args": [["s", "first"], ["rep", n, ["i", 0], "T"], ["s", "last"]]}),
        ("items of one TagList", {"args": [["rep", n, ["h", "<i>{i}</i>"], "TL"]]}),
        ("items of another tag's .children", {"args": [["rep", n, ["s", "k{i}"], "KC"], ["z"]]}),
        ("lists in a list", {"args": [["rep", n, ["L", [["s", "in{i}"], ["z"]]], "L"]]}),
        ("positional dicts, distinct names", {"args": [["*rep", n, ["d", [["data_k{i}", ["s", "v{i}"]]]]], ["s", "kid"]]}),
        ("positional dicts, one name, HTML last",
         {"args": [["*rep", n - 1, ["d", [["class", q]]]], ["D", [["class", ["h", "<last>"]]], []]]}),
        ("positional dicts, one name, HTML first",
         {"args": [["d", [["title", ["h", "<first>"]]]], ["*rep", n - 1, ["od", [["title", q]]]]]}),
        ("positional dicts, one name, plain only", {"args": [["*rep", n, ["D", [["class_", q]], []]]]}),
        ("names in one dict", {"args": [["drep", n, "data_k{i}", ["s", "v{i}"], "d"]], "kw": [["data_k0", ["h", "<kw>"]]]}),
        ("names in another tag's .attrs", {"args": [["d", [["data-k%d" % (n - 1), ["s", 'first"']]]],
                                                   ["drep", n, "data_k{i}", ["h", "<v{i}>"], "D"]]}),
        ("keyword attributes", {"args": [["d", [["data-k%d" % (n - 1), ["h", "<d>"]]]]], "kwrep": [n, "data_k{i}", q]}),
        ("attribute dict after many children", {"args": [["*rep", n, ["s", "c{i}"]], ["d", [["id", ["s", "late"]]]], ["s", "after"]]}),
        ("children after many attribute dicts", {"args": [["*rep", n, ["d", [["class", ["s", "c{i}"]]]]], ["L", [["s", "kid"]]]]}),
        ("class tokens in one value", {"args": [["d", [["class", ["s", " ".join("t%d" % i for i in range(n))]]]]],
                                       "kw": [["class_", ["h", "<last>"]]]}),
    ]
    return [(what + " = %d" % n, c) for what, c in out]


def depth_cases(n: int):
    leaf = ["g", "span", False, [["s", "leaf"]], [["id", ["s", "x"]]]]
    out = [(k + " nesting depth = %d" % n, {"args": [["s", "first"], ["nest", k, n, leaf], ["s", "last"]]})
           for k in ("list", "tuple", "mixed", "sib", "tl")]
    out.append(("list nesting depth = %d around a list of items" % n,
                {"args": [["nest", "list", n, ["L", [["s", "a"], ["z"], ["i", 0], ["TL", [["s", "b"]]]]]]]}))
    return out


def chain_cases(n: int):
    return [("tags nested %d deep (each made by a tag function)" % n, {"args": [["chain", n, ["s", "bottom"]], ["s", "after"]]})]


def length_cases(n: int):
    tail = '<&>"\'\n'
    return [
        ("plain child of %d characters" % n, {"args": [["ls", n, "ab ", tail], ["s", "after"]]}),
        ("HTML child of %d characters" % n, {"args": [["lh", n, "<i>x</i>", "<b>tail</b>"]]}),
        ("attribute value of %d characters" % n, {"args": [["d", [["title", ["ls", n, "ab ", tail]]]]]}),
        ("attribute value of %d characters merged with HTML" % n,
         {"args": [["d", [["title", ["ls", n, "a&b ", tail]]]], ["D", [["title", ["h", "<i>"]]], []]]}),
        ("HTML attribute value of %d characters merged with plain" % n,
         {"args": [["D", [["title", ["lh", n, "&amp;", "<end>"]]], []]], "kw": [["title", ["s", tail]]]}),
        ("attribute name of %d characters" % n, {"args": [["d", [["data_" + "n_" * (n // 2), ["s", "v"]]]]]}),
    ]


def matrix_cases():
    """two sources of one attribute x two kinds of value; container kind x two kinds of child"""
    vals = [["s", 'p"q\'r\n\r&<>'], ["S", "it's"], ["h", "<i>&amp;"], ["hs", "<b>"], ["i", 0], ["fl", "2.5"],
            ["t"], ["f"], ["z"], ["s", ""]]

    def source(kind, key, v):
        if kind == "D2":
            return ["D", [], [[key, v]]]
        if kind == "D":
            return ["D", [[key, v]], []]
        if kind == "ca":
            return ["*ca", [["d", [[key, v]]], ["s", "ca-kid"]], []]
        return [kind, [[key, v]]]
    out = []
    for s1 in ("d", "od", "dsub", "D", "D2", "ca", "kw"):
        for s2 in ("d", "od", "dsub", "D", "D2", "ca", "kw"):
            if s1 == "kw" and s2 != "kw":
                continue
            for v1 in vals:
                for v2 in vals:
                    c = {"args": [], "kw": []}
                    if s1 == "kw":
                        c["kw"] = [["title_", v1], ["title", v2]]
                    else:
                        c["args"].append(source(s1, "title", v1))
                        if s2 == "kw":
                            c["kw"] = [["title", v2]]
                        else:
                            c["args"].append(source(s2, "title_", v2))
                    out.append(("attribute sources %s + %s" % (s1, s2), c))
    leaves = [["s", "a<b"], ["S", "sub"], ["s", ""], ["h", "<i>"], ["hs", "<b>"], ["i", 0], ["fl", "-0.0"], ["z"],
              ["g", "b", False, [["s", "t"]], []], ["r", "<r>"], ["c", 2], ["cr", "<cr>"], ["m"], ["dep", "a", "1.0"], ["jsx", "Foo"]]
    for kind in ("L", "T", "TL", "KC", "LT", "TLL"):
        for a in leaves:
            for b in leaves:
                if kind == "LT":
                    item = ["L", [a, ["T", [b]]]]
                elif kind == "TLL":
                    item = ["T", [["L", [["TL", [a, b]]]]]]
                else:
                    item = [kind, [a, b]]
                out.append(("container %s" % kind, {"args": [item]}))
    return out


# =================================================================================================
def run(ctx: Ctx) -> None:
    rng = ctx.rng
    ctx.rule = ("exhaustive over every function object defined in htmltools.tags and htmltools.svg and "
                "the 17 top-level shortcuts; per function: name, default flag, explicit flag, rejected "
                "non-bool flags, equality with Tag(name, ...) on random argument lists, AND the element's "
                "children / attributes judged by a transcription of the constructor's documented behaviour "
                "(flattening at any depth, normalised and merged attributes) on described calls: random ones, "
                "a matrix of attribute sources x value kinds and container kinds x child kinds, sizes / depths / "
                "lengths around 8..300 / 70000 with the interesting member last, every observation route with "
                "non-default arguments, argument snapshots, aliasing and second-object probes. "
                "All cases are non-trivial; distinct = (module, function, probe).")
    ctx.assumptions = ["the translator prints the literals it finds (cross-checked here against the live modules)"]
    ctx.proof()

    inline = project_inline_names()
    mods = {"tags": functions(tags), "svg": functions(svg)}
    # ---- correspondence: regenerated tables == live modules -------------------------
    m = run_model([[10]])[0]
    tab = {"tags": m[0], "svg": m[1]}
    ok = True
    for mn in ("tags", "svg"):
        gen = [(unS(r[0]), unS(r[1]), bool(r[2]), bool(r[3])) for r in tab[mn]]
        live = []
        for n, f in mods[mn].items():
            t = safe_call(f)
            live.append((n, t[1].name if t[0] == "ok" and isinstance(t[1], Tag) else None,
                         t[1].add_ws if t[0] == "ok" and isinstance(t[1], Tag) else None))
        if [(a, b, c) for a, b, c, _ in gen] != live:
            ok = False
            ctx.extra[f"disagree_{mn}"] = [x for x in zip(gen, live) if (x[0][0], x[0][1], x[0][2]) != x[1]][:3]
    ctx.obligation("correspondence: regenerated wrapper tables == live function objects (name, element, default)", ok)
    ctx.obligation("correspondence: regenerated inline set == the set the oracle reads",
                   {unS(x) for x in m[2]} == inline)
    ctx.corr_cases += len(mods["tags"]) + len(mods["svg"])

    # ---- oracle: every function -----------------------------------------------------
    for mn, fs in mods.items():
        if len(fs) != {"tags": 113, "svg": 66}[mn]:
            ctx.violation(f"htmltools.{mn} exports {len(fs)} tag functions, not the documented number",
                          mn, {"count": len(fs)})
        for n, f in fs.items():
            want_ws = n not in inline
            r = safe_call(f)
            ctx.count((mn, n, "default"), True, mn)
            if r[0] != "ok" or not isinstance(r[1], Tag):
                ctx.violation(f"{mn}.{n}() does not return a Tag", [mn, n], {"impl_output": repr(r)})
                continue
            t = r[1]
            if t.name != n:
                ctx.violation(f"{mn}.{n}() creates element <{t.name}>", [mn, n], {"impl_output": t.name})
            if t.add_ws is not want_ws:
                ctx.violation(f"{mn}.{n}() defaults to _add_ws={t.add_ws}, documented {want_ws}", [mn, n],
                              {"impl_output": t.add_ws})
            for flag in (True, False):
                ctx.count((mn, n, "explicit", flag), True, mn)
                r = safe_call(lambda: f(_add_ws=flag))
                if r[0] != "ok" or r[1].add_ws is not flag or r[1].name != n:
                    ctx.violation(f"{mn}.{n}(_add_ws={flag}) does not honour the explicit flag", [mn, n, flag],
                                  {"impl_output": repr(r)})
            for bad in (None, 1, 0, "x", 1.0):
                ctx.count((mn, n, "nonbool", repr(bad)), True, mn)
                r = safe_call(lambda: f(_add_ws=bad))
                if r != ("err", 3):
                    ctx.violation(f"{mn}.{n}(_add_ws={bad!r}) is not rejected with TypeError", [mn, n, repr(bad)],
                                  {"impl_output": repr(r)})
            for _ in range(ctx.budget(6, 60)):
                st = trees.rng_save(rng)
                a1, k1 = rand_args(rng)
                trees.rng_restore(rng, st)
                a2, k2 = rand_args(rng)
                explicit = rng.choice([None, True, False])
                ctx.count((mn, n, "args", repr(st[0][1][:3])), True, mn)
                if explicit is None:
                    got = safe_call(lambda: f(*a1, **k1))
                    want = safe_call(lambda: Tag(n, *a2, _add_ws=want_ws, **k2))
                else:
                    got = safe_call(lambda: f(*a1, _add_ws=explicit, **k1))
                    want = safe_call(lambda: Tag(n, *a2, _add_ws=explicit, **k2))
                same = (got[0] == want[0] and (got[0] != "ok" or (
                    got[1] == want[1] and list(got[1].attrs.items()) == list(want[1].attrs.items())
                    and str(got[1]) == str(want[1]))))
                if not same:
                    ctx.violation(f"{mn}.{n}(*args, **kw) differs from Tag('{n}', *args, _add_ws=default, **kw)",
                                  [mn, n, repr(a1), repr(k1)], {"impl_output": repr(got), "expected": repr(want)})
                # the element name and the whitespace flag depend on the function and the _add_ws
                # keyword only -- never on the children or attributes passed
                flag_want = want_ws if explicit is None else explicit
                if got[0] == "ok" and (not isinstance(got[1], Tag) or got[1].name != n or got[1].add_ws is not flag_want):
                    ctx.violation(f"{mn}.{n}(*args, **kw): element name / whitespace flag is not the function's name and "
                                  f"the documented default (or the explicit _add_ws) for some argument list",
                                  [mn, n, repr(a1), repr(k1), repr(explicit)],
                                  {"impl_output": repr((got[1].name, got[1].add_ws)) if isinstance(got[1], Tag) else repr(got),
                                   "expected": repr((n, flag_want))})
                if got[0] != "ok":
                    ctx.violation(f"{mn}.{n}(*args, **kw) raised on a valid argument list", [mn, n, repr(a1), repr(k1)],
                                  {"impl_output": repr(got)})
    for n in TOPLEVEL:
        ctx.count(("toplevel", n), True, "toplevel")
        if getattr(htmltools, n, None) is not mods["tags"].get(n):
            ctx.violation(f"htmltools.{n} is not htmltools.tags.{n}", n, {})
    # the star-import entry points give the same function objects
    for modname, names in (("htmltools", TOPLEVEL), ("htmltools.tags", TOPLEVEL)):
        ns: dict = {}
        r = safe_call(lambda: exec(f"from {modname} import *", ns))
        ctx.count(("star-import", modname), True, "toplevel")
        for n in names:
            if r[0] != "ok" or ns.get(n) is not mods["tags"].get(n):
                ctx.violation(f"`from {modname} import *` does not give htmltools.tags.{n}", [modname, n], {"impl_output": repr(r)[:200]})
                break

    described_calls(ctx, mods, inline)
    ctx.extra["exhaustive"] = True


# =================================================================================================
def described_calls(ctx: Ctx, mods, inline) -> None:
    rng = ctx.rng
    judge = Judge(ctx)
    allf = [(mn, n) for mn in ("tags", "svg") for n in mods[mn]]
    if not allf:
        return
    tmp_root = tempfile.mkdtemp(prefix="c19_run_")
    # the functions that get every sweep: block, inline, void, raw-text, document parts, svg (camel case), shortcuts
    sample = [fn for fn in [("tags", "div"), ("tags", "span"), ("tags", "br"), ("tags", "script"), ("tags", "style"),
                            ("tags", "pre"), ("tags", "html"), ("tags", "head"), ("tags", "select"), ("tags", "label"),
                            ("svg", "svg"), ("svg", "textPath"), ("svg", "g")] if fn[1] in mods[fn[0]]]
    sample += [allf[rng.randrange(len(allf))] for _ in range(2)]

    def one(kind: str, what: str, case: dict, fn, routes: str = "none") -> None:
        """build the described call, run wrapper and constructor, judge both with the specification"""
        mn, n = fn
        f = mods[mn][n]
        case = dict(case)
        case["fn"] = [mn, n]
        case.setdefault("kw", [])
        case.setdefault("ws", None)
        want_ws = n not in inline
        flag = want_ws if case["ws"] is None else case["ws"]
        rec = {"what": what, "python": case_src(case), "call": case}
        ctx.count((mn, n, kind, what, rec["python"][:300]), True, kind)
        b = Builder(mods)
        r = call(lambda: b.call(case))
        if r[0] != "ok":
            # building the ARGUMENTS uses the library too (donor tags, TagLists, consolidate_attrs)
            ctx.violation("building the arguments of a described call failed (donor tag / TagList / consolidate_attrs "
                          "raised on valid input)", rec, {"impl_output": repr(r)})
            return
        args, kw, exp_kids, exp_attrs = r[1]
        before = call(lambda: (snap(args), snap(kw)))
        if case["ws"] is None:
            got = call(lambda: f(*args, **kw))
        else:
            got = call(lambda: f(*args, _add_ws=case["ws"], **kw))
        ref = call(lambda: Tag(n, *args, _add_ws=flag, **kw))
        after = call(lambda: (snap(args), snap(kw)))
        if before != after:
            ctx.violation("a tag function (or the Tag constructor) altered the caller's argument objects", rec,
                          {"impl_output": short(after, 400), "expected": short(before, 400)})
        how = "f(*args, **kw)"
        if b.invalid:
            for lab, x in ((how, got), ("Tag(name, *args, **kw)", ref)):
                if x != ("err", 3):
                    ctx.violation(f"{lab}: a child argument of unsupported type is not rejected with TypeError", rec,
                                  {"impl_output": short(x), "expected": "TypeError"})
            return
        if b.depth > TOLERATE_RECURSION_ABOVE and got == ("err", 7) and ref == ("err", 7):
            ctx.histogram["recursion-limit"] = ctx.histogram.get("recursion-limit", 0) + 1
            return
        if got[0] != "ok" or ref[0] != "ok":
            ctx.violation("a tag function (or the Tag constructor) raised on a valid described argument list", rec,
                          {"impl_output": short((got, ref))})
            return
        g, w = got[1], ref[1]
        ok = judge.element(how, g, n, flag, exp_kids, exp_attrs, rec)
        ok = judge.element("Tag(name, *args, _add_ws=default, **kw)", w, n, flag, exp_kids, exp_attrs, rec) and ok
        if not ok:
            return
        for top, depth, bottom in b.chains:
            # every level of a chain of tag functions holds exactly the element made one level further in
            def walk():
                x = top
                for j in reversed(range(depth)):
                    if not isinstance(x, Tag) or x.name != CHAIN_FNS[j % len(CHAIN_FNS)][1] or len(x.children) != 1:
                        return "level %d from the bottom: %s" % (j, node_view(x))
                    x = x.children[0]
                return None if x == bottom else "bottom: " + node_view(x)
            wr = call(walk)
            if wr != ("ok", None):
                ctx.violation("tag functions nested in each other: some level does not hold exactly the element made one level "
                              "further in", rec, {"impl_output": short(wr)})
        eq = call(lambda: (g == w, w == g))
        if eq != ("ok", (True, True)):
            ctx.violation("f(*args, **kw) == Tag(name, *args, _add_ws=default, **kw) is not True", rec, {"impl_output": short(eq)})
        # results are not aliased to the arguments or to each other
        for a in args:
            if a is g.attrs or a is g.children or a is w.attrs or a is w.children:
                ctx.violation("the element's .attrs / .children IS one of the caller's argument objects", rec, {})
        if g.attrs is w.attrs or g.children is w.children:
            ctx.violation("two elements share their .attrs / .children object", rec, {})
        if routes == "none":
            return
        for (route, fg), (_, fw) in zip(observations(g, routes == "light"), observations(w, routes == "light")):
            rg, rw = call(fg), call(fw)
            if rg != rw:
                ctx.violation(f"the element made by the tag function and the one made by Tag(name, ...) differ under {route}",
                              rec, {"impl_output": short(rg, 400), "expected": short(rw, 400)})
        if routes == "light":
            return
        # a shallow copy holds the same children and equal attributes; a deep copy equal text
        cp = call(lambda: copy.copy(g))
        if cp[0] != "ok" or not isinstance(cp[1], Tag) or call(lambda: (
                cp[1] == g, str(cp[1]) == str(g), attrs_view(cp[1]) == exp_attrs, len(cp[1].children), cp[1].name,
                cp[1].add_ws)) != ("ok", (True, True, True, len(exp_kids), n, flag)):
            ctx.violation("copy.copy(f(*args, **kw)) is not an equal element", rec, {"impl_output": short(cp)})
        if not b.custom:
            dc = call(lambda: copy.deepcopy(g))
            if dc[0] != "ok" or not isinstance(dc[1], Tag) or call(lambda: (dc[1] == g, str(dc[1]) == str(g), attrs_view(dc[1]) == exp_attrs,
                                                                               dc[1].name, dc[1].add_ws)) != ("ok", (True, True, True, n, flag)):
                ctx.violation("copy.deepcopy(f(*args, **kw)) is not an equal element", rec, {"impl_output": short(dc)})
        # consolidate_attrs(*args, **kw) fed back: "rebuilding a tag from its result equals building it directly"
        ca = call(lambda: consolidate_attrs(*args, **kw))
        if ca[0] != "ok":
            ctx.violation("consolidate_attrs(*args, **kw) raised on a valid argument list", rec, {"impl_output": short(ca)})
        else:
            rb = call(lambda: f(ca[1][0], *ca[1][1], _add_ws=flag))
            if rb[0] != "ok":
                ctx.violation("f(attrs, *children) of consolidate_attrs(*args, **kw) raised", rec, {"impl_output": short(rb)})
            else:
                judge.element("f(attrs, *children) with attrs, children = consolidate_attrs(*args, **kw)", rb[1], n, flag,
                              exp_kids, exp_attrs, rec)
        # the element's own .attrs / .children passed on to another tag function
        fwd = call(lambda: f(g.attrs, g.children, _add_ws=flag))
        if fwd[0] != "ok":
            ctx.violation("f(x.attrs, x.children) raised for an element x made by a tag function", rec, {"impl_output": short(fwd)})
        else:
            judge.element("f(x.attrs, x.children) with x = f(*args, **kw)", fwd[1], n, flag, exp_kids, exp_attrs, rec)
            if fwd[1].attrs is g.attrs or fwd[1].children is g.children:
                ctx.violation("f(x.attrs, x.children) shares x's .attrs / .children object", rec, {})
        # the with-block route on the element a wrapper returned (and on the constructor's): what is
        # displayed inside the block is appended after the children given at construction
        inner = Tag("b", "in")
        from htmltools._jsx import jsx_tag_create
        comp = jsx_tag_create("Shown")(Tag("i", "jsx-kid"), p=1)

        def sink(value):      # (leaving the block displays the element itself; one sink for both elements:
            return None       #  an element remembers the hook that was active when its block was entered)
        for lab, x in (("f(*args, **kw)", g), ("Tag(name, ...)", w)):
            hook = sys.displayhook
            sys.displayhook = sink

            def block():
                with x:
                    sys.displayhook("w1")
                    sys.displayhook(None)
                    sys.displayhook(inner)
                    sys.displayhook(...)
                    sys.displayhook(comp)
            rwb = call(block)
            sys.displayhook = hook
            if rwb[0] != "ok":
                ctx.violation(f"with {lab}: displaying values inside the block raised", rec, {"impl_output": short(rwb)})
            else:
                judge.element(f"`with {lab}:` displaying 'w1', None, a tag, Ellipsis and a JSX component", x, n, flag,
                              exp_kids + [("str", "w1"), ("is", inner), ("is", comp)], exp_attrs, rec)
        eq = call(lambda: (g == w, str(g) == str(w), copy.copy(g) == w))
        if eq != ("ok", (True, True, True)):
            ctx.violation("after the same with-block, the element made by the tag function and the one made by Tag(name, ...) "
                          "no longer compare / render / copy equal", rec, {"impl_output": short(eq)})
        if routes == "full+file":
            sg, sw = call(lambda: saved(g, tmp_root)), call(lambda: saved(w, tmp_root))
            if sg != sw or sg[0] != "ok":
                ctx.violation("save_html(libdir=None, include_version=False) of the element made by the tag function differs "
                              "from that of the one made by Tag(name, ...) (or raised)", rec,
                              {"impl_output": short(sg, 400), "expected": short(sw, 400)})

    try:
        # ---- (b) matrix: attribute sources x value kinds, container kinds x child kinds (spread over all functions)
        mat = matrix_cases()
        off = rng.randrange(len(allf))
        for i in range(len(mat)):
            what, c = mat[i]
            one("matrix", what, c, allf[(i + off) % len(allf)])
        # ---- (c) sizes, depths, lengths: every (countable, size) on the sample functions in turn and spread
        #          over all functions; the big strings on a handful
        sized = [x for n in SIZES for x in sweep_cases(n)] + [x for n in DEPTHS for x in depth_cases(n)] \
            + [x for n in CHAIN_DEPTHS for x in chain_cases(n)]
        off = rng.randrange(len(allf))
        for i, (what, c) in enumerate(sized):
            one("size", what, c, allf[(i * 7 + off) % len(allf)], routes="light" if i % 5 == 0 else "none")
            one("size", what, dict(c, ws=rng.choice([True, False])), sample[i % len(sample)])
        per_fn = ctx.budget(4, 40)
        for i, fn in enumerate(allf):
            for j in range(per_fn):
                what, c = sized[(i * per_fn + j + off) * 37 % len(sized)]
                one("size", what, c, fn)
        for k, n in enumerate(LENGTHS):
            for j, (what, c) in enumerate(length_cases(n)):
                one("length", what, c, sample[(k * 6 + j) % len(sample)], routes="light" if n <= 5000 or j < 2 else "none")
                one("length", what, c, allf[rng.randrange(len(allf))])
        # ---- (d) every observation route incl. files on the sample functions, features together
        combos = [
            ("one object in two places of one call", {"args": [["same", "k", ["g", "b", False, [["s", "t"]], []]], ["L", [["same", "k", ["g", "b", False, [["s", "t"]], []]]]]]}),
            ("one attribute dict given twice", {"args": [["same", "d", ["d", [["class", ["s", 'a"b']], ["id", ["h", "<i>"]]]]],
                                                          ["same", "d", ["d", [["class", ["s", 'a"b']], ["id", ["h", "<i>"]]]]]]}),
            ("another tag's .attrs given twice, then keywords", {"args": [["same", "d", ["D", [["class", ["s", "a'b"]]], [["title", ["h", "<t>"]]]]],
                                                                         ["s", "kid"], ["same", "d", ["D", [["class", ["s", "a'b"]]], [["title", ["h", "<t>"]]]]]],
                                                                "kw": [["title", ["s", 'q"']], ["class_", ["h", "&amp;"]]]}),
            ("dependency, metadata, tagifiable + self-rendering object, JSX component as children",
             {"args": [["dep", "a", "1.0"], ["L", [["m"], ["cr", "<x>"], ["T", [["jsx", "Foo"], ["c", 2]]]]], ["r", "<r>"], ["dep", "a", "1.10"]],
              "kw": [["class_", ["s", "k"]]]}),
            ("consolidate_attrs of consolidate_attrs", {"args": [["*ca", [["*ca", [["d", [["class", ["h", "<i>"]]]], ["s", "kid"], ["D", [["class", ["s", 'q"']]], []]], [["class_", ["s", "w'"]]]],
                                                                          ["d", [["class", ["s", "z\n"]]]]], []]]}),
            ("head / body / html inside", {"args": [["g", "head", True, [["g", "title", True, [["s", "t"]], []]], []], ["g", "body", True, [["s", "b"]], []]]}),
        ]
        for what, c in combos:
            for fn in sample:
                one("combo", what, c, fn, routes="full+file" if fn in sample[:4] else "full")
        for fn in sample:
            one("combo", "random described call, every route incl. files", rand_case(rng, fn), fn, routes="full+file")
        # ---- (a) random described calls, every function; one of them through every observation route
        #          (after the systematic ones: the first failing input recorded is then a small one)
        for i, fn in enumerate(allf):
            for j in range(ctx.budget(5, 40)):
                one("described", "random described call", rand_case(rng, fn), fn,
                    routes="full" if j == 0 else ("light" if j == 1 else "none"))
            one("invalid", "unsupported child type", rand_invalid_case(rng, fn), fn)
        state_probes(ctx, mods, inline, judge, allf, sample)
    finally:
        shutil.rmtree(tmp_root, ignore_errors=True)


# =================================================================================================
def state_probes(ctx: Ctx, mods, inline, judge: Judge, allf, sample) -> None:
    """STATE SHARED BETWEEN OBJECTS OR CALLS: the second element of every function is not influenced by
    the first (nor by what was done to the first); helper-made values go back into a tag function;
    a long history of calls."""
    rng = ctx.rng
    for mn, n in allf:
        f = mods[mn][n]
        ws = n not in inline
        rec = {"function": f"{mn}.{n}", "python": f"t1 = {mn}.{n}('one', ['two', None, (3,)], {{'class': 'c1'}}, id='i1'); t2 = {mn}.{n}(); "
               "t2.append('later'); t2.attrs['k'] = 'v'; t2.add_class('z'); t2.children.insert(0, 'x'); "
               f"t3 = {mn}.{n}(); t4 = {mn}.{n}('y', _add_ws={not ws}); t5 = {mn}.{n}('z', data_q=HTML('<q>'))"}
        ctx.count((mn, n, "second-object"), True, "state")
        shared_list = ["two", None, (3,)]
        shared_dict = {"class": "c1"}

        def prog():
            t1 = f("one", shared_list, shared_dict, id="i1")
            t2 = f()
            first = (list(t2.children), attrs_view(t2), t2.name, t2.add_ws)
            t2.append("later")
            t2.attrs["k"] = "v"
            t2.add_class("z")
            t2.children.insert(0, "x")
            t3 = f()
            t4 = f("y", _add_ws=not ws)
            t5 = f("z", data_q=HTML("<q>"))
            t6 = f("one", shared_list, shared_dict, id="i1")
            return t1, first, t3, t4, t5, t6, t2
        r = call(prog)
        if r[0] != "ok":
            ctx.violation("a sequence of calls of one tag function (with mutations of the results in between) raised", rec,
                          {"impl_output": short(r)})
            continue
        t1, first, t3, t4, t5, t6, t2 = r[1]
        if first != ([], [], n, ws):
            ctx.violation("f() after f(children, attributes) is not an empty element with the documented default", rec,
                          {"impl_output": short(first), "expected": repr(([], [], n, ws))})
        k1 = [("str", "one"), ("str", "two"), ("str", "3")]
        a1 = [["class", 0, "c1"], ["id", 0, "i1"]]
        judge.element("t1 (after later calls and after mutating t2)", t1, n, ws, k1, a1, rec)
        judge.element("t3 = f() after mutating an earlier f()", t3, n, ws, [], [], rec)
        judge.element("t4 = f('y', _add_ws=not default)", t4, n, not ws, [("str", "y")], [], rec)
        judge.element("t5 = f('z', data_q=HTML('<q>')) after f('y', _add_ws=not default)", t5, n, ws, [("str", "z")], [["data-q", 1, "<q>"]], rec)
        judge.element("t6 = the first call again", t6, n, ws, k1, a1, rec)
        if shared_list != ["two", None, (3,)] or shared_dict != {"class": "c1"}:
            ctx.violation("a tag function altered a list / dict argument that was used for two calls", rec,
                          {"impl_output": repr((shared_list, shared_dict))})
        objs = [t1, t2, t3, t4, t5, t6]
        if len({id(x) for x in objs}) != 6 or len({id(x.attrs) for x in objs}) != 6 or len({id(x.children) for x in objs}) != 6:
            ctx.violation("two calls of a tag function returned the same element / .attrs / .children object", rec, {})
        # mutating the caller's objects afterwards does not reach into the elements
        shared_list.append("late")
        shared_dict["class"] = "changed"
        judge.element("t1 after the caller changed the list / dict it had passed", t1, n, ws, k1, a1, rec)

    # helper-made values back into a tag function: add_class / add_style(prepend=True) with HTML(), then
    # .attrs of that element as an attribute dict of another call, after an earlier dict of the same names
    for mn, n in sample:
        f = mods[mn][n]
        ws = n not in inline
        for first_html in (False, True):
            first_src = "HTML('a&amp;')" if first_html else "'a'"
            rec = {"function": f"{mn}.{n}", "python": f"x = {mn}.{n}(class_={first_src}, style='s:1'); "
                   "x.add_class('b', prepend=True); x.add_style(HTML('t:2;'), prepend=True); "
                   f"y = {mn}.{n}({{'class': 'q\"r', 'style': \"u:'v'\"}}, x.attrs, 'kid', x.children)"}
            ctx.count((mn, n, "helpers", first_html), True, "state")

            def prog2():
                x = f(class_=HTML("a&amp;") if first_html else "a", style="s:1")
                x.add_class("b", prepend=True)
                x.add_style(HTML("t:2;"), prepend=True)
                held = attrs_view(x)
                y = f({"class": 'q"r', "style": "u:'v'"}, x.attrs, "kid", x.children)
                return held, y, attrs_view(x)
            r = call(prog2)
            if r[0] != "ok":
                ctx.violation("feeding an element's .attrs (after add_class / add_style) into a tag function raised", rec, {"impl_output": short(r)})
                continue
            held, y, held_after = r[1]
            if held != held_after:
                ctx.violation("passing x.attrs to a tag function altered x.attrs", rec, {"impl_output": short(held_after), "expected": short(held)})
            # whatever the helpers stored (their subject is C16), the call must merge THOSE values per the spec
            donor_pairs = [(k, ["h" if m else "s", t]) for k, m, t in held]
            exp = spec_merge([[("class", ["s", 'q"r']), ("style", ["s", "u:'v'"])], donor_pairs])
            judge.element("f({'class': .., 'style': ..}, x.attrs, 'kid', x.children)", y, n, ws, [("str", "kid")], exp, rec)

    # a long history of calls of one function: call number k gets k-dependent arguments; all results are
    # judged after the last call (a later call must not reach into an earlier element)
    for mn, n in sample[:6]:
        f = mods[mn][n]
        ws = n not in inline
        N = 300
        rec = {"function": f"{mn}.{n}", "python": f"[{mn}.{n}('c%d' % k, [k, None, ('t%d' % k,)], {{'class': 'a%d\"' % k}}, class_=HTML('<%d>' % k) if k % 2 else 'p', "
               f"_add_ws=bool(k % 3)) for k in range({N})]"}
        ctx.count((mn, n, "history"), True, "state")
        r = call(lambda: [f("c%d" % k, [k, None, ("t%d" % k,)], {"class": 'a%d"' % k}, class_=HTML("<%d>" % k) if k % 2 else "p",
                            _add_ws=bool(k % 3)) for k in range(N)])
        if r[0] != "ok":
            ctx.violation("a history of 300 calls of one tag function raised", rec, {"impl_output": short(r)})
            continue
        for k, t in enumerate(r[1]):
            exp = spec_merge([[("class", ["s", 'a%d"' % k])], [("class_", ["h", "<%d>" % k] if k % 2 else ["s", "p"])]])
            if not judge.element(f"call number k of a history of {N} calls", t, n, bool(k % 3),
                                 [("str", "c%d" % k), ("str", str(k)), ("str", "t%d" % k)], exp, dict(rec, k=k)):
                break


def replay(ctx: Ctx, path: str) -> None:
    """re-run the recorded input (the step that reported it runs that single case)"""
    ctx.load_replay(path)
    run(ctx)

"""C19  Every tag function creates its own element with the documented default."""
from __future__ import annotations

import ast
import os
import types

from ..common import Ctx, REPO, S, unS, run_model
from .. import trees
from ..trees import safe_call

import htmltools
from htmltools import HTML, Tag, TagList, svg, tags

# The project's classification, as the statement's "elements the project classifies as
# inline": read from scripts/generate_tags.py (ast, not import: the script downloads).
def project_inline_names() -> set[str]:
    with open(os.path.join(REPO, "scripts/generate_tags.py"), encoding="utf-8") as f:
        mod = ast.parse(f.read())
    for node in mod.body:
        if isinstance(node, ast.Assign) and getattr(node.targets[0], "id", None) == "_INLINE_TAG_NAMES":
            return set(ast.literal_eval(node.value))
    raise RuntimeError("no _INLINE_TAG_NAMES")


TOPLEVEL = ["a", "br", "code", "div", "em", "h1", "h2", "h3", "h4", "h5", "h6", "hr", "img",
            "p", "pre", "span", "strong"]


def functions(mod) -> dict:
    return {n: f for n, f in vars(mod).items()
            if isinstance(f, types.FunctionType) and f.__module__ == mod.__name__}


def rand_args(rng):
    """argument lists: children (nested), attribute dicts, keyword attributes"""
    args = []
    for _ in range(rng.choice([0, 1, 2, 3, 4])):
        r = rng.random()
        if r < 0.3:
            args.append(trees.rand_text(rng, 5))
        elif r < 0.4:
            args.append(HTML(trees.rand_text(rng, 5)))
        elif r < 0.5:
            args.append(rng.choice([None, 3, 2.5, [], ["a", None, ("b", 1)]]))
        elif r < 0.7:
            args.append(trees.build(trees.rand_tree(rng, 1, leaves="TH")))
        elif r < 0.8:
            args.append(TagList("x", Tag("i")))
        else:
            # attribute dicts are attributes and nothing else, whatever their keys are called
            args.append({rng.choice(["class", "id", "data_x", "style_", "_add_ws", "add_ws", "_name", "name", "children",
                                     "attrs", "_add_ws_", "_", "self"]):
                         rng.choice(["v", 1, True, None, False, HTML("<"), "no", 0])})
    kw = {}
    for _ in range(rng.choice([0, 0, 1, 2])):
        kw[rng.choice(["class_", "id", "data_y", "for_", "aria_label"])] = rng.choice(["w", 2, True, None, HTML("&")])
    return args, kw


def run(ctx: Ctx) -> None:
    rng = ctx.rng
    ctx.rule = ("exhaustive over every function object defined in htmltools.tags and htmltools.svg and "
                "the 17 top-level shortcuts; per function: name, default flag, explicit flag, rejected "
                "non-bool flags, and equality with Tag(name, ...) on random argument lists. "
                "All cases are non-trivial; distinct = (module, function, probe).")
    ctx.assumptions = ["the translator prints the literals it finds (cross-checked here against the live modules)"]
    ctx.proof()

    inline = project_inline_names()
    mods = {"tags": functions(tags), "svg": functions(svg)}
    # ---- correspondence: regenerated tables == live modules -------------------------
    m = run_model([[10]])[0]
    tab = {"tags": m[0], "svg": m[1]}
    ok = True
    for mn in ("tags", "svg"):
        gen = [(unS(r[0]), unS(r[1]), bool(r[2]), bool(r[3])) for r in tab[mn]]
        live = []
        for n, f in mods[mn].items():
            t = safe_call(f)
            live.append((n, t[1].name if t[0] == "ok" and isinstance(t[1], Tag) else None,
                         t[1].add_ws if t[0] == "ok" and isinstance(t[1], Tag) else None))
        if [(a, b, c) for a, b, c, _ in gen] != live:
            ok = False
            ctx.extra[f"disagree_{mn}"] = [x for x in zip(gen, live) if (x[0][0], x[0][1], x[0][2]) != x[1]][:3]
    ctx.obligation("correspondence: regenerated wrapper tables == live function objects (name, element, default)", ok)
    ctx.obligation("correspondence: regenerated inline set == the set the oracle reads",
                   {unS(x) for x in m[2]} == inline)
    ctx.corr_cases += len(mods["tags"]) + len(mods["svg"])

    # ---- oracle: every function -----------------------------------------------------
    for mn, fs in mods.items():
        if len(fs) != {"tags": 113, "svg": 66}[mn]:
            ctx.violation(f"htmltools.{mn} exports {len(fs)} tag functions, not the documented number",
                          mn, {"count": len(fs)})
        for n, f in fs.items():
            want_ws = n not in inline
            r = safe_call(f)
            ctx.count((mn, n, "default"), True, mn)
            if r[0] != "ok" or not isinstance(r[1], Tag):
                ctx.violation(f"{mn}.{n}() does not return a Tag", [mn, n], {"impl_output": repr(r)})
                continue
            t = r[1]
            if t.name != n:
                ctx.violation(f"{mn}.{n}() creates element <{t.name}>", [mn, n], {"impl_output": t.name})
            if t.add_ws is not want_ws:
                ctx.violation(f"{mn}.{n}() defaults to _add_ws={t.add_ws}, documented {want_ws}", [mn, n],
                              {"impl_output": t.add_ws})
            for flag in (True, False):
                ctx.count((mn, n, "explicit", flag), True, mn)
                r = safe_call(lambda: f(_add_ws=flag))
                if r[0] != "ok" or r[1].add_ws is not flag or r[1].name != n:
                    ctx.violation(f"{mn}.{n}(_add_ws={flag}) does not honour the explicit flag", [mn, n, flag],
                                  {"impl_output": repr(r)})
            for bad in (None, 1, 0, "x", 1.0):
                ctx.count((mn, n, "nonbool", repr(bad)), True, mn)
                r = safe_call(lambda: f(_add_ws=bad))
                if r != ("err", 3):
                    ctx.violation(f"{mn}.{n}(_add_ws={bad!r}) is not rejected with TypeError", [mn, n, repr(bad)],
                                  {"impl_output": repr(r)})
            for _ in range(ctx.budget(6, 60)):
                st = trees.rng_save(rng)
                a1, k1 = rand_args(rng)
                trees.rng_restore(rng, st)
                a2, k2 = rand_args(rng)
                explicit = rng.choice([None, True, False])
                ctx.count((mn, n, "args", repr(st[0][1][:3])), True, mn)
                if explicit is None:
                    got = safe_call(lambda: f(*a1, **k1))
                    want = safe_call(lambda: Tag(n, *a2, _add_ws=want_ws, **k2))
                else:
                    got = safe_call(lambda: f(*a1, _add_ws=explicit, **k1))
                    want = safe_call(lambda: Tag(n, *a2, _add_ws=explicit, **k2))
                same = (got[0] == want[0] and (got[0] != "ok" or (
                    got[1] == want[1] and list(got[1].attrs.items()) == list(want[1].attrs.items())
                    and str(got[1]) == str(want[1]))))
                if not same:
                    ctx.violation(f"{mn}.{n}(*args, **kw) differs from Tag('{n}', *args, _add_ws=default, **kw)",
                                  [mn, n, repr(a1), repr(k1)], {"impl_output": repr(got), "expected": repr(want)})
                # the element name and the whitespace flag depend on the function and the _add_ws
                # keyword only -- never on the children or attributes passed
                flag_want = want_ws if explicit is None else explicit
                if got[0] == "ok" and (not isinstance(got[1], Tag) or got[1].name != n or got[1].add_ws is not flag_want):
                    ctx.violation(f"{mn}.{n}(*args, **kw): element name / whitespace flag is not the function's name and "
                                  f"the documented default (or the explicit _add_ws) for some argument list",
                                  [mn, n, repr(a1), repr(k1), repr(explicit)],
                                  {"impl_output": repr((got[1].name, got[1].add_ws)) if isinstance(got[1], Tag) else repr(got),
                                   "expected": repr((n, flag_want))})
                if got[0] != "ok":
                    ctx.violation(f"{mn}.{n}(*args, **kw) raised on a valid argument list", [mn, n, repr(a1), repr(k1)],
                                  {"impl_output": repr(got)})
    for n in TOPLEVEL:
        ctx.count(("toplevel", n), True, "toplevel")
        if getattr(htmltools, n, None) is not mods["tags"].get(n):
            ctx.violation(f"htmltools.{n} is not htmltools.tags.{n}", n, {})
    ctx.extra["exhaustive"] = True


def replay(ctx: Ctx, path: str) -> None:
    """re-run the recorded input (the step that reported it runs that single case)"""
    ctx.load_replay(path)
    run(ctx)

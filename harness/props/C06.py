"""C06  Block layout follows the documented line and indentation rules."""
from __future__ import annotations

import itertools

from ..common import Ctx, S, unS, differential, run_model
from .. import trees
from ..trees import build, to_sx, safe_call, res_decode

from htmltools import TagList

EOLS = ["\n", "\r\n", "", " ", "\t\n", "<br>"]


def valid(d, parent_inline=False):
    k = d[0]
    if k == "G":
        if parent_inline and d[2]:
            return False
        return all(valid(x, parent_inline or not d[2]) for x in d[4])
    if k == "C":
        return d[1] is not None
    return True


def small_valid_trees():
    leaf = {
        "t": ("T", "a\nb"), "T": ("T", "<"), "b": ("G", "p", True, [], []),
        "B": ("G", "div", True, [], [("T", "x"), ("G", "b", False, [], [("T", "y")])]),
        "i": ("G", "b", False, [], [("T", "x")]), "I": ("G", "span", False, [], [("G", "i", False, [], []), ("T", "z")]),
        "v": ("G", "br", False, [], []), "V": ("G", "hr", True, [], []),
        "h": ("H", "<i>\n</i>"), "r": ("R", "<u>"), "m": ("M", None),
    }
    for (pn, pws) in [("div", True), ("ul", True), ("span", False), ("script", True)]:
        for n in range(0, 4):
            for combo in itertools.product(leaf, repeat=n):
                d = ("G", pn, pws, [], [leaf[c] for c in combo])
                if valid(d):
                    yield d


def run(ctx: Ctx) -> None:
    rng = ctx.rng
    ctx.rule = ("validly nested trees only (no block tag inside an inline tag): bounded-exhaustive child "
                "sequences up to length 3 over {text with newline, text, empty block, block with run, inline, "
                "nested inline, inline void, block void, HTML with newline, repr-object, metadata} under "
                "block/inline/script parents, plus random validly nested trees of depth <= 5, each with indent "
                "0..4 and eol from 6 strings; top-level lists likewise. Non-trivial = has a block tag with >= 2 "
                "children; distinct = canonical (tree, indent, eol).")
    ctx.assumptions = ["the extracted OCaml model/spec behave as their Gallina sources"]
    ctx.proof()

    cases = []
    for d in small_valid_trees():
        cases.append((d, 0, "\n"))
        if not ctx.quick:
            cases.append((d, 3, "\r\n"))
    n_rand = ctx.budget(3000, 50000)
    while n_rand > 0:
        d = trees.rand_tree(rng, rng.choice([1, 2, 3, 3, 4, 5]), leaves="TTHRM", names="bbbiivsc",
                            valid_nesting=True, flip_ws=0.1)
        if not valid(d):
            continue
        n_rand -= 1
        cases.append((d, rng.randrange(0, 5), rng.choice(EOLS)))

    cases = ctx.select("Tag.get_html_string (validly nested trees)", cases)
    spec = run_model([[4, to_sx(d), i, S(eol)] for d, i, eol in cases])
    spec_of = {}
    for c, m in zip(cases, spec):
        spec_of[id(c)] = (bool(m[0]), unS(m[1]))
    ctx.obligation("spec valid_nesting agrees with the generator's validity filter",
                   all(v[0] for v in spec_of.values()))

    def nontriv(c):
        def go(d):
            return d[0] == "G" and ((d[2] and len([k for k in d[4] if k[0] != "M"]) >= 2) or any(go(k) for k in d[4]))
        return go(c[0])

    def oracle(c, out):
        want = spec_of[id(c)][1]
        if out != ("ok", want):
            return "rendering differs from the documented line/indentation structure"
        # every other way of obtaining the markup gives the same layout (default arguments)
        m = trees.routes_disagree(build(c[0], share=True))
        if m:
            return "the ways of obtaining the markup (get_html_string, str, repr, _repr_html_, render, tagify) disagree: " + m
        # the same tree with every tag's children arriving through append / extend / insert(TagList) / insert(list) /
        # single inserts / += instead of the constructor has the same layout
        alt = safe_call(lambda: trees.build_routed(c[0]).get_html_string(c[1], c[2]))
        if alt != ("ok", want):
            return ("a tree whose children arrived through append / extend / insert / += (instead of the constructor) "
                    f"is laid out differently: {alt!r}")
        return None

    differential(
        ctx, "Tag.get_html_string (validly nested trees)", cases,
        to_sx=lambda c: [2, to_sx(c[0]), c[1], S(c[2])],
        impl=lambda c: safe_call(lambda: build(c[0], share=True).get_html_string(c[1], c[2])),
        decode=lambda m: res_decode(m, unS), oracle=oracle, nontrivial=nontriv, kind=lambda c: "tag")

    # ---- top-level lists -------------------------------------------------------------
    lcases = []
    for _ in range(ctx.budget(1500, 25000)):
        items = []
        for _ in range(rng.choice([0, 1, 2, 3, 4, 5])):
            while True:
                d = trees.rand_child(rng, rng.choice([0, 1, 2, 3]), leaves="TTHRM", names="bbbiivsc",
                                     valid_nesting=True, flip_ws=0.1, parent_ws=True)
                if valid(d):
                    break
            items.append(d)
        lcases.append((items, rng.randrange(0, 4), rng.choice(EOLS)))
    lcases = ctx.select("TagList.get_html_string (validly nested items)", lcases)
    lspec = run_model([[6, [to_sx(d) for d in items], i, S(eol)] for items, i, eol in lcases])
    lspec_of = {id(c): unS(m[1]) for c, m in zip(lcases, lspec)}

    def loracle(c, out):
        if out != ("ok", lspec_of[id(c)]):
            return "top-level list layout differs from the documented sibling rule"
        memo: dict = {}
        m = trees.routes_disagree(TagList(*[build(d, True, memo) for d in c[0]]))
        if m:
            return "the ways of obtaining a list's markup disagree: " + m
        return None

    differential(
        ctx, "TagList.get_html_string (validly nested items)", lcases,
        to_sx=lambda c: [3, [to_sx(d) for d in c[0]], c[1], S(c[2]), 1, 1],
        impl=lambda c: safe_call(lambda: TagList(*[build(d) for d in c[0]]).get_html_string(c[1], c[2])),
        decode=lambda m: res_decode(m, unS), oracle=loracle,
        nontrivial=lambda c: len(c[0]) >= 2, kind=lambda c: "list")

    # ---- indent shift and eol substitution, on the implementation ----------------------
    for c in cases[: ctx.budget(600, 6000)]:
        d, i, eol = c
        base = safe_call(lambda: build(d).get_html_string(0, "\x00"))
        got = safe_call(lambda: build(d).get_html_string(i, eol))
        ctx.count(("shift", d, i, eol), nontriv(c), "indent/eol shift")
        if base[0] == "ok" and "\x00" not in repr(d):
            want = eol.join(("  " * i) + ln for ln in base[1].split("\x00"))
            if got != ("ok", want):
                ctx.violation("indent=k does not shift every layout line by 2k spaces / eol is not the line separator",
                              [d, i, eol], {"impl_output": got, "expected": want})


def replay(ctx: Ctx, path: str) -> None:
    """re-run the recorded input (the step that reported it runs that single case)"""
    ctx.load_replay(path)
    run(ctx)

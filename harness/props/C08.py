"""C08  Rendering and tagify are pure and consistent; tagify returns an independent copy.

ENTRY POINTS that can reach what the property talks about (each is driven below with default and
non-default arguments; the oracle is always the property's own: the receiver's / arguments' whole
object graph is structurally unchanged, an equal call gives an equal result again, tagify()/copy
results are equal to, and independent of, the original, the four string forms agree, == is structural):

  Tag / TagList    tagify(); render(); get_html_string(indent=0..5, eol="\n" | "" | "\r\n" | "<br>")
                   [TagList also add_ws=False]; get_dependencies(dedup=True|False); str / repr /
                   _repr_html_ in the default mode AND under htmltools.html_dependency_render_mode =
                   "json"; save_html(file, libdir=None|"lib"|"a/b", include_version=True|False);
                   copy.copy / copy.deepcopy; __eq__ (both directions, twins, perturbed twins);
                   mutation routes used by the independence clauses: append / insert (also negative
                   index) / extend / += / children[i] = .. / del / pop / add_class(prepend=) /
                   remove_class / add_style(prepend=) / attrs[...] = / attrs.update / name / add_ws
  construction     Tag(...); the tags.* / top-level re-exported functions (htmltools.div ...); another
  routes           tag's .attrs object passed as the attribute dict; consolidate_attrs(...) and back
                   into a tag; add_class / add_style helpers with HTML() values; nested lists / tuples /
                   TagLists of children; TagList + x, x + TagList, +=; the with-block (sys.displayhook)
                   route, finished and still active; head_content(...); jsx_tag_create components
  HTMLDocument     HTMLDocument(x, lang=, class_=, style=, HTML() values).render(lib_prefix=None|""|
                   "lib"|"a/b", include_version=); .save_html(file, libdir=, include_version=);
                   .append(x); copy.copy(document); HTMLDocument._hoist_head_content
  HTMLTextDocument HTMLTextDocument(text, deps=[...], deps_replace_pattern=<with regex metacharacters>)
                   .render(lib_prefix=, include_version=), also on text produced in json render mode
  HTMLDependency   as_html_tags / as_dict / source_path_map (lib_prefix=None|""|"x/y", include_version=);
                   serialize_to_script_json(indent=None|0|2|4); str / repr / copy.copy / copy.deepcopy /
                   ==; sources None, {href}, {subdir}, {package: None, subdir}, {package: name, subdir};
                   script / stylesheet / meta given as one dict or as lists; head given as str / tag / list
"""
from __future__ import annotations

import atexit
import copy
import hashlib
import os
import random
import shutil
import sys
import tempfile

import glob
import json

from ..common import Ctx, S, unS, run_model, known_matcher, sx_opt, VERIF
from .. import trees
from ..trees import build, safe_call
from ..snapshot import snapshot, structure, mutable_ids

import htmltools
from htmltools import (HTML, HTMLDependency, HTMLDocument, HTMLTextDocument, MetadataNode, Tag, TagList,
                       consolidate_attrs, head_content)
from htmltools import tags as _tags
from htmltools._core import TagAttrDict

WHAT_DEP_SHARE = ("tagify() copy of a dependency shares internal objects (head child list / script, stylesheet, "
                  "meta lists) with the original")


@known_matcher("F8-dep-copy-shares-internals")
def _k(what, case, detail):
    return what == WHAT_DEP_SHARE


WHAT_EQ_WITH = ("== is false for structurally identical tags: one of them was used as a context manager "
                "(its block has finished), the other was not")


@known_matcher("F10-eq-after-with")
def _k10(what, case, detail):
    return what == WHAT_EQ_WITH


def known_shape_eq_after_with(ctx: Ctx) -> None:
    """F10: Tag.__exit__ never resets prev_displayhook and == compares every instance field, so a tag
    whose with-block has finished no longer equals an identically built tag (same name, flag,
    attributes, children).  Exercised on the smallest instance and on a nested one."""
    import sys
    from htmltools import Tag
    for nested in (False, True):
        a, b = Tag("div", "x", id="i"), Tag("div", "x", id="i")
        old = sys.displayhook
        try:
            sys.displayhook = lambda v: None
            if nested:
                with Tag("section"):
                    with a:
                        pass
            else:
                with a:
                    pass
        finally:
            sys.displayhook = old
        ctx.count(("eq-after-with", nested), True, "equality after a finished with-block")
        same_text = str(a) == str(b)
        r = safe_call(lambda: (a == b, b == a))
        if same_text and r != ("ok", (True, True)):
            ctx.violation(WHAT_EQ_WITH, {"built": "Tag('div', 'x', id='i') twice; `with a: pass` once", "nested": nested},
                          {"impl_output": repr(r), "expected": "(True, True)"})


def environment_shaped_sources(ctx: Ctx) -> None:
    """Dependencies whose source paths look like something the environment could rewrite (~, ~user,
    $VAR, %VAR%, ., .., relative, trailing separator): every read-only dependency method and every
    rendering route leaves the dependency (and its source dict) structurally unchanged and equal to an
    identically built twin."""
    import copy as _copy
    from htmltools import HTMLDependency, HTMLDocument, Tag
    subdirs = ["~/verif-no-such-dir", "~", "~root/x", "$HOME/x", "${HOME}", "%TEMP%\\x", ".", "..", "./a/../b", "rel/dir/",
               "/abs/dir/", "a b/c", "~/a b"]
    for sd in subdirs:
        for pkg in (None,):
            mk = lambda: HTMLDependency("envdep", "1.0", source={"subdir": sd} if pkg is None else {"package": pkg, "subdir": sd},  # noqa: E731
                                        script={"src": "a.js"}, stylesheet={"href": "b.css"})
            d, twin = mk(), mk()
            before = _copy.deepcopy(d.__dict__)
            ops = [lambda: d.source_path_map(), lambda: d.source_path_map(lib_prefix=None, include_version=False),
                   lambda: d.as_dict(), lambda: d.as_html_tags(), lambda: d.serialize_to_script_json(),
                   lambda: Tag("div", d).render(), lambda: str(Tag("div", d)), lambda: Tag("div", d).tagify(),
                   lambda: HTMLDocument(Tag("div", d)).render(lib_prefix=None)]
            for i, op in enumerate(ops):
                safe_call(op)
                ctx.count(("env-source", sd, i), True, "environment-shaped source path")
                if d.__dict__ != before or not (d == twin):
                    ctx.violation("a read-only dependency method / rendering route changed the dependency it was called on "
                                  "(a source path that the environment could expand: ~, $VAR, relative)",
                                  {"subdir": sd, "operation_index": i},
                                  {"impl_output": repr(d.source), "expected": repr(before.get("source"))})
                    break


# ---- generators ---------------------------------------------------------------------------
# Description language of this harness (a superset of trees.py's; JSON-able):
#   ('S', i)                         the i-th shared object (aliasing)
#   ('M', kw)                        dependency: HTMLDependency(**kw); kw['head'] may be a description or a
#                                    list of descriptions; {'head_content': [descs]} builds head_content(...)
#   ('W', name, ws, attrs, kids)     a tag filled through the with-block route:  with tag: displayhook(kid) ...
#   ('A', route, name, ws, attrs, kids)  a tag whose attributes arrive by another public route (ATTR_ROUTES)
#   ('J', name, props, kids)         a jsx_tag_create(name) component (tagifiable AND self-rendering)
#   ('L', depth, kids)               the kids wrapped in `depth` levels of list / tuple / TagList (flattened
#                                    by the constructor that receives them)
#   ('Q', kids[, how])               a top-level TagList, made by the constructor or by + / reflected + / += and extend
ASSETS_TOKEN = "$ASSETS"      # stands for a real directory with a.js, 'b c.js', s.css, sub/c.js, big.bin
_ASSETS: list = []


def assets_dir() -> str:
    """a real source directory for dependencies (made once per process, removed at exit); big.bin is
    larger than 256 KiB and its size is not a multiple of 64 KiB"""
    if not _ASSETS:
        d = tempfile.mkdtemp(prefix="verif-c08-assets-")
        atexit.register(shutil.rmtree, d, True)
        os.makedirs(os.path.join(d, "sub"))
        for name, data in [("a.js", b"/*a*/\n"), ("b c.js", b"/*b c*/\n"), ("s.css", b"p{}\n"),
                           (os.path.join("sub", "c.js"), b"/*c*/\n"),
                           ("big.bin", bytes((i * 7 + i // 65536) % 251 for i in range(300007)))]:
            with open(os.path.join(d, name), "wb") as f:
                f.write(data)
        _ASSETS.append(d)
    return _ASSETS[0]


def _subst_assets(v):
    if isinstance(v, dict):
        return {k: _subst_assets(x) for k, x in v.items()}
    if isinstance(v, str) and v == ASSETS_TOKEN:
        return assets_dir()
    return v


def rand_dep(rng, rich=False):
    kw = {"name": rng.choice(["a", "b", "c"]), "version": rng.choice(["1.0", "1.10", "2"])}
    if rich and rng.random() < 0.6:
        # every way of writing the source (files exist, so save_html gets past the existence test)
        k = rng.randrange(0, 5)
        if k == 0:
            kw["source"] = {"subdir": ASSETS_TOKEN}
        elif k == 1:
            kw["source"] = {"package": None, "subdir": ASSETS_TOKEN}
        elif k == 2:
            kw["source"] = {"subdir": ASSETS_TOKEN, "package": None}
        elif k == 3:
            kw["source"] = {"package": "htmltools", "subdir": "lib/react"}
        else:
            kw["source"] = {"href": "https://x.y/z"}
        if k == 3:
            kw["script"] = {"src": "react.production.min.js"}
        else:
            kw["script"] = rng.choice([{"src": "a.js"}, [{"src": "a.js"}, {"src": "b c.js", "defer": ""}],
                                       [{"src": "sub/c.js", "type": "module"}]])
            if rng.random() < 0.5:
                kw["stylesheet"] = rng.choice([{"href": "s.css"}, [{"href": "s.css", "media": "print"}]])
        if rng.random() < 0.15 and k in (0, 1, 2):
            kw["all_files"] = True
    elif rng.random() < 0.5:
        kw["source"] = {"href": rng.choice(["https://x.y/z", "https://x.y/z/"])}
        kw["script"] = rng.choice([{"src": "a.js"}, [{"src": "a.js"}, {"src": "b c.js", "defer": ""}]])
    if "stylesheet" not in kw and rng.random() < 0.4:
        kw["stylesheet"] = {"href": "s.css"}
    if rng.random() < 0.3:
        kw["meta"] = {"name": "m", "content": "c<"}
    if rng.random() < 0.5:
        kw["head"] = rng.choice(["<meta name='x'>", ("G", "title", True, [], [("T", "t&")]), None])
    return kw


ATTR_ROUTES = ["attrs_obj", "consolidate", "kwargs", "helpers", "dicts"]
_DEPTH = [0]                  # nesting depth of with-blocks being built


def _sink(value):             # the displayhook under which with-built trees are made (one object: see nested_with)
    return None


def _set_attrs_raw(t, attrs):
    for key, (m, v) in attrs:
        dict.__setitem__(t.attrs, key, HTML(v) if m == "H" else v)


def build_x(d, shared, ex=None):
    """like trees.build, for the description language above.  ex (a list) collects objects the
    construction used besides the result (donor tags whose .attrs were passed on, ...): they are
    caller-side objects that no later operation on the result may change either."""
    k = d[0]
    if k == "S":
        return shared[d[1] % len(shared)]
    if k == "M":
        if d[1] is None:
            return MetadataNode()
        kw = copy.deepcopy(dict(d[1]))       # the dependency keeps the dicts it is given: never the description's own
        if "head_content" in kw:
            return head_content(*[build_x(x, shared, ex) for x in kw["head_content"]])
        if isinstance(kw.get("head"), tuple):
            kw["head"] = build_x(kw["head"], shared, ex)
        elif isinstance(kw.get("head"), list):
            kw["head"] = [build_x(x, shared, ex) for x in kw["head"]]
        if "source" in kw:
            kw["source"] = _subst_assets(kw["source"])
        return HTMLDependency(**kw)
    if k == "G":
        _, name, ws, attrs, kids = d
        t = Tag(name, *[build_x(x, shared, ex) for x in kids], _add_ws=ws)
        _set_attrs_raw(t, attrs)
        return t
    if k == "W":
        _, name, ws, attrs, kids = d
        t = Tag(name, _add_ws=ws)
        _set_attrs_raw(t, attrs)
        old = sys.displayhook
        if _DEPTH[0] == 0:
            sys.displayhook = _sink
        _DEPTH[0] += 1
        try:
            with t:
                for kd in kids:
                    if kd[0] == "W":
                        build_x(kd, shared, ex)      # a nested with-block hands its tag to the enclosing one on exit
                    else:
                        sys.displayhook(build_x(kd, shared, ex))
        finally:
            _DEPTH[0] -= 1
            if _DEPTH[0] == 0:
                sys.displayhook = old
        return t
    if k == "A":
        _, route, name, ws, attrs, kids = d
        kb = [build_x(x, shared, ex) for x in kids]
        vals = [(key, HTML(v) if m == "H" else v) for key, (m, v) in attrs]
        if route == "attrs_obj":
            donor = Tag("donor")
            _set_attrs_raw(donor, attrs)
            if ex is not None:
                ex.append(donor)
            return Tag(name, donor.attrs, *kb, _add_ws=ws)
        if route == "consolidate":
            a, kk = consolidate_attrs(dict(vals), *kb)
            return Tag(name, a, *kk, _add_ws=ws)
        if route == "kwargs":
            f = getattr(htmltools, name, None) or getattr(_tags, name, None)
            kwargs = {key.replace("-", "_") + ("_" if key in ("class", "for") else ""): v for key, v in vals
                      if key.replace("-", "_").isidentifier()}
            rest = {key: v for key, v in vals if not key.replace("-", "_").isidentifier()}
            if callable(f) and getattr(f, "__module__", "") == "htmltools.tags":
                return f(rest, *kb, _add_ws=ws, **kwargs)
            return Tag(name, rest, *kb, _add_ws=ws, **kwargs)
        if route == "helpers":
            t = Tag(name, *kb, _add_ws=ws)
            for i, (key, v) in enumerate(vals):
                if key == "class":
                    t.add_class(str(v), prepend=i % 2 == 1)
                elif key == "style":
                    if not str(v).endswith(";"):       # add_style() wants complete declarations
                        v = HTML(str(v) + ";") if isinstance(v, HTML) else str(v) + ";"
                    t.add_style(v, prepend=i % 2 == 1)
                else:
                    t.attrs[key] = v
            return t
        # "dicts": every attribute in a dict of its own (same-named ones are merged by the constructor)
        return Tag(name, *[{key: v} for key, v in vals], *kb, _add_ws=ws)
    if k == "J":
        from htmltools._jsx import jsx_tag_create
        _, name, props, kids = d
        return jsx_tag_create(name)(*[build_x(x, shared, ex) for x in kids], **copy.deepcopy(dict(props)))
    if k == "L":
        _, depth, kids = d
        v = [build_x(x, shared, ex) for x in kids]
        for i in range(depth):
            v = [v] if i % 3 == 0 else (v,) if i % 3 == 1 else [TagList(v)]
        return v
    if k == "Q":
        items = [build_x(x, shared, ex) for x in d[1]]
        how = d[2] if len(d) > 2 else "ctor"
        h = len(items) // 2
        if how == "add":                       # TagList + iterable
            return TagList(*items[:h]) + items[h:]
        if how == "radd":                      # iterable + TagList
            return items[:h] + TagList(*items[h:])
        if how == "iadd":                      # +=, then extend / insert / append
            l = TagList()
            l += items[:h]
            l.extend(items[h:-1])
            if items:
                l.insert(len(l), items[-1]) if h % 2 else l.append(items[-1])
            return l
        return TagList(*items)
    if k == "C":
        _, sh, exp, as_list = d
        e = [build_x(x, shared, ex) for x in exp]
        return trees.CustomObj(e, as_list) if sh is None else trees.CustomReprObj(e, as_list, sh)
    return build(d)


def kids_of(d):
    """the child descriptions of a description (dependency heads included)"""
    k = d[0]
    if k in "GW":
        return list(d[4])
    if k == "A":
        return list(d[5])
    if k == "C":
        return list(d[2])
    if k == "J":
        return list(d[3])
    if k == "L":
        return list(d[2])
    if k == "Q":
        return list(d[1])
    if k == "M" and d[1] is not None:
        h = d[1].get("head_content") or d[1].get("head")
        if isinstance(h, tuple):
            return [h]
        if isinstance(h, list):
            return list(h)
    return []


def kinds_x(d, acc=None):
    acc = set() if acc is None else acc
    acc.add("M0" if d[0] == "M" and d[1] is None else d[0])
    for c in kids_of(d):
        kinds_x(c, acc)
    return acc


def nested_with(d, inside=False):
    """a with-built tag inside the with-block of another one"""
    if d[0] == "W" and inside:
        return True
    return any(nested_with(c, inside or d[0] == "W") for c in kids_of(d))


def rand_tree(rng, depth, root=None, custom=False, extended=False):
    d = trees.rand_tree(rng, depth, leaves="TTHRMD", names="bbivsc", custom=custom)
    def fix(x, ext):
        # (ext is off inside a tagifiable object's expansion: by the Tagifiable contract that holds
        # ready-made tags and text only)
        if x[0] == "G":
            g = ("G", x[1], x[2], x[3], [fix(k, ext) for k in x[4]])
            if ext:
                r = rng.random()
                if r < 0.07:
                    return ("W",) + g[1:]
                if r < 0.14:
                    return ("A", rng.choice(ATTR_ROUTES)) + g[1:]
                if r < 0.17 and g[4]:
                    return ("G", g[1], g[2], g[3], [("L", rng.choice([1, 2, 3, 9]), g[4])])
            return g
        if x[0] == "M" and x[1] is not None:
            return ("M", rand_dep(rng, rich=extended))
        if x[0] == "C":
            return ("C", x[1], [fix(k, False) for k in x[2]], x[3])
        if x[0] in "TH" and rng.random() < 0.08:
            return ("S", rng.randrange(0, 3))
        if ext and custom and x[0] in "TH" and rng.random() < 0.04:
            return ("J", rng.choice(["Foo", "My.Comp"]), [["n", 1], ["s", x[1]], ["o", {"a": [1, {"b": None}]}]],
                    [("T", x[1]), ("G", "b", False, [], [])])
        return x
    d = fix(d, extended)
    if root:
        d = ("G", root, True, d[4], d[5]) if d[0] == "A" else (d[0], root, True, d[3], d[4])
    return d


def abbrev(d):
    """the description with very long strings cut in the middle (for reports: the input stays recognisable)"""
    if isinstance(d, str):
        return d if len(d) <= 300 else f"{d[:80]}...[{len(d)} characters in all]...{d[-80:]}"
    if isinstance(d, (list, tuple)):
        return [abbrev(x) for x in d]
    if isinstance(d, dict):
        return {k: abbrev(v) for k, v in d.items()}
    return d


# ---- read-only operations, with their arguments: (key, thunk); an equal key must give an equal result
LIB_PREFIXES = [None, "", "lib", "a/b"]
EOLS = ["\n", "", "\r\n", "<br>"]
DOC_KWS = [{}, {"lang": "en"}, {"lang": "en", "class_": HTML("c"), "style": "margin:0"},
           {"class_": "a b", "data_x": HTML("<&>")}]
TEXT_PATTERN = "{{ deps.*+?[x](1)|^$ }}"      # looks like a regular expression; it is a plain string
OPS = ["tagify", "render", "str", "repr", "html", "deps", "copy", "doc", "doc_attrs", "save", "eq", "hoist",
       "repr_html", "json_str", "deepcopy", "doc_kw", "doc_copy", "doc_append", "doc_save", "textdoc", "textdoc_json"]


class json_mode:
    """htmltools.html_dependency_render_mode = 'json' for the duration of the block"""

    def __enter__(self):
        self.old = htmltools.html_dependency_render_mode
        htmltools.html_dependency_render_mode = "json"

    def __exit__(self, *a):
        htmltools.html_dependency_render_mode = self.old
        return False


def _saved(f):
    """run f(dir) in a fresh directory; the result is what it returned plus what it wrote"""
    d = tempfile.mkdtemp(prefix="verif-c08-")
    try:
        r = f(d)
        files = {}
        for root, _, names in os.walk(d):
            for n in names:
                p = os.path.join(root, n)
                with open(p, "rb") as fh:
                    files[os.path.relpath(p, d)] = hashlib.sha1(fh.read()).hexdigest()
        return [os.path.relpath(r, d) if isinstance(r, str) else repr(r), sorted(files.items())]
    finally:
        shutil.rmtree(d, ignore_errors=True)


def _text_doc(x, rng, in_json):
    deps = x.get_dependencies()
    if in_json:
        with json_mode():
            body = str(x)
    else:
        body = x.tagify().get_html_string()
    text = "<html><head>\n" + TEXT_PATTERN + "</head><body>" + body + TEXT_PATTERN + "</body></html>"
    lp, iv = rng.choice(LIB_PREFIXES), rng.random() < 0.5
    def go():
        doc = HTMLTextDocument(text, deps=list(deps), deps_replace_pattern=TEXT_PATTERN)
        before = snapshot([dict(vars(doc))])
        r1 = doc.render(lib_prefix=lp, include_version=iv)
        r2 = doc.render(lib_prefix=lp, include_version=iv)
        return [r1["html"], structure(r1["dependencies"]), r2["html"] == r1["html"],
                structure(r2["dependencies"]) == structure(r1["dependencies"]), snapshot([dict(vars(doc))]) == before]
    return ("textdoc", in_json, lp, iv), go


def pick_op(op, x, rng):
    """(key, thunk) of one read-only operation on x with its arguments drawn from rng"""
    if op == "tagify":
        return (op,), lambda: x.tagify()
    if op == "render":
        return (op,), lambda: x.render()
    if op == "str":
        return (op,), lambda: str(x)
    if op == "repr":
        return (op,), lambda: repr(x)
    if op == "repr_html":
        return (op,), lambda: x._repr_html_()
    if op == "json_str":
        f = rng.choice([str, repr, lambda o: o._repr_html_()])
        def go():
            with json_mode():
                return f(x)
        return (op,), go
    if op == "html":
        i, e = rng.choice([0, 0, 1, 2, 5]), rng.choice(EOLS)
        if isinstance(x, TagList) and rng.random() < 0.4:
            return (op, i, e, False), lambda: x.get_html_string(i, e, add_ws=False)
        return (op, i, e), lambda: x.get_html_string(i, e)
    if op == "deps":
        dd = rng.random() < 0.6
        return (op, dd), lambda: x.get_dependencies(dedup=dd)
    if op == "copy":
        return (op,), lambda: copy.copy(x)
    if op == "deepcopy":
        return (op,), lambda: copy.deepcopy(x)
    if op == "doc":
        lp, iv = rng.choice([None, "lib"]), rng.random() < 0.5
        return (op, lp, iv), lambda: HTMLDocument(x).render(lib_prefix=lp, include_version=iv)
    if op == "doc_attrs":
        return (op,), lambda: HTMLDocument(x, lang="en", class_=HTML("c")).render()
    if op == "doc_kw":
        k, lp, iv = rng.randrange(len(DOC_KWS)), rng.choice(LIB_PREFIXES), rng.random() < 0.5
        def go():
            kw = dict(DOC_KWS[k])
            before = snapshot([kw])
            r = HTMLDocument(x, **kw).render(lib_prefix=lp, include_version=iv)
            return [r["html"], structure(r["dependencies"]), snapshot([kw]) == before]
        return (op, k, lp, iv), go
    if op == "doc_copy":
        # a copy of a document is a document of its own: appending to it does not reach the original
        def go():
            doc = HTMLDocument(x, lang="en")
            first = doc.render()["html"]
            cp = copy.copy(doc)
            same = cp.render()["html"] == first
            cp.append(Tag("mut"), "MUT")
            return [first, same, doc.render()["html"] == first]
        return (op,), go
    if op == "doc_append":
        def go():
            doc = HTMLDocument()
            doc.append(x)
            return doc.render()["html"] == HTMLDocument(x).render()["html"]
        return (op,), go
    if op == "eq":
        return (op,), lambda: [x == x.tagify(), x.tagify() == x, x == copy.copy(x)]
    if op == "hoist":
        # the static helper called on its own: it must copy before inserting head content
        if isinstance(x, Tag) and x.name == "html":
            lp, iv = rng.choice([None, "lib"]), rng.random() < 0.5
            return (op, lp, iv), lambda: HTMLDocument._hoist_head_content(x, lp, iv)
        return (op,), lambda: None
    if op in ("save", "doc_save"):
        ld, iv = rng.choice([None, "lib", "a/b"]), rng.random() < 0.6
        if op == "save":
            return (op, ld, iv), lambda: _saved(lambda d: x.save_html(os.path.join(d, "index.html"), libdir=ld,
                                                                       include_version=iv))
        return (op, ld, iv), lambda: _saved(lambda d: HTMLDocument(x, lang="en").save_html(
            os.path.join(d, "out.html"), libdir=ld, include_version=iv))
    if op in ("textdoc", "textdoc_json"):
        return _text_doc(x, rng, op == "textdoc_json")
    raise ValueError(op)


def canon_result(r):
    """identity-free form of an operation's outcome (for: the same call gives the same result again)"""
    if r[0] != "ok":
        return r
    v = r[1]
    if isinstance(v, dict) and "html" in v and "dependencies" in v:
        return ("ok", [v["html"], structure(v["dependencies"])])
    return ("ok", structure(v))


def _dep_ops(rng):
    lp, iv, ind = rng.choice([None, "", "lib", "x/y"]), rng.random() < 0.5, rng.choice([None, 0, 2, 4])
    def in_json(d):
        with json_mode():
            return str(TagList(Tag("div", d)))
    return [(("as_html_tags", lp, iv), lambda d: d.as_html_tags(lib_prefix=lp, include_version=iv)),
            (("as_html_tags",), lambda d: d.as_html_tags()),
            (("as_dict", lp, iv), lambda d: d.as_dict(lib_prefix=lp, include_version=iv)),
            (("as_dict",), lambda d: d.as_dict()),
            (("source_path_map", lp, iv), lambda d: d.source_path_map(lib_prefix=lp, include_version=iv)),
            (("serialize", ind), lambda d: d.serialize_to_script_json(indent=ind).get_html_string()),
            (("serialize",), lambda d: d.serialize_to_script_json()),
            (("str",), lambda d: str(d)), (("repr",), lambda d: repr(d)),
            (("copy",), lambda d: copy.copy(d)), (("deepcopy",), lambda d: copy.deepcopy(d)),
            (("json_str",), in_json)]


def all_deps(x, acc):
    if isinstance(x, HTMLDependency):
        acc.append(x)
    elif isinstance(x, Tag):
        for c in x.children:
            all_deps(c, acc)
    elif isinstance(x, TagList):
        for c in x:
            all_deps(c, acc)
    return acc


# ---- correspondence with the heap model (coq/Model/Heap.v, HeapOps.v) --------------------------
# A live object graph is encoded as a heap: every Tag, TagAttrDict, TagList, MetadataNode and
# tagifiable object becomes one heap object; its location is its first-visit number in a
# pre-order walk from the roots (tag, then its attribute map, then its child list, then the
# children).  The same walk over a decoded model heap gives the model's canonical form, so two
# canonical forms are equal iff the graphs are isomorphic INCLUDING all sharing between the
# input and every result.  str, HTML and _repr_html_-only objects are values (no identity).
FUEL = 64
DOC_VARIANTS = [({}, "lib", True), ({"lang": "en", "class_": HTML("c")}, "lib", True), ({}, None, False)]
STAMP = "_verif_payload"   # copies made by copy.copy carry the attribute along


def _val_py(c, visit):
    if isinstance(c, str):
        return [0, S(c)]
    if isinstance(c, HTML):
        return [1, S(c.as_string())]
    if isinstance(c, (Tag, TagList, TagAttrDict, MetadataNode, trees.CustomObj)):
        return [3, visit(c)]
    if isinstance(c, trees.ReprObj):
        return [2, S(c.s)]
    raise TypeError(f"cannot encode {type(c).__name__}")


def encode_py(roots):
    """canonical heap of the live graph below roots; returns (heap sx, root locations)"""
    seen: dict[int, int] = {}
    heap: list = []
    keep = []

    def visit(x):
        if id(x) in seen:
            return seen[id(x)]
        n = len(heap)
        seen[id(x)] = n
        keep.append(x)
        heap.append(None)
        if isinstance(x, Tag):
            al = visit(x.attrs)
            kl = visit(x.children)
            heap[n] = [0, S(x.name), 1 if x.add_ws else 0, al, kl]
        elif isinstance(x, TagAttrDict):
            heap[n] = [1, [[S(k), [1 if isinstance(v, HTML) else 0, S(str(v))]] for k, v in x.items()]]
        elif isinstance(x, TagList):
            items = list(x.data)
            heap[n] = [2, None]
            heap[n] = [2, [_val_py(c, visit) for c in items]]
        elif isinstance(x, MetadataNode):
            heap[n] = [3, getattr(x, STAMP)]
        elif isinstance(x, trees.CustomObj):
            sh = x.s if isinstance(x, trees.CustomReprObj) else None
            heap[n] = [4, sx_opt(None if sh is None else S(sh)), [_val_py(c, visit) for c in x.exp]]
        else:
            raise TypeError(f"cannot encode {type(x).__name__}")
        return n

    locs = [visit(r) for r in roots]
    return heap, locs


def canon_model(heap, roots):
    """the same walk over a decoded model heap"""
    seen: dict[int, int] = {}
    out: list = []

    def val(v):
        return [3, visit(v[1])] if v[0] == 3 else v

    def visit(l):
        if l in seen:
            return seen[l]
        n = len(out)
        seen[l] = n
        out.append(None)
        o = heap[l]
        if o[0] == 0:
            al = visit(o[3])
            kl = visit(o[4])
            out[n] = [0, o[1], o[2], al, kl]
        elif o[0] == 1:
            out[n] = o
        elif o[0] == 2:
            out[n] = [2, [val(v) for v in o[1]]]
        elif o[0] == 3:
            out[n] = o
        else:
            out[n] = [4, o[1], [val(v) for v in o[2]]]
        return n

    locs = [visit(r) for r in roots]
    return out, locs


def node_sx(c):
    """an identity-free tree (Codec.v node) of a live child, for the dependency tag table"""
    if isinstance(c, str):
        return [0, S(c)]
    if isinstance(c, HTML):
        return [1, S(c.as_string())]
    if isinstance(c, Tag):
        return [4, S(c.name), 1 if c.add_ws else 0,
                [[S(k), [1 if isinstance(v, HTML) else 0, S(str(v))]] for k, v in c.attrs.items()],
                [node_sx(k) for k in c.children]]
    if isinstance(c, MetadataNode):
        return [3, getattr(c, STAMP, 0)]
    if isinstance(c, trees.ReprObj):
        return [2, S(c.s)]
    raise TypeError(type(c).__name__)


def stamp_graph(roots):
    """give every metadata node reachable from roots (through tags, lists and the children of
    tagifiable objects) a payload: odd for dependencies, even for other metadata nodes"""
    metas, seen = [], set()

    def walk(x):
        if id(x) in seen:
            return
        seen.add(id(x))
        if isinstance(x, MetadataNode):
            metas.append(x)
        elif isinstance(x, Tag):
            walk(x.children)
        elif isinstance(x, TagList):
            for c in x.data:
                walk(c)
        elif isinstance(x, trees.CustomObj):
            for c in x.exp:
                walk(c)
    for r in roots:
        walk(r)
    for i, m in enumerate(metas):
        setattr(m, STAMP, 2 * i + 1 if isinstance(m, HTMLDependency) else 2 * i + 2)
    return metas


def dep_table(metas):
    """what C08 does not model, as data for the driver: name, version, and the tags each
    dependency contributes to <head> under every document variant.  None if a dependency
    cannot produce its tags (then document operations are left out for this graph)."""
    tbl = []
    for m in metas:
        if not isinstance(m, HTMLDependency):
            continue
        ver = str(m.version)
        try:
            nums = [int(p) for p in ver.split(".")]
        except ValueError:
            return None
        per_k = []
        for _, lib_prefix, incl in DOC_VARIANTS:
            r = safe_call(lambda: m.as_html_tags(lib_prefix=lib_prefix, include_version=incl))
            if r[0] != "ok":
                return None
            try:
                per_k.append([node_sx(c) for c in r[1]])
            except TypeError:
                return None
        tbl.append([getattr(m, STAMP), S(m.name), nums, S(ver), per_k])
    return tbl


def kw_sx():
    return [[[S(k), [1 if isinstance(v, HTML) else 0, S(str(v))]] for k, v in kw.items()] for kw, _, _ in DOC_VARIANTS]


CORR_OPS = ["tagify", "render", "html", "deps", "copy", "doc", "hoist"]


def corr_apply(op, target):
    """run one operation of the correspondence on the implementation -> (canonical result, new root or None)"""
    kind = op[0]
    if kind == "tagify":
        r = safe_call(lambda: target.tagify())
        return (("loc",), r[1]) if r[0] == "ok" else (r, None)
    if kind == "copy":
        r = safe_call(lambda: copy.copy(target))
        return (("loc",), r[1]) if r[0] == "ok" else (r, None)
    if kind == "render":
        r = safe_call(lambda: target.render())
        if r[0] != "ok":
            return r, None
        return ("render", ("ok", r[1]["html"]), [getattr(d, STAMP) for d in r[1]["dependencies"]]), None
    if kind == "html":
        return ("str", safe_call(lambda: target.get_html_string(op[1], op[2]))), None
    if kind == "deps":
        r = safe_call(lambda: target.get_dependencies())
        return (("deps", [getattr(d, STAMP) for d in r[1]]) if r[0] == "ok" else r), None
    if kind == "doc":
        kw, lib_prefix, incl = DOC_VARIANTS[op[1]]
        r = safe_call(lambda: HTMLDocument(target, **kw).render(lib_prefix=lib_prefix, include_version=incl))
        if r[0] != "ok":
            return r, None
        return ("render", ("ok", r[1]["html"]), [getattr(d, STAMP) for d in r[1]["dependencies"]]), None
    if kind == "hoist":
        _, lib_prefix, incl = DOC_VARIANTS[op[1]]
        r = safe_call(lambda: HTMLDocument._hoist_head_content(target, lib_prefix, incl))
        return (("loc",), r[1]) if r[0] == "ok" else (r, None)
    raise ValueError(op)


def op_sx(op, loc):
    kind = op[0]
    if kind == "tagify":
        return [0, loc]
    if kind == "render":
        return [1, loc]
    if kind == "html":
        return [2, loc, op[1], S(op[2])]
    if kind == "deps":
        return [3, loc]
    if kind == "copy":
        return [4, loc]
    if kind == "hoist":
        return [6, loc, op[1]]
    return [5, loc, op[1]]


def model_result(r):
    if r[0] == 0:
        return ("loc",), r[1]
    if r[0] == 1:
        return ("str", trees.res_decode(r[1], unS)), None
    if r[0] == 2:
        return ("deps", r[1]), None
    return ("render", trees.res_decode(r[1], unS), r[2]), None


def build_graph(d, shared_desc):
    shared = []
    for sd in shared_desc:          # a shared object may refer to the ones before it
        shared.append(build_x(sd, shared))
    x = build_x(d, shared)
    return x, shared


def corr_case(rng, d, shared_desc, with_doc=True, ops=None):
    """one correspondence case: build the graph, choose receivers and operations; returns what
    is needed to run the implementation and the model"""
    x, shared = build_graph(d, shared_desc)
    roots = [x] + [o for o in shared if isinstance(o, (Tag, TagList, MetadataNode, trees.CustomObj))]
    metas = stamp_graph(roots)
    tbl = dep_table(metas)
    heap0, rlocs = encode_py(roots)
    # receivers: any tag or child list of the graph (the root most often)
    recv = [i for i, o in enumerate(heap0) if o[0] in (0, 2)]
    # location -> live object, by the same walk
    live = _live_objects(roots)
    n_ops = 0 if ops is not None else rng.choice([1, 2, 3, 5])
    ops = [(tuple(o), l) for o, l in ops] if ops is not None else []
    html_tags = [i for i, o in enumerate(heap0) if o[0] == 0 and unS(o[1]) == "html"]
    for _ in range(n_ops):
        kind = rng.choice(CORR_OPS if (with_doc and tbl is not None) else CORR_OPS[:-2])
        loc = rlocs[0] if rng.random() < 0.6 else rng.choice(recv)
        if kind == "hoist":
            if not html_tags:
                kind = "copy"
            else:
                loc = rng.choice(html_tags)
                ops.append((("hoist", rng.randrange(0, len(DOC_VARIANTS))), loc))
                continue
        if kind == "html":
            ops.append((("html", rng.randrange(0, 3), rng.choice(["\n", "", "\r\n"])), loc))
        elif kind == "doc":
            ops.append((("doc", rng.randrange(0, len(DOC_VARIANTS))), loc))
        else:
            ops.append(((kind,), loc))
    return {"desc": d, "shared": shared_desc, "ops": ops, "roots": roots, "heap0": heap0, "rlocs": rlocs,
            "live": live, "tbl": tbl if tbl is not None else []}


def _live_objects(roots):
    """location -> live object, numbering exactly as encode_py does"""
    seen, order = {}, []

    def visit(x):
        if id(x) in seen:
            return
        seen[id(x)] = len(order)
        order.append(x)
        if isinstance(x, Tag):
            visit(x.attrs)
            visit(x.children)
        elif isinstance(x, TagList):
            for c in list(x.data):
                if isinstance(c, (Tag, TagList, TagAttrDict, MetadataNode, trees.CustomObj)):
                    visit(c)
        elif isinstance(x, trees.CustomObj):
            for c in x.exp:
                if isinstance(c, (Tag, TagList, TagAttrDict, MetadataNode, trees.CustomObj)):
                    visit(c)
    for r in roots:
        visit(r)
    return order


def corr_run_impl(case):
    """run the operations on the live graph; canonical outcome = per-operation results + the
    canonical heap of [input roots..., result roots...] afterwards"""
    results, new_roots = [], []
    for op, loc in case["ops"]:
        res, root = corr_apply(op, case["live"][loc])
        results.append(res)
        if root is not None:
            new_roots.append(root)
    try:
        heap1, locs1 = encode_py(case["roots"] + new_roots)
    except (TypeError, AttributeError) as e:
        return {"results": results, "error": f"{type(e).__name__}: {e}"}
    return {"results": results, "heap": heap1, "roots": locs1}


def corr_model_case(case):
    return [1, FUEL, case["heap0"], [op_sx(op, loc) for op, loc in case["ops"]], kw_sx(), case["tbl"]]


def corr_decode(case, m):
    if isinstance(m, tuple) or m == [999999, 999999]:
        return {"error": f"driver: {m}"}
    if m[0] == 1:
        return {"error": "model: None (out of fuel or ill-formed heap)"}
    heap, rs = m[1], m[2]
    results, new_roots = [], []
    for r in rs:
        res, root = model_result(r)
        results.append(res)
        if root is not None:
            new_roots.append(root)
    out = {"results": results, "prefix_unchanged": heap[:len(case["heap0"])] == case["heap0"]}
    out["heap"], out["roots"] = canon_model(heap, case["rlocs"] + new_roots)
    return out


def correspondence(ctx, name, cases):
    outs = run_model([corr_model_case(c) for c in cases], driver="c08")
    bad = []
    for c, m in zip(cases, outs):
        iv = corr_run_impl(c)
        mv = corr_decode(c, m)
        case_id = {"tree": c["desc"], "shared": c["shared"], "ops": [[list(op), loc] for op, loc in c["ops"]]}
        ok = ("error" not in iv and "error" not in mv and mv.get("prefix_unchanged")
              and iv["results"] == mv["results"] and iv["heap"] == mv["heap"] and iv["roots"] == mv["roots"])
        if not ok:
            bad.append({"case": case_id, "impl_output": _brief(iv), "model_output": _brief(mv)})
    ctx.corr_cases += len(cases)
    ctx.obligation(f"correspondence {name} ({len(cases)} cases)", not bad)
    if bad:
        bad.sort(key=lambda b: len(json.dumps(b["case"], default=repr)))
        ctx.extra[f"disagree_{name}"] = bad[:3]
    return bad


def _brief(v):
    d = dict(v)
    if "heap" in d and "error" not in d:
        d["heap"] = d["heap"][:60]
    return d


def canonical_dep_payload(kw, table):
    key = json.dumps(kw, sort_keys=True, default=repr)
    if key not in table:
        table[key] = 2 * len(table) + 1
    return table[key]


SHARED_DESC = [("G", "em", False, [("class", ("S", "s"))], [("T", "shared")]),
               ("M", {"name": "shared", "version": "1.0", "head": "<link>"}),
               ("H", "<raw>"),
               ("C", None, [("S", 0), ("T", "c"), ("S", 1)], True),
               ("M", None)]


def rand_graph(rng, depth, root, custom):
    """a description with aliasing: ('S', i) children refer to the shared objects (a tag, a
    dependency, an HTML value, a tagifiable object whose expansion holds the shared tag and the
    shared dependency, a plain metadata node)"""
    d = rand_tree(rng, depth, root, custom)

    def plain_heads(x):
        # dependency internals are outside the model: a head payload made of Tag objects would
        # be shared between the <head> of two documents built from the same dependency (F8's
        # territory); the correspondence graphs use text payloads
        if x[0] == "G":
            return ("G", x[1], x[2], x[3], [plain_heads(k) for k in x[4]])
        if x[0] == "C":
            return ("C", x[1], [plain_heads(k) for k in x[2]], x[3])
        if x[0] == "M" and x[1] is not None and isinstance(x[1].get("head"), tuple):
            return ("M", {**x[1], "head": "<title>t</title>"})
        return x
    d = plain_heads(d)

    def alias(x, top=False, in_obj=False):
        if not top and rng.random() < 0.18:
            # (an object's expansion holds no further object: the tagify() contract)
            return ("S", rng.choice([0, 1, 2, 4]) if in_obj else rng.randrange(0, len(SHARED_DESC)))
        if x[0] == "G":
            kids = [alias(k, False, in_obj) for k in x[4]]
            if rng.random() < 0.15:
                kids.insert(rng.randrange(0, len(kids) + 1),
                            ("S", rng.choice([0, 1, 2, 4]) if in_obj else rng.randrange(0, len(SHARED_DESC))))
            return ("G", x[1], x[2], x[3], kids)
        if x[0] == "C":
            return ("C", x[1], [alias(k, False, True) for k in x[2]], x[3])
        return x
    d = alias(d, True)
    if root == "html" and rng.random() < 0.5:
        kids = list(d[4])
        kids.insert(rng.randrange(0, len(kids) + 1),
                    ("G", "head", True, [], [("G", "title", True, [], [("T", "t")])]))
        d = ("G", d[1], d[2], d[3], kids)
    return d


def desc_from_json(d):
    k = d[0]
    if k == "G":
        return ("G", d[1], d[2], [(a[0], (a[1][0], a[1][1])) for a in d[3]], [desc_from_json(x) for x in d[4]])
    if k == "C":
        return ("C", d[1], [desc_from_json(x) for x in d[2]], d[3])
    if k == "M":
        if d[1] is None:
            return ("M", None)
        kw = dict(d[1])
        if isinstance(kw.get("head"), list):
            kw["head"] = desc_from_json(kw["head"])
        return ("M", kw)
    return tuple(d)


def small_graphs():
    """bounded-exhaustive scope for the thorough tier: every tree with up to two children drawn
    from a 7-leaf alphabet (with the shared objects), under three roots, every single operation"""
    leaves = [("T", "a<"), ("H", "<b>"), ("S", 0), ("S", 1), ("S", 3), ("S", 4),
              ("G", "head", True, [], [("S", 0)]), ("C", "r", [("S", 0)], True)]
    for root in ["div", "html", "body"]:
        for a in leaves:
            yield ("G", root, True, [("id", ("S", "x"))], [a])
            for b in leaves:
                yield ("G", root, root != "div", [], [a, ("G", "p", True, [], [b, a])])


def eq_variant(d, rng):
    """(what, variant): a description that must compare equal (what=None) or unequal"""
    k = rng.randrange(0, 8)
    if k == 0:
        return None, d
    if k == 1 and d[0] == "G":      # same attributes, another insertion order
        a = list(d[3])
        rng.shuffle(a)
        return None, ("G", d[1], d[2], a, d[4])
    if k == 2 and d[0] == "G":      # str <-> HTML with the same text, in children and attribute values
        def flip(x):
            if x[0] == "T" and rng.random() < 0.5:
                return ("H", x[1])
            if x[0] == "H" and rng.random() < 0.5:
                return ("T", x[1])
            if x[0] == "G":
                return ("G", x[1], x[2], [(key, ("H" if m == "S" else "S", v)) if rng.random() < 0.5 else (key, (m, v))
                                          for key, (m, v) in x[3]], [flip(c) for c in x[4]])
            return x
        return None, flip(d)
    if k == 3 and d[0] == "G" and d[4]:   # a change deep in the tree
        i = rng.randrange(0, len(d[4]))
        sub = eq_variant(d[4][i], rng)
        return sub[0], ("G", d[1], d[2], d[3], d[4][:i] + [sub[1]] + d[4][i + 1:])
    if k == 4 and d[0] in "TH":
        return "a child's text", (d[0], d[1] + "!")
    m = _perturb(d, rng)
    if m is not None:
        return m
    return None, d


def sub_rng(ctx, label):
    """a generator of its own for one labelled case: a function of the run's seed and the label only (so the
    case is the same in a --replay run, where the random streams before it are shorter)"""
    return random.Random(int(hashlib.sha1(f"{ctx.seed}:{label}".encode()).hexdigest()[:12], 16))


def make_live(d, head_at=None):
    """(live object, the other caller-side objects: the shared ones and whatever the construction used)"""
    shared = [Tag("em", "shared"), HTMLDependency("shared", "1.0", head="<link>"), HTML("<raw>")]
    ex: list = []
    x = build_x(d, shared, ex)
    if head_at is not None and isinstance(x, Tag):
        x.children.insert(min(head_at, len(x.children)), Tag("head", Tag("title", "t")))
    return x, shared + ex


WHAT_EQ_FALSE = "== is false for structurally identical tags"
WHAT_NOEXP = "tagify() of a tree without tagifiable objects does not equal the original"


def live_battery(ctx, rng, x, others, case, ops, custom, bare, routes=False, tail=False, mutate=True):
    """The property's clauses on one live object (a Tag or a TagList) and the caller-side objects around it:
    every read-only operation leaves the whole graph unchanged and gives the same result when repeated;
    tagify() equals the original when nothing expands, is a fixed point, shares nothing, and (mutate) stays
    independent under mutation of either side; copy.copy equals and owns its fields; the string forms agree."""
    is_tag = isinstance(x, Tag)
    before = snapshot([x, others])
    results, memo = {}, {}
    for op in ops:
        # the receiver is the tag or (one time in four) its child list, a TagList
        recv = x.children if (is_tag and rng.random() < 0.25) else x
        key, thunk = pick_op(op, recv, rng)
        r = safe_call(thunk)
        after = snapshot([x, others])
        if after != before:
            ctx.violation(f"{op} changed an object reachable from its receiver", {**case, "op": op, "args": list(key[1:])},
                          {"before": _first_diff(before, after)})
            before = after
        # the same call again: the same result (the canonical form of a first result is computed when a second
        # one arrives -- results are fresh objects nobody touches, except copies, which _check_copy mutates)
        mkey = (recv is x, key)
        if mkey not in memo:
            memo[mkey] = ["canon", canon_result(r)] if op == "copy" else ["raw", r]
        else:
            if memo[mkey][0] == "raw":
                memo[mkey] = ["canon", canon_result(memo[mkey][1])]
            first, cr = memo[mkey][1], canon_result(r)
            if first != cr:
                ctx.violation("a read-only call gives a different result when it is repeated (other read-only calls in between)",
                              {**case, "op": op, "args": list(key[1:])},
                              {"first": _first_diff(first, cr) if first[0] == cr[0] else [str(first)[:200], str(cr)[:200]]})
        if r[0] == "ok" and op == "doc_kw" and r[1][2] is not True:
            ctx.violation("HTMLDocument(x, **kwargs).render() changed a keyword argument object", {**case, "op": op}, {})
        if r[0] == "ok" and op == "doc_copy" and not (r[1][1] and r[1][2]):
            ctx.violation("copy.copy(document) renders differently, or appending to the copy changed the original document",
                          {**case, "op": op}, {"copy renders the same": r[1][1], "original the same after appending to the copy": r[1][2]})
        if r[0] == "ok" and op in ("textdoc", "textdoc_json") and not all(v is True for v in r[1][2:]):
            ctx.violation("HTMLTextDocument.render() changed its document / dependencies or gives another result the second time",
                          {**case, "op": op, "args": list(key[1:])}, {"same html, same dependencies, document unchanged": r[1][2:]})
        if op == "copy" and r[0] == "ok":
            _check_copy(ctx, recv, r[1], case, rng, lambda: snapshot([x, others]), bare or custom)
        if op == "tagify" and r[0] == "ok" and recv is not x:
            common = set(mutable_ids(recv)) & set(mutable_ids(r[1]))
            if common:
                ctx.violation("tagify() result shares a tag, child list, attribute map or metadata node object with the original",
                              {**case, "receiver": "child list"}, {})
        if op in ("str", "repr", "render", "repr_html") and r[0] == "ok":
            v = r[1]["html"] if op == "render" else r[1]
            key = "s" if recv is x else "l"
            results.setdefault(key, v)
            if results[key] != v:
                ctx.violation("str(x), repr(x), x.render()['html'] differ or change between calls",
                              case, {"first": results[key][:2000], "now": v[:2000]})
    # dependency methods are read-only too
    deps_in = all_deps(x, [])
    for dep in (deps_in[:2] + deps_in[-2:] if len(deps_in) > 4 else deps_in[:3]):
        key, f = rng.choice(_dep_ops(rng))
        safe_call(lambda: f(dep))
        after = snapshot([x, others])
        if after != before:
            ctx.violation("an HTMLDependency as_html_tags/as_dict/source_path_map/serialize call changed an object",
                          {**case, "call": list(key)}, {"before": _first_diff(before, after)})
            before = after
    if routes:
        forms = [safe_call(lambda: str(x)), safe_call(lambda: repr(x)), safe_call(lambda: x._repr_html_()),
                 safe_call(lambda: x.render()["html"])]
        if any(f != forms[0] for f in forms):
            ctx.violation("str(x), repr(x), x._repr_html_() and x.render()['html'] are not the same string", case,
                          {"forms": [str(f)[:1500] for f in forms]})
        if not custom:     # (an un-expanded object that also renders itself shows its own markup on the direct route)
            msg = trees.routes_disagree(x)
            if msg is not None and forms[0][0] == "ok":
                ctx.violation("the ways of getting the markup of one tree disagree", case, {"what": msg[:3000]})
    # ---- copy.copy: equal to the original -------------------------------------------------
    if routes or rng.random() < 0.3:
        r = safe_call(lambda: copy.copy(x))
        if r[0] == "ok":
            _check_copy(ctx, x, r[1], case, rng, lambda: snapshot([x, others]), bare or custom, mutate=False)
    # ---- tagify: equal when nothing expands, fixed point, independent ------------------
    r = safe_call(lambda: x.tagify())
    if r[0] != "ok":
        return
    y = r[1]
    if not custom and (structure(x) != structure(y) or (not bare and not (x == y and y == x))):
        ctx.violation(WHAT_NOEXP, case, {"same structure": structure(x) == structure(y),
                                         "x == x.tagify()": safe_call(lambda: x == y), "x.tagify() == x": safe_call(lambda: y == x)})
    z = y.tagify()
    if structure(z) != structure(y) or str(z) != str(y) or (not bare and not (z == y and y == z)):
        ctx.violation("tagify() is not a fixed point of tagify()", case, {})
    a, b = mutable_ids(x), mutable_ids(y)
    common = set(a) & set(b)
    if common:
        ctx.violation("tagify() result shares a tag, child list, attribute map or metadata node object with the original",
                      case, {"shared": sorted({a[i] for i in common})})
    # dependency internals
    for dx, dy in zip(all_deps(x, []), all_deps(y, [])):
        if (dx.head is not None and dx.head is dy.head) or (dx.script and dx.script is dy.script):
            ctx.violation(WHAT_DEP_SHARE, case, {"dep": dx.name})
            break
    if mutate:
        _mutation_part(ctx, rng, x, others, case, custom, bare, tail)


def guarded(ctx, case, f):
    """An exception that escapes here comes from an implementation call made outside safe_call: building a
    valid tree, ==, tagify() of a tagify() result, str() of it, a public mutation.  None of them raises in
    a library that has the property; if one does, that is reported with the input (never a harness crash)."""
    from ..common import ImplTimeout
    try:
        f()
    except ImplTimeout:
        ctx.violation("an operation on a valid tree did not terminate", case, {})
    except Exception as e:
        import traceback
        tb = [f"{os.path.basename(fr.filename)}:{fr.lineno} {fr.name}" for fr in traceback.extract_tb(e.__traceback__)][-6:]
        ctx.violation(f"an operation of the property on a valid tree raised {type(e).__name__}", case, {"where": tb})


def battery(ctx, rng, d, ops, label=None, head_at=None, routes=False, tail=False):
    case = {"tree": abbrev(d), "ops": ops}
    if label:
        case["case"] = label
    guarded(ctx, case, lambda: _battery(ctx, rng, d, ops, label, head_at, routes, tail))


def _battery(ctx, rng, d, ops, label=None, head_at=None, routes=False, tail=False):
    kinds = kinds_x(d)
    custom = bool(kinds & {"C", "J"})
    bare = "M0" in kinds
    case = {"tree": abbrev(d), "ops": ops, "kinds": "".join(sorted(k[0] for k in kinds))}
    if label:
        case["case"] = label
    if head_at is not None:
        case["head inserted at"] = head_at
    ctx.count(("pure", label, ops) if label else ("pure", d, ops), bool(kinds & {"M", "C", "J", "W", "A", "S"}) or label is not None,
              ("sizes / features: " + label.split("/")[0]) if label else "interleaving of read-only operations")
    x, others = make_live(d, head_at)
    # twins: an identically built object is equal, before and after the read-only operations
    # (left out: harness objects and bare metadata nodes, which compare by identity; and trees in which a
    # with-block was entered inside another one -- the inner tag keeps the enclosing block's displayhook wrapper
    # in its public prev_displayhook field, a closure made afresh by every __enter__, so two such trees built
    # by the same statements are != in the unchanged library: reported as an observation about /repo, see the
    # final report of round 5; copies of such trees ARE compared with their originals)
    twin_ok = not custom and not bare and "R" not in kinds and not nested_with(d)
    x2 = None
    if twin_ok and (label is not None or rng.random() < 0.3):
        x2, _ = make_live(d, head_at)
        if not (x == x2 and x2 == x):
            ctx.violation(WHAT_EQ_FALSE, case, {"x == twin": safe_call(lambda: x == x2), "twin == x": safe_call(lambda: x2 == x)})
            x2 = None
    live_battery(ctx, rng, x, others, case, ops, custom, bare, routes, tail, mutate=False)
    if x2 is not None:
        if not (x == x2 and x2 == x):
            ctx.violation("after read-only operations an object no longer equals an identically built one", case, {})
        if tail:
            for what, dv in tail_variants(d):
                xv, _ = make_live(dv, head_at)
                if x == xv or xv == x:
                    ctx.violation(f"== is true for tags that differ in {what}", {**case, "other": abbrev(dv)}, {})
    # independence under mutation, on a fresh pair (the mutations change x)
    _mutation_part(ctx, rng, x, others, case, custom, bare, tail)


def _mutation_part(ctx, rng, x, others, case, custom, bare, tail):
    r = safe_call(lambda: x.tagify())
    if r[0] != "ok":
        return
    y = r[1]
    before = snapshot([x, others])
    _mutate(y, rng, tail)
    if snapshot([x, others]) != before:
        ctx.violation("mutating the tagify() copy through the public API changed the original", case,
                      {"before": _first_diff(before, snapshot([x, others]))})
    y2 = x.tagify()
    before2 = snapshot([y2])
    _mutate(x, rng, tail)
    if snapshot([y2]) != before2:
        ctx.violation("mutating the original through the public API changed an earlier tagify() copy", case,
                      {"before": _first_diff(before2, snapshot([y2]))})


def tail_variants(d):
    """descriptions that differ from d only at the far end: in the LAST child of the widest / deepest
    place (its text, one more child after it, one child fewer)"""
    out = []

    def last_path(x):
        ks = kids_of(x)
        if x[0] in "GWAQ" and ks:
            return [x] + last_path(ks[-1])
        return [x]

    def rebuild(path, new_last):
        cur = new_last
        for node in reversed(path[:-1]):
            ks = kids_of(node)[:-1] + ([cur] if cur is not None else [])
            if node[0] in "GW":
                cur = (node[0], node[1], node[2], node[3], ks)
            elif node[0] == "A":
                cur = node[:5] + (ks,)
            else:
                cur = ("Q", ks)
        return cur
    path = last_path(d)
    if len(path) < 2:
        return out
    leaf = path[-1]
    if leaf[0] in "TH":
        out.append(("a child's text", rebuild(path, (leaf[0], leaf[1] + "!"))))
    if leaf[0] in "GWA":
        nm = 2 if leaf[0] == "A" else 1
        out.append(("tag name", rebuild(path, leaf[:nm] + (leaf[nm] + "q",) + leaf[nm + 1:])))
        out.append(("whitespace flag", rebuild(path, leaf[:nm + 1] + (not leaf[nm + 1],) + leaf[nm + 2:])))
    out.append(("the structure of the children", rebuild(path, None)))
    parent = path[-2]
    ks = kids_of(parent) + [("T", "extra")]
    grown = (parent[0], parent[1], parent[2], parent[3], ks) if parent[0] in "GW" else \
        parent[:5] + (ks,) if parent[0] == "A" else ("Q", ks)
    out.append(("the structure of the children", rebuild(path[:-1], grown) if len(path) > 2 else grown))
    # the LAST attribute of the root: its value
    if d[0] in "GW" and d[3]:
        k0, (m0, v0) = d[3][-1]
        out.append(("an attribute value", (d[0], d[1], d[2], list(d[3][:-1]) + [(k0, (m0, v0 + "!"))], d[4])))
        out.append(("the set of attributes", (d[0], d[1], d[2], list(d[3][:-1]), d[4])))
    return out


# ---- sizes and depths -----------------------------------------------------------------------
SIZES = [7, 8, 9, 15, 16, 17, 31, 32, 33, 63, 64, 65, 127, 128, 129, 255, 256, 257, 300]
DEPTHS = [7, 8, 9, 15, 16, 17, 31, 32, 33, 63, 64, 65, 70]
CHEAP_OPS = [o for o in OPS if o not in ("save", "doc_save", "textdoc", "textdoc_json", "deepcopy")]


def sizes_for(ctx, dim, depths=False):
    """quick: both sides of two thresholds (drawn per seed and dimension) and always 255, 256, 257, 300
    (depths: 63, 64, 65, 70); thorough: all of them"""
    if not ctx.quick:
        return DEPTHS if depths else SIZES
    r = sub_rng(ctx, "sizes:" + dim)
    picks = {63, 64, 65, 70} if depths else {255, 256, 257, 300}
    for t in r.sample([8, 16, 32] if depths else [8, 16, 32, 64, 128], 1 if depths else 2):
        picks |= {t - 1, t, t + 1}
    return sorted(picks)


def long_text(n, salt=""):
    """n characters; the interesting ones (markup, quotes, an ampersand, a non-ASCII letter) sit at the very end"""
    tail = f" & <b x=\"1\" y='2'>é{salt}</b>"
    unit = "plain words, line one\nline two; "
    body = (unit * (n // len(unit) + 1))[:max(0, n - len(tail))]
    return body + tail


def rich_dep(i, source=None, n_items=1):
    kw = {"name": f"d{i}", "version": f"1.{i}",
          "source": source if source is not None else {"href": f"https://cdn.x/d{i}"},
          "script": [{"src": f"f{j}.js"} for j in range(n_items)] if n_items != 1 else {"src": "a.js"}}
    if n_items != 1:
        kw["stylesheet"] = [{"href": f"s{j}.css"} for j in range(n_items)]
        kw["meta"] = [{"name": f"m{j}", "content": f"c{j}<"} for j in range(n_items)]
    return kw


def _kid(i):
    k = i % 4
    if k == 0:
        return ("T", f"item {i} <&>")
    if k == 1:
        return ("G", "span", False, [("id", ("S", f"c{i}"))], [("T", f"cell {i}")])
    if k == 2:
        return ("H", f"<i>{i}</i>")
    return ("G", "p", True, [("class", ("H", f"k{i}"))], [("T", "a"), ("G", "br", False, [], [])])


PKG_NONE = {"package": None, "subdir": ASSETS_TOKEN}


def sized_cases(ctx):
    """a handful of big inputs per countable thing, the interesting content beyond the threshold"""
    out = []
    turn = [0]

    def add(label, d, n_ops=2, pool=CHEAP_OPS, must=(), n=None, of=1):
        # quick tier: beyond the largest threshold (257, 300, depth 65, 70) every variant of a dimension,
        # at the other sizes the variants take turns
        turn[0] += 1
        if ctx.quick and n is not None and n not in (257, 300, 65, 70) and (turn[0] + n) % of:
            return
        r = sub_rng(ctx, "ops:" + label)
        out.append((label, d, list(must) + [r.choice(pool) for _ in range(n_ops)]))

    def add_n(n, of):
        return lambda label, d, **kw: add(label, d, n=n, of=of, **kw)

    for n in sizes_for(ctx, "children"):
        add_n(n, 3)(f"children of one tag, text only/{n}", ("G", "div", True, [], [("T", f"item {i}") for i in range(n)]))
        # ... mixed, the last child a dependency written with an explicit null package
        kids = [_kid(i) for i in range(n - 1)] + [("M", rich_dep(n, PKG_NONE))]
        add_n(n, 3)(f"children of one tag, mixed, a dependency last/{n}", ("G", "div", True, [("id", ("S", "w"))], kids), must=["json_str"])
        add_n(n, 3)(f"items of a top-level list/{n}", ("Q", [_kid(i + 1) for i in range(n - 1)] + [("T", "last")], ["ctor", "add", "radd", "iadd"][n % 4]))
    for n in sizes_for(ctx, "nested"):
        add_n(n, 3)(f"a wide list three levels down/{n}",
            ("G", "div", True, [], [("G", "section", True, [], [("G", "ul", True, [], [_kid(i) for i in range(n)])]), ("T", "tail")]))
        # ... the last child needs expansion (two items spliced in at the far end)
        kids = [_kid(i) for i in range(n - 1)] + [("C", None, [("G", "b", False, [], [("T", "x")]), ("M", rich_dep(n))], True)]
        add_n(n, 3)(f"children of one tag, a tagifiable object last/{n}", ("G", "div", True, [], kids))
        add_n(n, 3)(f"children added in a with-block/{n}", ("W", "div", True, [("id", ("S", "w"))], [_kid(i) for i in range(n)]))
    for n in sizes_for(ctx, "attrs"):
        attrs = [(f"data-k{i}", ("H" if i == n - 1 else "S", f"v{i}&")) for i in range(n)]
        add_n(n, 4)(f"attributes of one tag/{n}", ("G", "div", True, attrs, [("T", "x")]))
        add_n(n, 4)(f"attribute dicts given to the constructor/{n}", ("A", "dicts", "div", True, attrs, [("T", "x")]))
        add_n(n, 4)(f"values merged into one attribute/{n}",
            ("A", "dicts", "div", True, [("class", ("H" if i == n - 1 else "S", f"t{i}")) for i in range(n)], [("T", "x")]))
        add_n(n, 4)(f"props of one component/{n}",
                    ("G", "div", True, [], [("J", "Foo", [[f"p{i}", {"v": i} if i == n - 1 else i] for i in range(n)],
                                             [("T", "c"), ("M", rich_dep(3, PKG_NONE))])]), must=["json_str"])
        add_n(n, 4)(f"class tokens added one by one/{n}",
            ("A", "helpers", "div", True, [("class", ("S", f"t{i}")) for i in range(n)] + [("style", ("H", "color:red;"))], []))
    for n in sizes_for(ctx, "deps"):
        # n different dependencies, then a family of versions of one name; the last of each written differently
        kids = [("M", rich_dep(i)) for i in range(n - 1)] + [("M", rich_dep(n - 1, PKG_NONE))]
        add_n(n, 3)(f"dependencies in one tree/{n}", ("G", "div", True, [], [("G", "p", True, [], kids[:n // 2]), ("T", "x")] + kids[n // 2:]),
            must=["deps", "doc_kw", "json_str"], pool=CHEAP_OPS + ["textdoc", "textdoc_json"])
        fam = [("M", {**rich_dep(0), "version": f"1.{i}"}) for i in range(n - 1)] + \
              [("M", {**rich_dep(0, PKG_NONE), "version": f"1.{n}", "head": "<meta name='last'>"})]
        add_n(n, 3)(f"versions of one dependency/{n}", ("G", "body", True, [], fam + [("T", "x")]), must=["deps", "doc", "json_str"])
        add_n(n, 3)(f"script, stylesheet and meta items of one dependency/{n}",
            ("G", "div", True, [], [("T", "x"), ("M", rich_dep(0, None, n))]), must=["doc_kw", "json_str"])
    for n in sizes_for(ctx, "depth", depths=True):
        bottom = ("W", "p", True, [("id", ("S", "deep"))], [("T", "bottom <&>"), ("M", rich_dep(n, PKG_NONE))])
        t = bottom
        for i in range(n - 1):
            t = ("G", ["div", "section", "span", "ul"][i % 4], i % 4 != 2, [("class", ("S", f"l{i}"))] if i % 5 == 0 else [],
                 [t] if i % 3 else [("T", "x"), t])
        add_n(n, 3)(f"nesting depth of tags/{n}", t, must=["json_str"])
        add_n(n, 3)(f"nesting depth of lists, tuples and TagLists given as children/{n}",
            ("G", "div", True, [], [("T", "first"), ("L", n, [("G", "b", False, [], [("T", "deep")]), ("M", rich_dep(1)), ("T", "last")])]))
        prop = {"leaf": "v", "n": [1, 2.5, None, True]}
        for i in range(n):
            prop = {"k": prop} if i % 2 else [i, prop]
        add_n(n, 3)(f"nesting depth of component props/{n}",
            ("G", "div", True, [], [("J", "Foo", [["deep", prop], ["s", "x"]], [("G", "b", False, [], []), ("M", rich_dep(2))])]))
    for n in sizes_for(ctx, "history"):
        d = ("G", "html", True, [], [("G", "body", True, [], [("W", "div", True, [], [("T", "a<"), ("M", rich_dep(0, PKG_NONE))]),
                                                             ("S", 1), ("G", "p", True, [("class", ("H", "c"))], [("S", 0), ("H", "<raw>")])])])
        add(f"operations in one history/{n}", d, n_ops=n, pool=CHEAP_OPS * 6 + OPS)
    for n in ([300, 5000, 70000] if ctx.quick else [299, 300, 301, 4999, 5000, 5001, 65535, 65536, 65537, 70000, 300000]):
        s = long_text(n)
        d = ("G", "div", True, [("title", ("S", long_text(n, "a"))), ("class", ("H", long_text(n, "c")))],
             [("T", s), ("H", long_text(n, "h")), ("G", "script", True, [], [("T", long_text(n, "s"))]),
              ("M", {"name": "long", "version": "1.0", "head": long_text(n, "d"), "source": PKG_NONE,
                     "script": {"src": "a.js", "data-x": long_text(n, "j")}}),
              ("G", "p", True, [], [("T", "x"), ("T", long_text(n, "t"))])])
        add(f"strings of a given length/{n}", d, n_ops=4, pool=CHEAP_OPS + ["textdoc_json", "save"], must=["json_str", "html"])
    # files: a dependency that copies a directory holding a file of 300007 bytes
    for i, src in enumerate([{"subdir": ASSETS_TOKEN}, PKG_NONE]):
        d = ("G", "div", True, [], [("M", {"name": "files", "version": "2.0", "source": src, "all_files": True,
                                           "script": [{"src": "a.js"}, {"src": "sub/c.js"}], "stylesheet": {"href": "s.css"}}),
                                    ("T", "x")])
        add(f"files to copy/{i}", d, n_ops=0, must=["save", "doc_save", "save", "doc_save"])
    return out


def feature_cases(ctx):
    """two features together"""
    dep = {"name": "inner", "version": "3.1", "source": PKG_NONE, "script": {"src": "a.js"},
           "head": ("G", "meta", False, [("name", ("S", "inner"))], [])}
    comp = ("J", "Foo", [["n", 1], ["o", {"a": [1, {"b": None}]}], ["t", "x<"]],
            [("G", "b", False, [("class", ("S", "k"))], [("T", "bold")]), ("M", dict(dep)), ("T", "t&")])
    both = ("C", "<self-rendered>", [("G", "i", False, [], [("T", "from tagify")]), ("M", rich_dep(5))], True)
    items = [
        ("dependencies inside head_content inside a document with its own html, head and body",
         ("G", "html", True, [("lang", ("S", "de"))],
          [("G", "head", True, [], [("G", "title", True, [], [("T", "t")])]),
           ("G", "body", True, [("class", ("S", "b"))],
            [("G", "div", True, [], [("M", {"head_content": [("G", "script", True, [("src", ("S", "x.js"))], []), ("M", dict(dep)),
                                                             ("T", "t<")]}), ("T", "x")]),
             ("M", dict(dep))])]),
         ["doc", "doc_kw", "hoist", "doc_save", "textdoc_json", "json_str", "doc_attrs", "render"]),
        ("a component inside ordinary tags inside a with-block",
         ("W", "div", True, [("id", ("S", "a"))], [("G", "p", True, [], [comp, ("T", "after")]), ("T", "x"),
                                                   ("W", "section", True, [], [comp, ("H", "<hr>")])]),
         ["tagify", "render", "json_str", "doc_kw", "copy", "deepcopy", "str"]),
        ("objects that are tagifiable and self-rendering",
         ("G", "div", True, [], [both, ("T", "x"), comp, ("G", "span", False, [], [both])]),
         ["tagify", "str", "repr_html", "render", "doc", "json_str", "deps"]),
        ("HTML() values through the class / style helpers, consolidate_attrs and back into a tag",
         ("A", "consolidate", "div", True, [("class", ("H", "a&b")), ("style", ("H", "color:red;")), ("title", ("S", "t<"))],
          [("A", "helpers", "span", False, [("class", ("H", "x<y")), ("style", ("S", "margin:0")), ("class", ("S", "z")),
                                            ("style", ("H", "top:1px;"))], [("T", "t")]),
           ("A", "attrs_obj", "p", True, [("class", ("H", "p&q")), ("data-x", ("S", "1"))], [("T", "u")]),
           ("A", "kwargs", "div", True, [("class", ("H", "k")), ("data-x", ("S", "1")), ("a:b", ("S", "c"))], [("T", "v")])]),
         ["str", "html", "copy", "eq", "doc_kw", "tagify"]),
        ("json render mode together with HTMLTextDocument",
         ("G", "body", True, [], [("M", dict(dep)), ("G", "div", True, [], [("M", rich_dep(1, None, 3)), ("T", "</script>")]),
                                  ("M", {"name": "u", "version": "1", "source": {"subdir": ASSETS_TOKEN, "package": None},
                                         "stylesheet": [{"href": "s.css"}], "head": "<!-- </script> -->"})]),
         ["textdoc_json", "json_str", "textdoc", "textdoc_json", "str", "json_str", "doc_save"]),
        ("a tag that was used as a context manager, then copied, compared and rendered",
         ("G", "section", True, [], [("W", "div", True, [("id", ("S", "a"))], [("T", "Hello, "), ("G", "i", False, [], [("T", "big")]),
                                                                             ("M", dict(dep))]), ("T", "tail")]),
         ["copy", "eq", "tagify", "str", "render", "deepcopy", "doc"]),
        ("with-blocks inside with-blocks",
         ("W", "div", True, [], [("W", "p", True, [], [("T", "a"), ("W", "b", False, [], [("T", "deep")])]),
                                 ("G", "span", False, [], [("W", "i", False, [], [("T", "in two parents")])]), ("R", "<u>r</u>")]),
         ["copy", "eq", "tagify", "str", "html", "doc_copy"]),
        ("a top-level list made with + and +=, holding with-built tags and dependencies",
         ("Q", [("W", "div", True, [], [("T", "a"), ("M", dict(dep))]), ("T", "t<"), ("M", dict(dep)), ("H", "<hr>"),
                ("A", "helpers", "p", True, [("class", ("S", "k"))], [("T", "x")]), ("L", 3, [("T", "nested"), ("G", "b", False, [], [])])],
          "iadd"),
         ["tagify", "html", "deps", "json_str", "copy", "save", "doc_kw", "eq"]),
        ("one object placed in two parents",
         ("G", "div", True, [], [("S", 0), ("G", "p", True, [], [("S", 0), ("S", 1), ("S", 2)]), ("S", 1), ("S", 2),
                                 ("Q", [("S", 0)])]),
         ["tagify", "deps", "doc", "json_str", "copy", "render", "save"]),
    ]
    out = []
    for label, d, ops in items:
        out.append((label + "/0", d, ops))
        # the same features under a document root, operations in another order
        r = sub_rng(ctx, label)
        ops2 = list(ops)
        r.shuffle(ops2)
        if d[1] != "html":
            out.append((label + "/1", ("G", "html", True, [], [("G", "body", True, [], [d, ("T", "x")])]), ops2 + ["hoist", "doc_kw"]))
    return out


def active_with_blocks(ctx):
    for i in range(ctx.budget(12, 200)):
        label = f"inside an active with-block/{i}"
        guarded(ctx, {"case": label}, lambda: _active_with_block(ctx, label))


def _active_with_block(ctx, label):
    """the clauses hold for a tag whose with-block is STILL ACTIVE (and for its children), and after it ended"""
    rng = sub_rng(ctx, label)
    inner = rand_tree(rng, rng.choice([1, 2]), None, rng.random() < 0.3, extended=True)
    kid_descs = kids_of(inner) if inner[0] in "GW" else [inner]
    kid_descs = [k for k in kid_descs if k[0] != "L"] + [("W", "p", True, [], [("T", "in a nested block")])]
    d = ("W", "div", True, [("id", ("S", "a"))], kid_descs)
    kinds = kinds_x(d)
    custom, bare = bool(kinds & {"C", "J"}), "M0" in kinds
    ops = [rng.choice(CHEAP_OPS) for _ in range(4)]
    case = {"case": label, "tree": abbrev(d), "ops": ops, "kinds": "".join(sorted(k[0] for k in kinds)),
            "when": "while the with-block of the root is active"}
    ctx.count(("active", d, ops), True, "sizes / features: active with-block")
    shared = [Tag("em", "shared"), HTMLDependency("shared", "1.0", head="<link>"), HTML("<raw>")]
    outer = Tag("div", _add_ws=True)
    _set_attrs_raw(outer, d[3])
    old = sys.displayhook
    sys.displayhook = _sink
    _DEPTH[0] += 1
    try:
        with outer:
            hook = sys.displayhook
            for kd in kid_descs:
                if kd[0] == "W":
                    build_x(kd, shared)
                else:
                    sys.displayhook(build_x(kd, shared))
            live_battery(ctx, rng, outer, shared, case, ops, custom, bare, routes=True, mutate=False)
            for c in list(outer.children):
                if isinstance(c, Tag):
                    live_battery(ctx, rng, c, [outer, shared], {**case, "receiver": "a child of the root"}, ops[:2], custom, bare,
                                 mutate=False)
                    break
            if sys.displayhook is not hook:
                ctx.violation("a read-only operation inside an active with-block replaced sys.displayhook", case, {})
    finally:
        _DEPTH[0] -= 1
        sys.displayhook = old
    live_battery(ctx, rng, outer, shared, {**case, "when": "after the with-block ended"}, ops, custom, bare, routes=True)


def second_objects(ctx):
    """State shared between objects: build an object, use it in every way (mutations through the public API,
    read-only operations, a with-block), then build a SECOND one from the same arguments: it must be what
    the first one was when it was new (structure, string forms, render results)."""
    from htmltools._jsx import jsx_tag_create
    serial = HTMLDependency("ser", "1.0", source={"href": "h"}, script={"src": "a.js"}).serialize_to_script_json().get_html_string()

    def use_tag(t):
        t.append("x", Tag("i"))
        t.attrs["data-k"] = "v"
        t.attrs.update({"class": "u"}, title="t")
        t.add_class("c").add_style("color:red;")
        t.children.insert(0, HTML("<h>"))
        old = sys.displayhook
        sys.displayhook = _sink
        try:
            with t:
                sys.displayhook("w")
        finally:
            sys.displayhook = old
        str(t), t.render(), t.tagify(), copy.copy(t), t.get_dependencies()
        HTMLDocument(t, lang="en").render()

    def use_list(l):
        l.append("x", Tag("i"))
        l += ["y", HTMLDependency("q", "1")]
        l.insert(0, HTML("<h>"))
        str(l), l.render(), l.tagify()

    def use_doc(doc):
        doc.render(lib_prefix=None)
        doc.append(Tag("p", HTMLDependency("q", "1", head="<x>")), "more")
        doc.render()
        copy.copy(doc).append("z")

    def use_textdoc(doc):
        doc.render()
        doc.render(lib_prefix=None, include_version=False)["dependencies"].append(HTMLDependency("q", "1"))

    def use_dep(dep):
        dep.as_html_tags(), dep.as_dict(), dep.serialize_to_script_json(indent=2), str(dep)
        dep.script.append({"src": "z.js"})
        dep.stylesheet.append({"href": "z.css"})
        dep.meta.append({"name": "z", "content": "z"})
        if dep.head is not None:
            dep.head.append("z")
        if dep.source is not None:
            dep.source["href"] = "changed"
        dep.as_dict()["meta"].append({"name": "y", "content": "y"})

    def use_jsx(j):
        j.append("x")
        j.attrs["p"] = {"a": 1}
        str(j), j.tagify()

    def use_attrs(a):
        a["k"] = "v"
        a.update({"class": "x"}, {"class": "y"})

    makers = [
        ("Tag('div')", lambda: Tag("div"), use_tag),
        ("Tag('div', {'class': 'a'}, 'x', id='i')", lambda: Tag("div", {"class": "a"}, "x", id="i"), use_tag),
        ("htmltools.div()", lambda: htmltools.div(), use_tag),
        ("htmltools.tags.script('s')", lambda: _tags.script("s"), use_tag),
        ("TagList()", lambda: TagList(), use_list),
        ("TagList('a', Tag('b'))", lambda: TagList("a", Tag("b")), use_list),
        ("TagList() + ['a']", lambda: TagList() + ["a"], use_list),
        ("HTMLDocument()", lambda: HTMLDocument(), use_doc),
        ("HTMLDocument(Tag('div'), lang='en')", lambda: HTMLDocument(Tag("div"), lang="en"), use_doc),
        ("HTMLTextDocument(text holding a serialised dependency)", lambda: HTMLTextDocument("<html><head></head><body>" + serial + "</body></html>"),
         use_textdoc),
        ("HTMLTextDocument(text, deps=[dep], deps_replace_pattern='X')",
         lambda: HTMLTextDocument("<html><head>X</head>" + serial + "</html>", deps=[HTMLDependency("o", "2")], deps_replace_pattern="X"),
         use_textdoc),
        ("HTMLDependency('n', '1')", lambda: HTMLDependency("n", "1"), use_dep),
        ("HTMLDependency('n', '1', source=.., script=.., stylesheet=.., meta=.., head=..)",
         lambda: HTMLDependency("n", "1", source={"href": "h"}, script={"src": "a.js"}, stylesheet={"href": "s.css"},
                                meta={"name": "m", "content": "c"}, head="<x>"), use_dep),
        ("head_content('t')", lambda: head_content("t"), use_dep),
        ("jsx_tag_create('Foo')()", lambda: jsx_tag_create("Foo")(), use_jsx),
        ("jsx_tag_create('Foo')('c', p=1)", lambda: jsx_tag_create("Foo")("c", p=1), use_jsx),
        ("TagAttrDict()", lambda: TagAttrDict(), use_attrs),
        ("TagAttrDict({'class': 'a'}, id='i')", lambda: TagAttrDict({"class": "a"}, id="i"), use_attrs),
    ]

    def observe(o):
        obs = [structure(dict(vars(o))) if isinstance(o, (HTMLDocument, HTMLTextDocument)) else structure(o)]
        for f in (str, lambda v: v.render(), lambda v: v.as_dict(), lambda v: v.tagify()):
            if isinstance(o, (HTMLDocument, HTMLTextDocument)) and f is str:
                continue          # documents have no string form of their own (the default repr shows an address)
            r = safe_call(lambda: f(o))
            obs.append(canon_result(r) if r[0] == "ok" else ("err",))
        return obs
    for rounds in range(2):
        for name, make, use in makers:
            ctx.count(("second object", name, rounds), True, "sizes / features: second object of a class")
            r = safe_call(lambda: [observe(make()), safe_call(lambda: use(make())), observe(make())])
            if r[0] != "ok":
                ctx.violation("constructing an object raised", {"constructor": name, "round": rounds}, {"error": r[1]})
                continue
            first, _, again = r[1]
            if again != first:
                ctx.violation("a second, identically constructed object is not what the first one was when it was new "
                              "(state shared between objects)", {"constructor": name, "round": rounds},
                              {"difference": _first_diff(first, again)})


def dep_batteries(ctx):
    """HTMLDependency on its own: every way of writing the source / the file lists / the head, sizes of the
    lists around thresholds; a history of read-only methods with all their arguments; the dependency (and the
    dicts it was given) structurally unchanged, equal calls equal results, still == an identically built twin"""
    heads = [None, "<meta name='x'>", ("G", "title", True, [], [("T", "t&")]),
             [("G", "script", True, [], [("T", "1</script>")]), ("T", "x")]]
    sources = [None, {"href": "https://x.y/z"}, {"subdir": ASSETS_TOKEN}, PKG_NONE, {"subdir": ASSETS_TOKEN, "package": None},
               {"package": "htmltools", "subdir": "lib/react"}]
    n_items = sizes_for(ctx, "dep-items")
    for i in range(ctx.budget(60, 1500)):
        guarded(ctx, {"case": f"dependency methods/{i}"}, lambda: _dep_battery(ctx, i, heads, sources, n_items))


def _dep_battery(ctx, i, heads, sources, n_items):
    label = f"dependency methods/{i}"
    rng = sub_rng(ctx, label)
    src = sources[i % len(sources)]
    kw = rich_dep(i % 7, src, rng.choice([1, 1, 2, 3] + ([rng.choice(n_items)] if i % 10 == 0 else [])))
    if src is None:
        kw.pop("source")
    if src is not None and src.get("package") == "htmltools":
        kw["script"], kw["stylesheet"] = {"src": "react.production.min.js"}, []
    h = rng.choice(heads)
    if h is not None:
        kw["head"] = h
    d = ("M", kw)
    n_calls = rng.choice([3, 5, 8] + ([rng.choice(SIZES)] if i % 15 == 0 else []))
    ctx.count(("dep", d, n_calls), True, "sizes / features: dependency methods")
    dep, twin = build_x(d, []), build_x(d, [])
    case = {"case": label, "dependency": abbrev(kw), "calls": []}
    if not (dep == twin and twin == dep):
        ctx.violation("== is false for identically built dependencies", case, {})
        return
    before = snapshot([dep])
    memo = {}
    for _ in range(n_calls):
        key, f = rng.choice(_dep_ops(rng))
        if len(case["calls"]) < 12:
            case["calls"].append(list(key))
        r = safe_call(lambda: f(dep))
        cr = canon_result(r)
        after = snapshot([dep])
        if after != before:
            ctx.violation("an HTMLDependency as_html_tags/as_dict/source_path_map/serialize call changed an object",
                          {**case, "call": list(key)}, {"before": _first_diff(before, after)})
            break
        if key in memo and memo[key] != cr:
            ctx.violation("a read-only call gives a different result when it is repeated (other read-only calls in between)",
                          {**case, "call": list(key)}, {})
            break
        memo.setdefault(key, cr)
        if key[0] in ("copy", "deepcopy") and r[0] == "ok" and not (r[1] == dep and dep == r[1]):
            ctx.violation("a copy of a dependency does not equal the dependency", {**case, "call": list(key)}, {})
            break
    if not (dep == twin and twin == dep):
        ctx.violation("after read-only operations an object no longer equals an identically built one", case, {})
    # one field changed: not equal
    k2 = copy.deepcopy(kw)
    which = rng.choice(["name", "version", "script", "all_files"])
    if which == "script":
        sc = k2.get("script") or []
        sc = [sc] if isinstance(sc, dict) else list(sc)
        k2["script"] = sc + [{"src": "one-more.js"}]
    elif which == "all_files":
        k2["all_files"] = True
    else:
        k2[which] = k2[which] + "1"
    other = build_x(("M", k2), [])
    if dep == other or other == dep:
        ctx.violation(f"== is true for dependencies that differ in {which}", {**case, "other": abbrev(k2)}, {})


def run(ctx: Ctx) -> None:
    rng = ctx.rng
    ctx.rule = ("Correspondence: random object graphs (depth <= 4; dependencies, HTML(), _repr_html_ objects, "
                "tagifiable objects, html/body/head roots) WITH ALIASING -- a shared tag, a shared dependency, a shared "
                "tagifiable object whose expansion holds both, a shared metadata node, each possibly in several places -- "
                "encoded as a heap (locations = first-visit numbers); 1..5 operations (tagify, render, get_html_string, "
                "get_dependencies, copy.copy, HTMLDocument.render in 3 argument variants, _hoist_head_content) on the root, "
                "a nested tag or a child list; the implementation's graph of [inputs, all results] and every returned "
                "string / dependency list are compared with the extracted heap model's (same canonical numbering, so all "
                "sharing between inputs and results is compared); == against the model of _equals_impl on pairs "
                "(identical, attribute order permuted, str<->HTML with the same text, one field changed); the string forms "
                "against the pure layer; thorough adds all trees with <= 2 levels over an 8-leaf alphabet under 3 roots "
                "x 10 operations run twice.  Oracle: per tree a random interleaving of 3..8 of 21 read-only operations "
                "(every entry point listed at the top of the harness file, arguments drawn from their non-default values, "
                "both dependency render modes, documents, text documents, save_html into real directories) on the tag or "
                "its child list; the whole reachable object graph and the caller-side objects (shared objects, donor "
                "attribute maps, keyword arguments) snapshotted before and after each; an equal call must give an equal "
                "result again; id()-sets of original vs tagify() result; copy.copy equals x and owns its attribute map / "
                "child list; x == twin built by the same description before and after the operations, != variants that "
                "differ at the far end; mutation of the copy and of the original through 12 public routes; str/repr/"
                "_repr_html_/render and every other rendering route agree.  Trees come from the random generator (tags "
                "built by constructor, with-block, other tags' .attrs, consolidate_attrs, class/style helpers, keyword "
                "arguments of the tag functions, nested lists; components; dependencies with every way of writing the "
                "source) AND from a fixed family around size thresholds (7..9, 15..17, 31..33, 63..65, 127..129, 255..257, "
                "300 children / list items / attributes / merged values / class tokens / dependencies / versions / "
                "script-stylesheet-meta items / operations in one history; depth 7..70 of tags, of nested lists, of "
                "component props; strings of 300, 5000, 70000 characters with the markup at the end; a 300007-byte file), "
                "the interesting content last; feature pairs (head_content + own html/head/body, components in "
                "with-blocks, tagifiable + self-rendering, helpers + consolidate_attrs, json mode + HTMLTextDocument, "
                "used context managers, one object in two parents); live with-blocks; a second object of every class "
                "after the first was used.  Non-trivial = graph has aliasing, a dependency, an object or a non-constructor "
                "route; distinct = canonical description + operations.")
    ctx.assumptions = ["object identity and aliasing are observed on CPython (id(), is)",
                       "dependency internals (head child list, script/stylesheet/meta lists, source dict) are outside the "
                       "heap model (OMeta carries an opaque payload): known finding F8 lives there; the purity of "
                       "HTMLDependency.as_html_tags/as_dict/source_path_map/serialize_* and the filesystem effects of "
                       "save_html are covered by the snapshot oracle only",
                       "a tagifiable object's tagify() returns fresh, fully tagified nodes on every call (the Tagifiable "
                       "contract; the harness class does); its expansion holds no further tagifiable object",
                       "HTMLDocument's attribute update, dependency resolution and the tags a dependency contributes are "
                       "supplied to the extracted model through the models of C15 / C10 and as data",
                       "inputs beyond the heap correspondence's scope -- with-block-built tags (prev_displayhook set), "
                       "components, the non-constructor attribute routes, the size / depth family, json render mode, text "
                       "documents, save_html -- are decided by the specification oracle alone (snapshots, twins, repeats)"]
    ctx.proof()
    known_shape_eq_after_with(ctx)
    environment_shaped_sources(ctx)

    # ---- step B: correspondence with the extracted heap model ------------------------------
    cases = []
    for f in sorted(glob.glob(os.path.join(VERIF, "corpus", "C08", "*.json"))):
        with open(f, encoding="utf-8") as fh:
            for c in json.load(fh)["cases"]:
                cases.append(corr_case(rng, desc_from_json(c["tree"]), [desc_from_json(x) for x in c["shared"]],
                                       ops=c["ops"]))
    for it in range(ctx.budget(400, 9000)):
        root = rng.choice([None, None, None, "html", "html", "body", "head"])
        d = rand_graph(rng, rng.choice([1, 2, 2, 3, 4]), root, rng.random() < 0.4)
        cases.append(corr_case(rng, d, SHARED_DESC))
    if not ctx.quick:
        for d in small_graphs():
            for op in [("tagify",), ("render",), ("copy",), ("deps",), ("html", 1, "\n"), ("doc", 0), ("doc", 1), ("doc", 2),
                       ("hoist", 0), ("hoist", 2)]:
                if op[0] == "hoist" and d[1] != "html":
                    continue
                c = corr_case(rng, d, SHARED_DESC, ops=[])
                c["ops"] = [(op, c["rlocs"][0]), (op, c["rlocs"][0])]
                cases.append(c)
    ophist: dict[str, int] = {}
    for c in cases:
        for op, loc in c["ops"]:
            key = op[0] + (" on a TagList" if c["heap0"][loc][0] == 2 else "")
            ophist[key] = ophist.get(key, 0) + 1
        shared_used = "'S'" in repr(c["desc"])
        ctx.count(("heap", c["desc"], [[list(o), l] for o, l in c["ops"]]), shared_used or "'M'" in repr(c["desc"]),
                  "heap correspondence, graph with aliasing" if shared_used else "heap correspondence, tree")
    ctx.extra["heap_correspondence_operations"] = ophist
    correspondence(ctx, "heap operations (tagify, render, get_html_string, get_dependencies, copy, HTMLDocument.render, _hoist_head_content) "
                        "on graphs with aliasing", cases)

    # == against the model of _equals_impl
    eq_cases, payloads = [], {}
    for it in range(ctx.budget(600, 12000)):
        d = trees.rand_tree(rng, rng.choice([0, 1, 2, 3]), leaves="TTHHD", names="bbivsc", custom=False)
        def fixdeps(x):
            if x[0] == "G":
                return ("G", x[1], x[2], x[3], [fixdeps(k) for k in x[4]])
            if x[0] == "M":
                return ("M", rand_dep(rng))
            return x
        d = fixdeps(d)
        what, v = eq_variant(d, rng)
        if rng.random() < 0.1:
            what, v = "everything", fixdeps(trees.rand_tree(rng, 1, leaves="TH", custom=False))
        eq_cases.append((d, v, what))

    def dep_payload(kw):
        return canonical_dep_payload(structure(HTMLDependency(**{k: (build_x(v, []) if isinstance(v, tuple) else v)
                                                                 for k, v in kw.items()})), payloads)
    outs = run_model([[2, trees.to_sx(a, dep_payload), trees.to_sx(b, dep_payload)] for a, b, _ in eq_cases], driver="c08")
    bad = []
    for (a, b, what), m in zip(eq_cases, outs):
        ctx.count(("eq", a, b), True, "== correspondence")
        iv = safe_call(lambda: build_x(a, []) == build_x(b, []))
        mv = ("ok", bool(m)) if m in (0, 1) else ("!", m)
        if iv != mv:
            bad.append({"case": [a, b], "impl_output": iv, "model_output": mv})
        # oracle, from the property text: equal variants compare equal, different ones do not
        if what is None and iv != ("ok", True) and structure(build_x(a, [])) == structure(build_x(b, [])):
            ctx.violation("== is false for structurally identical tags", [a, b], {"impl_output": iv})
        if what is not None and what != "everything" and iv == ("ok", True):
            ctx.violation(f"== is true for tags that differ in {what}", [a, b], {"impl_output": iv})
    ctx.corr_cases += len(eq_cases)
    ctx.obligation(f"correspondence == vs the model of _equals_impl ({len(eq_cases)} cases)", not bad)
    if bad:
        ctx.extra["disagree_eq"] = bad[:3]

    # the four string forms against the pure-layer function
    form_cases = []
    for it in range(ctx.budget(300, 5000)):
        form_cases.append((trees.rand_tree(rng, rng.choice([0, 1, 2, 3]), leaves="TTHRM", names="bbivsc",
                                           custom=rng.random() < 0.4), rng.random() < 0.3))
    outs = run_model([[3, 1 if il else 0, ([trees.to_sx(k, lambda p: 0) for k in d[4]] if il else [trees.to_sx(d, lambda p: 0)])]
                      for d, il in form_cases], driver="c08")
    bad = []
    for (d, il), m in zip(form_cases, outs):
        ctx.count(("forms-model", d, il), True, "string forms correspondence")
        x = build(d)
        if il:
            x = TagList(*x.children)
        iv = [safe_call(lambda: str(x)), safe_call(lambda: repr(x)), safe_call(lambda: x._repr_html_())]
        mv = [trees.res_decode(o[0], unS) if isinstance(o, list) and len(o) == 1 else ("!", o) for o in m] \
            if isinstance(m, list) and len(m) == 3 else ("!", m)
        if iv != mv:
            bad.append({"case": [d, il], "impl_output": iv, "model_output": mv})
    ctx.corr_cases += len(form_cases)
    ctx.obligation(f"correspondence str/repr/_repr_html_ vs the pure layer ({len(form_cases)} cases)", not bad)
    if bad:
        ctx.extra["disagree_forms"] = bad[:3]

    n = ctx.budget(1000, 14000)
    for it in range(n):
        root = rng.choice([None, None, None, "html", "body", "head"])
        custom = rng.random() < 0.3
        d = rand_tree(rng, rng.choice([1, 2, 3, 4]), root, custom, extended=True)
        ops = [rng.choice(OPS) for _ in range(rng.choice([3, 4, 5, 8]))]
        battery(ctx, rng, d, ops, head_at=(rng.randrange(0, 5) if root == "html" and rng.random() < 0.5 else None),
                routes=rng.random() < 0.25)

    # ---- sizes and depths around thresholds; features together; live with-blocks; two of everything
    for label, d, ops in sized_cases(ctx):
        battery(ctx, sub_rng(ctx, label), d, ops, label=label, routes=True, tail=True)
    for label, d, ops in feature_cases(ctx):
        battery(ctx, sub_rng(ctx, label), d, ops, label=label, routes=True)
    active_with_blocks(ctx)
    second_objects(ctx)
    dep_batteries(ctx)

    dep_method_histories(ctx)

    # ---- consistency of the four string forms, and == ------------------------------------
    for it in range(ctx.budget(800, 10000)):
        d = rand_tree(rng, rng.choice([1, 2, 3]), None, False)
        x = build_x(d, [Tag("em"), HTMLDependency("s", "1"), HTML("r")])
        ctx.count(("forms", d), True, "string forms and equality")
        forms = [safe_call(lambda: str(x)), safe_call(lambda: repr(x)), safe_call(lambda: x._repr_html_()),
                 safe_call(lambda: x.render()["html"])]
        if any(f != forms[0] for f in forms):
            ctx.violation("str(x), repr(x), x._repr_html_() and x.render()['html'] are not the same string", d,
                          {"forms": forms})
        tl = TagList(*x.children)
        lf = [safe_call(lambda: str(tl)), safe_call(lambda: repr(tl)), safe_call(lambda: tl._repr_html_()),
              safe_call(lambda: tl.render()["html"])]
        if any(f != lf[0] for f in lf):
            ctx.violation("TagList string forms differ", d, {"forms": lf})
        # == : structural
        if "'R'" in repr(d) or ("'M', None" in repr(d)):
            continue  # repr objects / bare metadata nodes compare by identity (harness objects)
        x2 = build_x(d, [Tag("em"), HTMLDependency("s", "1"), HTML("r")])
        if not (x == x2):
            ctx.violation("== is false for structurally identical tags", d, {})
        m = _perturb(d, rng)
        if m is not None:
            x3 = build_x(m[1], [Tag("em"), HTMLDependency("s", "1"), HTML("r")])
            if x == x3:
                ctx.violation(f"== is true for tags that differ in {m[0]}", [d, m[1]], {})
        sx_ = safe_call(lambda: str(x))      # (a rendering that raises is a value, reported by the steps above)
        if x == TagList(*x.children) or (sx_[0] == "ok" and x == sx_[1]) or x == HTMLDependency("a", "1"):
            ctx.violation("== is true for objects of different kinds", d, {})


def _check_copy(ctx, orig, cp, case, rng, snap, no_eq=False, mutate=True):
    """copy.copy(x): a new object with its own attribute map / child list (so that assigning to
    the copy's fields, attributes or child list cannot touch the original); the children are
    shared (a shallow copy); it equals the original"""
    if cp is orig or (isinstance(orig, Tag) and (cp.attrs is orig.attrs or cp.children is orig.children)) \
            or (isinstance(orig, TagList) and cp.data is orig.data):
        ctx.violation("copy.copy(x) shares its attribute map or child list object with x", case, {})
        return
    if structure(cp) != structure(orig):
        ctx.violation("copy.copy(x) is not structurally identical to x", case,
                      {"difference": _first_diff(structure(orig), structure(cp))})
    elif not no_eq and not (cp == orig and orig == cp):
        ctx.violation("copy.copy(x) does not equal x", case, {})
    if not mutate:
        return
    before = snap()
    if isinstance(cp, Tag):
        cp.append("MUT", Tag("mut"))
        cp.attrs["data-mut"] = "1"
        cp.name = cp.name + "x"
        cp.insert(0, HTML("<mut>"))
        if len(cp.children) > 2:
            cp.children.pop()
        cp.children += ["more"]
    else:
        cp.append("MUT")
        cp.insert(0, Tag("mut"))
        cp += [Tag("mut2")]
        cp.pop()
    if snap() != before:
        ctx.violation("mutating the fields, attributes or child list of copy.copy(x) changed x", case, {})


def dep_method_histories(ctx: Ctx) -> None:
    """The HTMLDependency read-only methods must give, in ANY call order and however often they are
    repeated, what they give when called first on a fresh object (no process-wide memory): package-
    and directory-sourced dependencies sharing names / versions / sources in all combinations."""
    import posixpath
    rng = ctx.rng
    pkgdir = os.path.dirname(htmltools.__file__)
    sources = [{"package": "htmltools", "subdir": "lib/react"}, {"package": "htmltools", "subdir": "lib/react-dom"},
               {"package": "htmltools", "subdir": "lib"}, {"subdir": pkgdir}, {"href": "https://cdn.x/y"}, None]
    for _ in range(ctx.budget(150, 2500)):
        deps = []
        for _ in range(rng.choice([2, 3, 4])):
            src = rng.choice(sources)
            kw = {"name": rng.choice(["lib", "lib", "other"]), "version": rng.choice(["1.0", "2.0", "1.0"]),
                  "source": None if src is None else dict(src)}
            if src is not None:
                kw["script"] = {"src": "react.production.min.js"}
            deps.append((kw, HTMLDependency(**kw)))
        calls = []
        for _ in range(rng.choice([3, 5, 8])):
            i = rng.randrange(len(deps))
            calls.append((i, rng.choice(["spm", "as_dict", "tags"]), rng.choice([None, "lib", "a/b"]), rng.random() < 0.5))
        ctx.count(("dep-history", [k for k, _ in deps], calls), True, "dependency method call histories")
        for i, what, prefix, iv in calls:
            kw, d = deps[i]
            fresh = HTMLDependency(**{**kw, "source": None if kw["source"] is None else dict(kw["source"])})
            f = {"spm": lambda o: o.source_path_map(lib_prefix=prefix, include_version=iv),
                 "as_dict": lambda o: o.as_dict(lib_prefix=prefix, include_version=iv),
                 "tags": lambda o: str(o.as_html_tags(lib_prefix=prefix, include_version=iv))}[what]
            got = safe_call(lambda: f(d))
            # independent expectation for source_path_map
            if what == "spm" and got[0] == "ok":
                src = kw["source"]
                if src is None:
                    want = {"source": "", "href": ""}
                elif "href" in src:
                    want = {"source": "", "href": src["href"]}
                else:
                    base = os.path.join(pkgdir, src["subdir"]) if "package" in src else os.path.realpath(src["subdir"])
                    href = kw["name"] + ("-" + kw["version"] if iv else "")
                    want = {"source": base, "href": posixpath.join(prefix, href) if prefix else href}
                if got[1] != want:
                    ctx.violation("source_path_map() result depends on what was called before (or is not the source "
                                  "directory / href of THIS dependency)", {"deps": [k for k, _ in deps], "calls": calls},
                                  {"impl_output": got[1], "expected": want})
                    break
            # and in general: same as a fresh object asked first ... in a process where nothing else was asked:
            # approximated by asking an equal fresh object now and requiring equality with an independent copy
            ref = safe_call(lambda: f(fresh))
            if repr(got) != repr(ref):
                ctx.violation("an HTMLDependency method gives a different result on an equal, freshly built dependency",
                              {"deps": [k for k, _ in deps], "calls": calls}, {"impl_output": repr(got)[:300], "fresh": repr(ref)[:300]})
                break


def _first_diff(a, b, path=""):
    if type(a) != type(b):
        return f"{path}: {str(a)[:80]} -> {str(b)[:80]}"
    if isinstance(a, (list, tuple)):
        if len(a) != len(b):
            return f"{path}: length {len(a)} -> {len(b)}: {str(a)[:120]} -> {str(b)[:120]}"
        for i, (p, q) in enumerate(zip(a, b)):
            if p != q:
                return _first_diff(p, q, f"{path}/{i}")
        return None
    return f"{path}: {str(a)[:80]} -> {str(b)[:80]}" if a != b else None


def _mutate(t, rng, tail=False):
    """a few public-API mutations at random places of a tag tree (tail: also at its far end -- the last
    tag in document order, the last child of the root and of the widest child list)"""
    tags = []
    def walk(x):
        if isinstance(x, Tag):
            tags.append(x)
            for c in x.children:
                walk(c)
        elif isinstance(x, TagList):
            for c in x:
                walk(c)
    walk(t)
    picks = [rng.choice(tags) for _ in range(3)] if tags else []
    if tail and tags:
        picks += [tags[-1], max(tags, key=lambda u: len(u.children))]
    for u in picks:
        k = rng.randrange(0, 12)
        if k == 0:
            u.append("MUT", Tag("mut"))
        elif k == 1:
            u.attrs["data-mut"] = "1"
        elif k == 2:
            u.add_class("mut", prepend=rng.random() < 0.5)
        elif k == 3 and len(u.children):
            u.children.pop()
        elif k == 4:
            u.name = u.name + "x"
            u.add_ws = not u.add_ws
        elif k == 5:
            u.insert(0, HTML("<mut>"))
        elif k == 6:
            u.extend(["MUT", [Tag("mut")]])
        elif k == 7:
            u.children += [Tag("mut"), "MUT"]
        elif k == 8 and len(u.children):
            u.children[-1] = Tag("mut", "replaced")
        elif k == 9 and len(u.children):
            del u.children[0]
        elif k == 10:
            u.attrs.update({"class": "mut"}, title=HTML("<mut>"))
            u.add_style("top:0;", prepend=rng.random() < 0.5)
        elif k == 11:
            u.insert(-1, "MUT")
            u.remove_class("mut")
            for key in list(u.attrs)[-1:]:
                u.attrs[key] = str(u.attrs[key]) + "!"
    if tail and tags:
        # the far end itself: the last tag gets a class, the widest list loses its last item and gains one
        tags[-1].add_class("tail-mut")
        w = max(tags, key=lambda u: len(u.children))
        if len(w.children):
            last = w.children[-1]
            if isinstance(last, Tag):
                last.attrs["data-tail"] = "1"
                last.append("tail")
            w.children.pop()
        w.append("TAIL")
    top = t.children if isinstance(t, Tag) else t
    if isinstance(t, TagList):
        t.append("MUT")
        t.insert(0, Tag("mut"))
    for c in list(top):
        if isinstance(c, HTMLDependency):
            c.name = c.name + "-mut"
            c.all_files = not c.all_files


def _perturb(d, rng):
    """a structurally different copy: (what differs, description)"""
    if d[0] != "G":
        return None
    k = rng.randrange(0, 5)
    if k == 0:
        return ("tag name", ("G", d[1] + "q", d[2], d[3], d[4]))
    if k == 1:
        return ("whitespace flag", ("G", d[1], not d[2], d[3], d[4]))
    if k == 2:
        return ("the set of attributes", ("G", d[1], d[2], d[3] + [("zz", ("S", "1"))], d[4]))
    if k == 3:
        if d[3]:
            a0 = d[3][0]
            return ("an attribute value", ("G", d[1], d[2], [(a0[0], (a0[1][0], a0[1][1] + "!"))] + d[3][1:], d[4]))
        return None
    return ("the structure of the children", ("G", d[1], d[2], d[3], d[4] + [("T", "extra")]))


def replay(ctx: Ctx, path: str) -> None:
    """re-run the recorded input (the step that reported it runs that single case)"""
    ctx.load_replay(path)
    run(ctx)

"""C08  Rendering and tagify are pure and consistent; tagify returns an independent copy."""
from __future__ import annotations

import copy
import os
import shutil
import tempfile

from ..common import Ctx, S, unS, run_model, known_matcher
from .. import trees
from ..trees import build, safe_call
from ..snapshot import snapshot, structure, mutable_ids

import htmltools
from htmltools import HTML, HTMLDependency, HTMLDocument, MetadataNode, Tag, TagList

WHAT_DEP_SHARE = ("tagify() copy of a dependency shares internal objects (head child list / script, stylesheet, "
                  "meta lists) with the original")


@known_matcher("F8-dep-copy-shares-internals")
def _k(what, case, detail):
    return what == WHAT_DEP_SHARE


# ---- generators ---------------------------------------------------------------------------
def rand_dep(rng):
    kw = {"name": rng.choice(["a", "b", "c"]), "version": rng.choice(["1.0", "1.10", "2"])}
    if rng.random() < 0.5:
        kw["source"] = {"href": rng.choice(["https://x.y/z", "https://x.y/z/"])}
        kw["script"] = rng.choice([{"src": "a.js"}, [{"src": "a.js"}, {"src": "b c.js", "defer": ""}]])
    if rng.random() < 0.4:
        kw["stylesheet"] = {"href": "s.css"}
    if rng.random() < 0.3:
        kw["meta"] = {"name": "m", "content": "c<"}
    if rng.random() < 0.5:
        kw["head"] = rng.choice(["<meta name='x'>", ("G", "title", True, [], [("T", "t&")]), None])
    return kw


def build_x(d, shared):
    """like trees.build, but ('M', kw) builds a dependency (head descriptions built too) and
    ('S', i) refers to the i-th shared object (aliasing)"""
    k = d[0]
    if k == "S":
        return shared[d[1] % len(shared)]
    if k == "M":
        if d[1] is None:
            return MetadataNode()
        kw = dict(d[1])
        if isinstance(kw.get("head"), tuple):
            kw["head"] = build_x(kw["head"], shared)
        return HTMLDependency(**kw)
    if k == "G":
        _, name, ws, attrs, kids = d
        t = Tag(name, *[build_x(x, shared) for x in kids], _add_ws=ws)
        for key, (m, v) in attrs:
            dict.__setitem__(t.attrs, key, HTML(v) if m == "H" else v)
        return t
    if k == "C":
        _, sh, exp, as_list = d
        e = [build_x(x, shared) for x in exp]
        return trees.CustomObj(e, as_list) if sh is None else trees.CustomReprObj(e, as_list, sh)
    return build(d)


def rand_tree(rng, depth, root=None, custom=False):
    d = trees.rand_tree(rng, depth, leaves="TTHRMD", names="bbivsc", custom=custom)
    def fix(x):
        if x[0] == "G":
            return ("G", x[1], x[2], x[3], [fix(k) for k in x[4]])
        if x[0] == "M" and x[1] is not None:
            return ("M", rand_dep(rng))
        if x[0] == "C":
            return ("C", x[1], [fix(k) for k in x[2]], x[3])
        if x[0] in "TH" and rng.random() < 0.08:
            return ("S", rng.randrange(0, 3))
        return x
    d = fix(d)
    if root:
        d = ("G", root, True, d[3], d[4])
    return d


OPS = ["tagify", "render", "str", "repr", "html", "deps", "copy", "doc", "doc_attrs", "save", "eq"]


def apply_op(op, x, rng):
    if op == "tagify":
        return x.tagify()
    if op == "render":
        return x.render()
    if op == "str":
        return str(x)
    if op == "repr":
        return repr(x)
    if op == "html":
        return x.get_html_string(rng.randrange(0, 3), rng.choice(["\n", ""]))
    if op == "deps":
        return x.get_dependencies()
    if op == "copy":
        return copy.copy(x)
    if op == "doc":
        return HTMLDocument(x).render(lib_prefix=rng.choice([None, "lib"]), include_version=rng.random() < 0.5)
    if op == "doc_attrs":
        return HTMLDocument(x, lang="en", class_=HTML("c")).render()
    if op == "eq":
        return x == x.tagify()
    if op == "save":
        d = tempfile.mkdtemp(prefix="verif-c08-")
        try:
            return x.save_html(os.path.join(d, "index.html"), libdir=rng.choice([None, "lib"]))
        finally:
            shutil.rmtree(d, ignore_errors=True)
    raise ValueError(op)


DEP_OPS = [
    lambda d: d.as_html_tags(), lambda d: d.as_html_tags(lib_prefix=None, include_version=False),
    lambda d: d.as_dict(), lambda d: d.as_dict(lib_prefix="x/y"), lambda d: d.source_path_map(),
    lambda d: d.serialize_to_script_json(), lambda d: d.serialize_to_script_json(indent=2).get_html_string(),
    lambda d: str(d), lambda d: copy.copy(d),
]


def all_deps(x, acc):
    if isinstance(x, HTMLDependency):
        acc.append(x)
    elif isinstance(x, Tag):
        for c in x.children:
            all_deps(c, acc)
    elif isinstance(x, TagList):
        for c in x:
            all_deps(c, acc)
    return acc


def run(ctx: Ctx) -> None:
    rng = ctx.rng
    ctx.rule = ("random trees (depth <= 4) with dependencies (head payloads, scripts, stylesheets, meta), HTML(), "
                "_repr_html_ objects, tagifiable objects, aliasing (one object in several places), html/body/head "
                "roots; per tree a random interleaving of 3..8 read-only operations, the whole reachable object graph "
                "snapshotted before and after each; id()-sets of original vs tagify() result; mutation of the copy "
                "and of the original through the public API; ==, str/repr/_repr_html_/render consistency. "
                "Non-trivial = tree has a dependency or an object and >= 3 tags; distinct = canonical tree + ops.")
    ctx.assumptions = ["object identity and aliasing are observed on CPython (id(), is)"]
    ctx.proof()

    n = ctx.budget(1200, 20000)
    for it in range(n):
        root = rng.choice([None, None, None, "html", "body", "head"])
        custom = rng.random() < 0.3
        d = rand_tree(rng, rng.choice([1, 2, 3, 4]), root, custom)
        shared = [Tag("em", "shared"), HTMLDependency("shared", "1.0", head="<link>"), HTML("<raw>")]
        x = build_x(d, shared)
        if root == "html" and rng.random() < 0.5:
            x.children.insert(rng.randrange(0, len(x.children) + 1), Tag("head", Tag("title", "t")))
        ops = [rng.choice(OPS) for _ in range(rng.choice([3, 4, 5, 8]))]
        nontriv = ("M" in repr(d) or "C" in repr(d))
        ctx.count(("pure", d, ops), nontriv, "interleaving of read-only operations")
        before = snapshot([x, shared])
        results = {}
        for op in ops:
            r = safe_call(lambda: apply_op(op, x, rng))
            after = snapshot([x, shared])
            if after != before:
                ctx.violation(f"{op} changed an object reachable from its receiver", {"tree": d, "ops": ops, "op": op},
                              {"before": _first_diff(before, after)})
                before = after
            if op in ("str", "repr", "render") and r[0] == "ok":
                v = r[1]["html"] if op == "render" else r[1]
                results.setdefault("s", v)
                if results["s"] != v:
                    ctx.violation("str(x), repr(x), x.render()['html'] differ or change between calls",
                                  {"tree": d, "ops": ops}, {"first": results["s"], "now": v})
        # dependency methods are read-only too
        for dep in all_deps(x, [])[:3]:
            f = rng.choice(DEP_OPS)
            safe_call(lambda: f(dep))
            after = snapshot([x, shared])
            if after != before:
                ctx.violation("an HTMLDependency as_html_tags/as_dict/source_path_map/serialize call changed an object",
                              {"tree": d}, {"before": _first_diff(before, after)})
                before = after
        # ---- tagify: equal when nothing expands, fixed point, independent ------------------
        r = safe_call(lambda: x.tagify())
        if r[0] != "ok":
            continue
        y = r[1]
        bare = "'M', None" in repr(d)   # bare MetadataNode objects compare by identity
        if not custom and (structure(x) != structure(y) or (not bare and not (x == y))):
            ctx.violation("tagify() of a tree without tagifiable objects does not equal the original", {"tree": d}, {})
        z = y.tagify()
        if structure(z) != structure(y) or str(z) != str(y) or (not bare and not (z == y)):
            ctx.violation("tagify() is not a fixed point of tagify()", {"tree": d}, {})
        a, b = mutable_ids(x), mutable_ids(y)
        common = set(a) & set(b)
        if common:
            ctx.violation("tagify() result shares a tag, child list, attribute map or metadata node object with the original",
                          {"tree": d}, {"shared": sorted({a[i] for i in common})})
        # dependency internals
        for dx, dy in zip(all_deps(x, []), all_deps(y, [])):
            if (dx.head is not None and dx.head is dy.head) or (dx.script and dx.script is dy.script):
                ctx.violation(WHAT_DEP_SHARE, {"tree": d}, {"dep": dx.name})
                break
        # mutate the copy through the public API; the original must not change
        before = snapshot([x, shared])
        _mutate(y, rng)
        if snapshot([x, shared]) != before:
            ctx.violation("mutating the tagify() copy through the public API changed the original", {"tree": d}, {})
        y2 = x.tagify()
        before2 = snapshot([y2])
        _mutate(x, rng)
        if snapshot([y2]) != before2:
            ctx.violation("mutating the original through the public API changed an earlier tagify() copy", {"tree": d}, {})

    # ---- consistency of the four string forms, and == ------------------------------------
    for it in range(ctx.budget(800, 10000)):
        d = rand_tree(rng, rng.choice([1, 2, 3]), None, False)
        x = build_x(d, [Tag("em"), HTMLDependency("s", "1"), HTML("r")])
        ctx.count(("forms", d), True, "string forms and equality")
        forms = [safe_call(lambda: str(x)), safe_call(lambda: repr(x)), safe_call(lambda: x._repr_html_()),
                 safe_call(lambda: x.render()["html"])]
        if any(f != forms[0] for f in forms):
            ctx.violation("str(x), repr(x), x._repr_html_() and x.render()['html'] are not the same string", d,
                          {"forms": forms})
        tl = TagList(*x.children)
        lf = [safe_call(lambda: str(tl)), safe_call(lambda: repr(tl)), safe_call(lambda: tl._repr_html_()),
              safe_call(lambda: tl.render()["html"])]
        if any(f != lf[0] for f in lf):
            ctx.violation("TagList string forms differ", d, {"forms": lf})
        # == : structural
        if "'R'" in repr(d) or ("'M', None" in repr(d)):
            continue  # repr objects / bare metadata nodes compare by identity (harness objects)
        x2 = build_x(d, [Tag("em"), HTMLDependency("s", "1"), HTML("r")])
        if not (x == x2):
            ctx.violation("== is false for structurally identical tags", d, {})
        m = _perturb(d, rng)
        if m is not None:
            x3 = build_x(m[1], [Tag("em"), HTMLDependency("s", "1"), HTML("r")])
            if x == x3:
                ctx.violation(f"== is true for tags that differ in {m[0]}", [d, m[1]], {})
        if x == TagList(*x.children) or x == str(x) or x == HTMLDependency("a", "1"):
            ctx.violation("== is true for objects of different kinds", d, {})


def _first_diff(a, b, path=""):
    if type(a) != type(b):
        return f"{path}: {str(a)[:80]} -> {str(b)[:80]}"
    if isinstance(a, (list, tuple)):
        if len(a) != len(b):
            return f"{path}: length {len(a)} -> {len(b)}: {str(a)[:120]} -> {str(b)[:120]}"
        for i, (p, q) in enumerate(zip(a, b)):
            if p != q:
                return _first_diff(p, q, f"{path}/{i}")
        return None
    return f"{path}: {str(a)[:80]} -> {str(b)[:80]}" if a != b else None


def _mutate(t, rng):
    """a few public-API mutations at random places of a tag tree"""
    tags = []
    def walk(x):
        if isinstance(x, Tag):
            tags.append(x)
            for c in x.children:
                walk(c)
    walk(t)
    for _ in range(3):
        u = rng.choice(tags)
        k = rng.randrange(0, 6)
        if k == 0:
            u.append("MUT", Tag("mut"))
        elif k == 1:
            u.attrs["data-mut"] = "1"
        elif k == 2:
            u.add_class("mut")
        elif k == 3 and len(u.children):
            u.children.pop()
        elif k == 4:
            u.name = u.name + "x"
            u.add_ws = not u.add_ws
        elif k == 5:
            u.insert(0, HTML("<mut>"))
    for c in list(t.children):
        if isinstance(c, HTMLDependency):
            c.name = c.name + "-mut"
            c.all_files = not c.all_files


def _perturb(d, rng):
    """a structurally different copy: (what differs, description)"""
    if d[0] != "G":
        return None
    k = rng.randrange(0, 5)
    if k == 0:
        return ("tag name", ("G", d[1] + "q", d[2], d[3], d[4]))
    if k == 1:
        return ("whitespace flag", ("G", d[1], not d[2], d[3], d[4]))
    if k == 2:
        return ("the set of attributes", ("G", d[1], d[2], d[3] + [("zz", ("S", "1"))], d[4]))
    if k == 3:
        if d[3]:
            a0 = d[3][0]
            return ("an attribute value", ("G", d[1], d[2], [(a0[0], (a0[1][0], a0[1][1] + "!"))] + d[3][1:], d[4]))
        return None
    return ("the structure of the children", ("G", d[1], d[2], d[3], d[4] + [("T", "extra")]))


def replay(ctx: Ctx, path: str) -> None:
    import json
    with open(path) as f:
        print(json.dumps(json.load(f), indent=1)[:3000])
    run(ctx)

"""C08  Rendering and tagify are pure and consistent; tagify returns an independent copy."""
from __future__ import annotations

import copy
import os
import shutil
import tempfile

import glob
import json

from ..common import Ctx, S, unS, run_model, known_matcher, sx_opt, VERIF
from .. import trees
from ..trees import build, safe_call
from ..snapshot import snapshot, structure, mutable_ids

import htmltools
from htmltools import HTML, HTMLDependency, HTMLDocument, MetadataNode, Tag, TagList
from htmltools._core import TagAttrDict

WHAT_DEP_SHARE = ("tagify() copy of a dependency shares internal objects (head child list / script, stylesheet, "
                  "meta lists) with the original")


@known_matcher("F8-dep-copy-shares-internals")
def _k(what, case, detail):
    return what == WHAT_DEP_SHARE


# ---- generators ---------------------------------------------------------------------------
def rand_dep(rng):
    kw = {"name": rng.choice(["a", "b", "c"]), "version": rng.choice(["1.0", "1.10", "2"])}
    if rng.random() < 0.5:
        kw["source"] = {"href": rng.choice(["https://x.y/z", "https://x.y/z/"])}
        kw["script"] = rng.choice([{"src": "a.js"}, [{"src": "a.js"}, {"src": "b c.js", "defer": ""}]])
    if rng.random() < 0.4:
        kw["stylesheet"] = {"href": "s.css"}
    if rng.random() < 0.3:
        kw["meta"] = {"name": "m", "content": "c<"}
    if rng.random() < 0.5:
        kw["head"] = rng.choice(["<meta name='x'>", ("G", "title", True, [], [("T", "t&")]), None])
    return kw


def build_x(d, shared):
    """like trees.build, but ('M', kw) builds a dependency (head descriptions built too) and
    ('S', i) refers to the i-th shared object (aliasing)"""
    k = d[0]
    if k == "S":
        return shared[d[1] % len(shared)]
    if k == "M":
        if d[1] is None:
            return MetadataNode()
        kw = dict(d[1])
        if isinstance(kw.get("head"), tuple):
            kw["head"] = build_x(kw["head"], shared)
        return HTMLDependency(**kw)
    if k == "G":
        _, name, ws, attrs, kids = d
        t = Tag(name, *[build_x(x, shared) for x in kids], _add_ws=ws)
        for key, (m, v) in attrs:
            dict.__setitem__(t.attrs, key, HTML(v) if m == "H" else v)
        return t
    if k == "C":
        _, sh, exp, as_list = d
        e = [build_x(x, shared) for x in exp]
        return trees.CustomObj(e, as_list) if sh is None else trees.CustomReprObj(e, as_list, sh)
    return build(d)


def rand_tree(rng, depth, root=None, custom=False):
    d = trees.rand_tree(rng, depth, leaves="TTHRMD", names="bbivsc", custom=custom)
    def fix(x):
        if x[0] == "G":
            return ("G", x[1], x[2], x[3], [fix(k) for k in x[4]])
        if x[0] == "M" and x[1] is not None:
            return ("M", rand_dep(rng))
        if x[0] == "C":
            return ("C", x[1], [fix(k) for k in x[2]], x[3])
        if x[0] in "TH" and rng.random() < 0.08:
            return ("S", rng.randrange(0, 3))
        return x
    d = fix(d)
    if root:
        d = ("G", root, True, d[3], d[4])
    return d


OPS = ["tagify", "render", "str", "repr", "html", "deps", "copy", "doc", "doc_attrs", "save", "eq", "hoist"]


def apply_op(op, x, rng):
    if op == "tagify":
        return x.tagify()
    if op == "render":
        return x.render()
    if op == "str":
        return str(x)
    if op == "repr":
        return repr(x)
    if op == "html":
        return x.get_html_string(rng.randrange(0, 3), rng.choice(["\n", ""]))
    if op == "deps":
        return x.get_dependencies()
    if op == "copy":
        return copy.copy(x)
    if op == "doc":
        return HTMLDocument(x).render(lib_prefix=rng.choice([None, "lib"]), include_version=rng.random() < 0.5)
    if op == "doc_attrs":
        return HTMLDocument(x, lang="en", class_=HTML("c")).render()
    if op == "eq":
        return x == x.tagify()
    if op == "hoist":
        # the static helper called on its own: it must copy before inserting head content
        if isinstance(x, Tag) and x.name == "html":
            return HTMLDocument._hoist_head_content(x, rng.choice([None, "lib"]), rng.random() < 0.5)
        return None
    if op == "save":
        d = tempfile.mkdtemp(prefix="verif-c08-")
        try:
            return x.save_html(os.path.join(d, "index.html"), libdir=rng.choice([None, "lib"]))
        finally:
            shutil.rmtree(d, ignore_errors=True)
    raise ValueError(op)


DEP_OPS = [
    lambda d: d.as_html_tags(), lambda d: d.as_html_tags(lib_prefix=None, include_version=False),
    lambda d: d.as_dict(), lambda d: d.as_dict(lib_prefix="x/y"), lambda d: d.source_path_map(),
    lambda d: d.serialize_to_script_json(), lambda d: d.serialize_to_script_json(indent=2).get_html_string(),
    lambda d: str(d), lambda d: copy.copy(d),
]


def all_deps(x, acc):
    if isinstance(x, HTMLDependency):
        acc.append(x)
    elif isinstance(x, Tag):
        for c in x.children:
            all_deps(c, acc)
    elif isinstance(x, TagList):
        for c in x:
            all_deps(c, acc)
    return acc


# ---- correspondence with the heap model (coq/Model/Heap.v, HeapOps.v) --------------------------
# A live object graph is encoded as a heap: every Tag, TagAttrDict, TagList, MetadataNode and
# tagifiable object becomes one heap object; its location is its first-visit number in a
# pre-order walk from the roots (tag, then its attribute map, then its child list, then the
# children).  The same walk over a decoded model heap gives the model's canonical form, so two
# canonical forms are equal iff the graphs are isomorphic INCLUDING all sharing between the
# input and every result.  str, HTML and _repr_html_-only objects are values (no identity).
FUEL = 64
DOC_VARIANTS = [({}, "lib", True), ({"lang": "en", "class_": HTML("c")}, "lib", True), ({}, None, False)]
STAMP = "_verif_payload"   # copies made by copy.copy carry the attribute along


def _val_py(c, visit):
    if isinstance(c, str):
        return [0, S(c)]
    if isinstance(c, HTML):
        return [1, S(c.as_string())]
    if isinstance(c, (Tag, TagList, TagAttrDict, MetadataNode, trees.CustomObj)):
        return [3, visit(c)]
    if isinstance(c, trees.ReprObj):
        return [2, S(c.s)]
    raise TypeError(f"cannot encode {type(c).__name__}")


def encode_py(roots):
    """canonical heap of the live graph below roots; returns (heap sx, root locations)"""
    seen: dict[int, int] = {}
    heap: list = []
    keep = []

    def visit(x):
        if id(x) in seen:
            return seen[id(x)]
        n = len(heap)
        seen[id(x)] = n
        keep.append(x)
        heap.append(None)
        if isinstance(x, Tag):
            al = visit(x.attrs)
            kl = visit(x.children)
            heap[n] = [0, S(x.name), 1 if x.add_ws else 0, al, kl]
        elif isinstance(x, TagAttrDict):
            heap[n] = [1, [[S(k), [1 if isinstance(v, HTML) else 0, S(str(v))]] for k, v in x.items()]]
        elif isinstance(x, TagList):
            items = list(x.data)
            heap[n] = [2, None]
            heap[n] = [2, [_val_py(c, visit) for c in items]]
        elif isinstance(x, MetadataNode):
            heap[n] = [3, getattr(x, STAMP)]
        elif isinstance(x, trees.CustomObj):
            sh = x.s if isinstance(x, trees.CustomReprObj) else None
            heap[n] = [4, sx_opt(None if sh is None else S(sh)), [_val_py(c, visit) for c in x.exp]]
        else:
            raise TypeError(f"cannot encode {type(x).__name__}")
        return n

    locs = [visit(r) for r in roots]
    return heap, locs


def canon_model(heap, roots):
    """the same walk over a decoded model heap"""
    seen: dict[int, int] = {}
    out: list = []

    def val(v):
        return [3, visit(v[1])] if v[0] == 3 else v

    def visit(l):
        if l in seen:
            return seen[l]
        n = len(out)
        seen[l] = n
        out.append(None)
        o = heap[l]
        if o[0] == 0:
            al = visit(o[3])
            kl = visit(o[4])
            out[n] = [0, o[1], o[2], al, kl]
        elif o[0] == 1:
            out[n] = o
        elif o[0] == 2:
            out[n] = [2, [val(v) for v in o[1]]]
        elif o[0] == 3:
            out[n] = o
        else:
            out[n] = [4, o[1], [val(v) for v in o[2]]]
        return n

    locs = [visit(r) for r in roots]
    return out, locs


def node_sx(c):
    """an identity-free tree (Codec.v node) of a live child, for the dependency tag table"""
    if isinstance(c, str):
        return [0, S(c)]
    if isinstance(c, HTML):
        return [1, S(c.as_string())]
    if isinstance(c, Tag):
        return [4, S(c.name), 1 if c.add_ws else 0,
                [[S(k), [1 if isinstance(v, HTML) else 0, S(str(v))]] for k, v in c.attrs.items()],
                [node_sx(k) for k in c.children]]
    if isinstance(c, MetadataNode):
        return [3, getattr(c, STAMP, 0)]
    if isinstance(c, trees.ReprObj):
        return [2, S(c.s)]
    raise TypeError(type(c).__name__)


def stamp_graph(roots):
    """give every metadata node reachable from roots (through tags, lists and the children of
    tagifiable objects) a payload: odd for dependencies, even for other metadata nodes"""
    metas, seen = [], set()

    def walk(x):
        if id(x) in seen:
            return
        seen.add(id(x))
        if isinstance(x, MetadataNode):
            metas.append(x)
        elif isinstance(x, Tag):
            walk(x.children)
        elif isinstance(x, TagList):
            for c in x.data:
                walk(c)
        elif isinstance(x, trees.CustomObj):
            for c in x.exp:
                walk(c)
    for r in roots:
        walk(r)
    for i, m in enumerate(metas):
        setattr(m, STAMP, 2 * i + 1 if isinstance(m, HTMLDependency) else 2 * i + 2)
    return metas


def dep_table(metas):
    """what C08 does not model, as data for the driver: name, version, and the tags each
    dependency contributes to <head> under every document variant.  None if a dependency
    cannot produce its tags (then document operations are left out for this graph)."""
    tbl = []
    for m in metas:
        if not isinstance(m, HTMLDependency):
            continue
        ver = str(m.version)
        try:
            nums = [int(p) for p in ver.split(".")]
        except ValueError:
            return None
        per_k = []
        for _, lib_prefix, incl in DOC_VARIANTS:
            r = safe_call(lambda: m.as_html_tags(lib_prefix=lib_prefix, include_version=incl))
            if r[0] != "ok":
                return None
            try:
                per_k.append([node_sx(c) for c in r[1]])
            except TypeError:
                return None
        tbl.append([getattr(m, STAMP), S(m.name), nums, S(ver), per_k])
    return tbl


def kw_sx():
    return [[[S(k), [1 if isinstance(v, HTML) else 0, S(str(v))]] for k, v in kw.items()] for kw, _, _ in DOC_VARIANTS]


CORR_OPS = ["tagify", "render", "html", "deps", "copy", "doc", "hoist"]


def corr_apply(op, target):
    """run one operation of the correspondence on the implementation -> (canonical result, new root or None)"""
    kind = op[0]
    if kind == "tagify":
        r = safe_call(lambda: target.tagify())
        return (("loc",), r[1]) if r[0] == "ok" else (r, None)
    if kind == "copy":
        r = safe_call(lambda: copy.copy(target))
        return (("loc",), r[1]) if r[0] == "ok" else (r, None)
    if kind == "render":
        r = safe_call(lambda: target.render())
        if r[0] != "ok":
            return r, None
        return ("render", ("ok", r[1]["html"]), [getattr(d, STAMP) for d in r[1]["dependencies"]]), None
    if kind == "html":
        return ("str", safe_call(lambda: target.get_html_string(op[1], op[2]))), None
    if kind == "deps":
        r = safe_call(lambda: target.get_dependencies())
        return (("deps", [getattr(d, STAMP) for d in r[1]]) if r[0] == "ok" else r), None
    if kind == "doc":
        kw, lib_prefix, incl = DOC_VARIANTS[op[1]]
        r = safe_call(lambda: HTMLDocument(target, **kw).render(lib_prefix=lib_prefix, include_version=incl))
        if r[0] != "ok":
            return r, None
        return ("render", ("ok", r[1]["html"]), [getattr(d, STAMP) for d in r[1]["dependencies"]]), None
    if kind == "hoist":
        _, lib_prefix, incl = DOC_VARIANTS[op[1]]
        r = safe_call(lambda: HTMLDocument._hoist_head_content(target, lib_prefix, incl))
        return (("loc",), r[1]) if r[0] == "ok" else (r, None)
    raise ValueError(op)


def op_sx(op, loc):
    kind = op[0]
    if kind == "tagify":
        return [0, loc]
    if kind == "render":
        return [1, loc]
    if kind == "html":
        return [2, loc, op[1], S(op[2])]
    if kind == "deps":
        return [3, loc]
    if kind == "copy":
        return [4, loc]
    if kind == "hoist":
        return [6, loc, op[1]]
    return [5, loc, op[1]]


def model_result(r):
    if r[0] == 0:
        return ("loc",), r[1]
    if r[0] == 1:
        return ("str", trees.res_decode(r[1], unS)), None
    if r[0] == 2:
        return ("deps", r[1]), None
    return ("render", trees.res_decode(r[1], unS), r[2]), None


def build_graph(d, shared_desc):
    shared = []
    for sd in shared_desc:          # a shared object may refer to the ones before it
        shared.append(build_x(sd, shared))
    x = build_x(d, shared)
    return x, shared


def corr_case(rng, d, shared_desc, with_doc=True, ops=None):
    """one correspondence case: build the graph, choose receivers and operations; returns what
    is needed to run the implementation and the model"""
    x, shared = build_graph(d, shared_desc)
    roots = [x] + [o for o in shared if isinstance(o, (Tag, TagList, MetadataNode, trees.CustomObj))]
    metas = stamp_graph(roots)
    tbl = dep_table(metas)
    heap0, rlocs = encode_py(roots)
    # receivers: any tag or child list of the graph (the root most often)
    recv = [i for i, o in enumerate(heap0) if o[0] in (0, 2)]
    # location -> live object, by the same walk
    live = _live_objects(roots)
    n_ops = 0 if ops is not None else rng.choice([1, 2, 3, 5])
    ops = [(tuple(o), l) for o, l in ops] if ops is not None else []
    html_tags = [i for i, o in enumerate(heap0) if o[0] == 0 and unS(o[1]) == "html"]
    for _ in range(n_ops):
        kind = rng.choice(CORR_OPS if (with_doc and tbl is not None) else CORR_OPS[:-2])
        loc = rlocs[0] if rng.random() < 0.6 else rng.choice(recv)
        if kind == "hoist":
            if not html_tags:
                kind = "copy"
            else:
                loc = rng.choice(html_tags)
                ops.append((("hoist", rng.randrange(0, len(DOC_VARIANTS))), loc))
                continue
        if kind == "html":
            ops.append((("html", rng.randrange(0, 3), rng.choice(["\n", "", "\r\n"])), loc))
        elif kind == "doc":
            ops.append((("doc", rng.randrange(0, len(DOC_VARIANTS))), loc))
        else:
            ops.append(((kind,), loc))
    return {"desc": d, "shared": shared_desc, "ops": ops, "roots": roots, "heap0": heap0, "rlocs": rlocs,
            "live": live, "tbl": tbl if tbl is not None else []}


def _live_objects(roots):
    """location -> live object, numbering exactly as encode_py does"""
    seen, order = {}, []

    def visit(x):
        if id(x) in seen:
            return
        seen[id(x)] = len(order)
        order.append(x)
        if isinstance(x, Tag):
            visit(x.attrs)
            visit(x.children)
        elif isinstance(x, TagList):
            for c in list(x.data):
                if isinstance(c, (Tag, TagList, TagAttrDict, MetadataNode, trees.CustomObj)):
                    visit(c)
        elif isinstance(x, trees.CustomObj):
            for c in x.exp:
                if isinstance(c, (Tag, TagList, TagAttrDict, MetadataNode, trees.CustomObj)):
                    visit(c)
    for r in roots:
        visit(r)
    return order


def corr_run_impl(case):
    """run the operations on the live graph; canonical outcome = per-operation results + the
    canonical heap of [input roots..., result roots...] afterwards"""
    results, new_roots = [], []
    for op, loc in case["ops"]:
        res, root = corr_apply(op, case["live"][loc])
        results.append(res)
        if root is not None:
            new_roots.append(root)
    try:
        heap1, locs1 = encode_py(case["roots"] + new_roots)
    except (TypeError, AttributeError) as e:
        return {"results": results, "error": f"{type(e).__name__}: {e}"}
    return {"results": results, "heap": heap1, "roots": locs1}


def corr_model_case(case):
    return [1, FUEL, case["heap0"], [op_sx(op, loc) for op, loc in case["ops"]], kw_sx(), case["tbl"]]


def corr_decode(case, m):
    if isinstance(m, tuple) or m == [999999, 999999]:
        return {"error": f"driver: {m}"}
    if m[0] == 1:
        return {"error": "model: None (out of fuel or ill-formed heap)"}
    heap, rs = m[1], m[2]
    results, new_roots = [], []
    for r in rs:
        res, root = model_result(r)
        results.append(res)
        if root is not None:
            new_roots.append(root)
    out = {"results": results, "prefix_unchanged": heap[:len(case["heap0"])] == case["heap0"]}
    out["heap"], out["roots"] = canon_model(heap, case["rlocs"] + new_roots)
    return out


def correspondence(ctx, name, cases):
    outs = run_model([corr_model_case(c) for c in cases], driver="c08")
    bad = []
    for c, m in zip(cases, outs):
        iv = corr_run_impl(c)
        mv = corr_decode(c, m)
        case_id = {"tree": c["desc"], "shared": c["shared"], "ops": [[list(op), loc] for op, loc in c["ops"]]}
        ok = ("error" not in iv and "error" not in mv and mv.get("prefix_unchanged")
              and iv["results"] == mv["results"] and iv["heap"] == mv["heap"] and iv["roots"] == mv["roots"])
        if not ok:
            bad.append({"case": case_id, "impl_output": _brief(iv), "model_output": _brief(mv)})
    ctx.corr_cases += len(cases)
    ctx.obligation(f"correspondence {name} ({len(cases)} cases)", not bad)
    if bad:
        bad.sort(key=lambda b: len(json.dumps(b["case"], default=repr)))
        ctx.extra[f"disagree_{name}"] = bad[:3]
    return bad


def _brief(v):
    d = dict(v)
    if "heap" in d and "error" not in d:
        d["heap"] = d["heap"][:60]
    return d


def canonical_dep_payload(kw, table):
    key = json.dumps(kw, sort_keys=True, default=repr)
    if key not in table:
        table[key] = 2 * len(table) + 1
    return table[key]


SHARED_DESC = [("G", "em", False, [("class", ("S", "s"))], [("T", "shared")]),
               ("M", {"name": "shared", "version": "1.0", "head": "<link>"}),
               ("H", "<raw>"),
               ("C", None, [("S", 0), ("T", "c"), ("S", 1)], True),
               ("M", None)]


def rand_graph(rng, depth, root, custom):
    """a description with aliasing: ('S', i) children refer to the shared objects (a tag, a
    dependency, an HTML value, a tagifiable object whose expansion holds the shared tag and the
    shared dependency, a plain metadata node)"""
    d = rand_tree(rng, depth, root, custom)

    def plain_heads(x):
        # dependency internals are outside the model: a head payload made of Tag objects would
        # be shared between the <head> of two documents built from the same dependency (F8's
        # territory); the correspondence graphs use text payloads
        if x[0] == "G":
            return ("G", x[1], x[2], x[3], [plain_heads(k) for k in x[4]])
        if x[0] == "C":
            return ("C", x[1], [plain_heads(k) for k in x[2]], x[3])
        if x[0] == "M" and x[1] is not None and isinstance(x[1].get("head"), tuple):
            return ("M", {**x[1], "head": "<title>t</title>"})
        return x
    d = plain_heads(d)

    def alias(x, top=False, in_obj=False):
        if not top and rng.random() < 0.18:
            # (an object's expansion holds no further object: the tagify() contract)
            return ("S", rng.choice([0, 1, 2, 4]) if in_obj else rng.randrange(0, len(SHARED_DESC)))
        if x[0] == "G":
            kids = [alias(k, False, in_obj) for k in x[4]]
            if rng.random() < 0.15:
                kids.insert(rng.randrange(0, len(kids) + 1),
                            ("S", rng.choice([0, 1, 2, 4]) if in_obj else rng.randrange(0, len(SHARED_DESC))))
            return ("G", x[1], x[2], x[3], kids)
        if x[0] == "C":
            return ("C", x[1], [alias(k, False, True) for k in x[2]], x[3])
        return x
    d = alias(d, True)
    if root == "html" and rng.random() < 0.5:
        kids = list(d[4])
        kids.insert(rng.randrange(0, len(kids) + 1),
                    ("G", "head", True, [], [("G", "title", True, [], [("T", "t")])]))
        d = ("G", d[1], d[2], d[3], kids)
    return d


def desc_from_json(d):
    k = d[0]
    if k == "G":
        return ("G", d[1], d[2], [(a[0], (a[1][0], a[1][1])) for a in d[3]], [desc_from_json(x) for x in d[4]])
    if k == "C":
        return ("C", d[1], [desc_from_json(x) for x in d[2]], d[3])
    if k == "M":
        if d[1] is None:
            return ("M", None)
        kw = dict(d[1])
        if isinstance(kw.get("head"), list):
            kw["head"] = desc_from_json(kw["head"])
        return ("M", kw)
    return tuple(d)


def small_graphs():
    """bounded-exhaustive scope for the thorough tier: every tree with up to two children drawn
    from a 7-leaf alphabet (with the shared objects), under three roots, every single operation"""
    leaves = [("T", "a<"), ("H", "<b>"), ("S", 0), ("S", 1), ("S", 3), ("S", 4),
              ("G", "head", True, [], [("S", 0)]), ("C", "r", [("S", 0)], True)]
    for root in ["div", "html", "body"]:
        for a in leaves:
            yield ("G", root, True, [("id", ("S", "x"))], [a])
            for b in leaves:
                yield ("G", root, root != "div", [], [a, ("G", "p", True, [], [b, a])])


def eq_variant(d, rng):
    """(what, variant): a description that must compare equal (what=None) or unequal"""
    k = rng.randrange(0, 8)
    if k == 0:
        return None, d
    if k == 1 and d[0] == "G":      # same attributes, another insertion order
        a = list(d[3])
        rng.shuffle(a)
        return None, ("G", d[1], d[2], a, d[4])
    if k == 2 and d[0] == "G":      # str <-> HTML with the same text, in children and attribute values
        def flip(x):
            if x[0] == "T" and rng.random() < 0.5:
                return ("H", x[1])
            if x[0] == "H" and rng.random() < 0.5:
                return ("T", x[1])
            if x[0] == "G":
                return ("G", x[1], x[2], [(key, ("H" if m == "S" else "S", v)) if rng.random() < 0.5 else (key, (m, v))
                                          for key, (m, v) in x[3]], [flip(c) for c in x[4]])
            return x
        return None, flip(d)
    if k == 3 and d[0] == "G" and d[4]:   # a change deep in the tree
        i = rng.randrange(0, len(d[4]))
        sub = eq_variant(d[4][i], rng)
        return sub[0], ("G", d[1], d[2], d[3], d[4][:i] + [sub[1]] + d[4][i + 1:])
    if k == 4 and d[0] in "TH":
        return "a child's text", (d[0], d[1] + "!")
    m = _perturb(d, rng)
    if m is not None:
        return m
    return None, d


def run(ctx: Ctx) -> None:
    rng = ctx.rng
    ctx.rule = ("Correspondence: random object graphs (depth <= 4; dependencies, HTML(), _repr_html_ objects, "
                "tagifiable objects, html/body/head roots) WITH ALIASING -- a shared tag, a shared dependency, a shared "
                "tagifiable object whose expansion holds both, a shared metadata node, each possibly in several places -- "
                "encoded as a heap (locations = first-visit numbers); 1..5 operations (tagify, render, get_html_string, "
                "get_dependencies, copy.copy, HTMLDocument.render in 3 argument variants, _hoist_head_content) on the root, "
                "a nested tag or a child list; the implementation's graph of [inputs, all results] and every returned "
                "string / dependency list are compared with the extracted heap model's (same canonical numbering, so all "
                "sharing between inputs and results is compared); == against the model of _equals_impl on pairs "
                "(identical, attribute order permuted, str<->HTML with the same text, one field changed); the string forms "
                "against the pure layer; thorough adds all trees with <= 2 levels over an 8-leaf alphabet under 3 roots "
                "x 10 operations run twice.  Oracle: per tree a random interleaving of 3..8 read-only operations on the "
                "tag or its child list, the whole reachable object graph snapshotted before and after each; id()-sets of "
                "original vs tagify() result; copy.copy owns its attribute map / child list; mutation of the copy and of "
                "the original through the public API; ==, str/repr/_repr_html_/render consistency.  Non-trivial = graph "
                "has aliasing, a dependency or an object; distinct = canonical description + operations.")
    ctx.assumptions = ["object identity and aliasing are observed on CPython (id(), is)",
                       "dependency internals (head child list, script/stylesheet/meta lists, source dict) are outside the "
                       "heap model (OMeta carries an opaque payload): known finding F8 lives there; the purity of "
                       "HTMLDependency.as_html_tags/as_dict/source_path_map/serialize_* and the filesystem effects of "
                       "save_html are covered by the snapshot oracle only",
                       "a tagifiable object's tagify() returns fresh, fully tagified nodes on every call (the Tagifiable "
                       "contract; the harness class does); its expansion holds no further tagifiable object",
                       "HTMLDocument's attribute update, dependency resolution and the tags a dependency contributes are "
                       "supplied to the extracted model through the models of C15 / C10 and as data"]
    ctx.proof()

    # ---- step B: correspondence with the extracted heap model ------------------------------
    cases = []
    for f in sorted(glob.glob(os.path.join(VERIF, "corpus", "C08", "*.json"))):
        with open(f, encoding="utf-8") as fh:
            for c in json.load(fh)["cases"]:
                cases.append(corr_case(rng, desc_from_json(c["tree"]), [desc_from_json(x) for x in c["shared"]],
                                       ops=c["ops"]))
    for it in range(ctx.budget(400, 9000)):
        root = rng.choice([None, None, None, "html", "html", "body", "head"])
        d = rand_graph(rng, rng.choice([1, 2, 2, 3, 4]), root, rng.random() < 0.4)
        cases.append(corr_case(rng, d, SHARED_DESC))
    if not ctx.quick:
        for d in small_graphs():
            for op in [("tagify",), ("render",), ("copy",), ("deps",), ("html", 1, "\n"), ("doc", 0), ("doc", 1), ("doc", 2),
                       ("hoist", 0), ("hoist", 2)]:
                if op[0] == "hoist" and d[1] != "html":
                    continue
                c = corr_case(rng, d, SHARED_DESC, ops=[])
                c["ops"] = [(op, c["rlocs"][0]), (op, c["rlocs"][0])]
                cases.append(c)
    ophist: dict[str, int] = {}
    for c in cases:
        for op, loc in c["ops"]:
            key = op[0] + (" on a TagList" if c["heap0"][loc][0] == 2 else "")
            ophist[key] = ophist.get(key, 0) + 1
        shared_used = "'S'" in repr(c["desc"])
        ctx.count(("heap", c["desc"], [[list(o), l] for o, l in c["ops"]]), shared_used or "'M'" in repr(c["desc"]),
                  "heap correspondence, graph with aliasing" if shared_used else "heap correspondence, tree")
    ctx.extra["heap_correspondence_operations"] = ophist
    correspondence(ctx, "heap operations (tagify, render, get_html_string, get_dependencies, copy, HTMLDocument.render, _hoist_head_content) "
                        "on graphs with aliasing", cases)

    # == against the model of _equals_impl
    eq_cases, payloads = [], {}
    for it in range(ctx.budget(600, 12000)):
        d = trees.rand_tree(rng, rng.choice([0, 1, 2, 3]), leaves="TTHHD", names="bbivsc", custom=False)
        def fixdeps(x):
            if x[0] == "G":
                return ("G", x[1], x[2], x[3], [fixdeps(k) for k in x[4]])
            if x[0] == "M":
                return ("M", rand_dep(rng))
            return x
        d = fixdeps(d)
        what, v = eq_variant(d, rng)
        if rng.random() < 0.1:
            what, v = "everything", fixdeps(trees.rand_tree(rng, 1, leaves="TH", custom=False))
        eq_cases.append((d, v, what))

    def dep_payload(kw):
        return canonical_dep_payload(structure(HTMLDependency(**{k: (build_x(v, []) if isinstance(v, tuple) else v)
                                                                 for k, v in kw.items()})), payloads)
    outs = run_model([[2, trees.to_sx(a, dep_payload), trees.to_sx(b, dep_payload)] for a, b, _ in eq_cases], driver="c08")
    bad = []
    for (a, b, what), m in zip(eq_cases, outs):
        ctx.count(("eq", a, b), True, "== correspondence")
        iv = safe_call(lambda: build_x(a, []) == build_x(b, []))
        mv = ("ok", bool(m)) if m in (0, 1) else ("!", m)
        if iv != mv:
            bad.append({"case": [a, b], "impl_output": iv, "model_output": mv})
        # oracle, from the property text: equal variants compare equal, different ones do not
        if what is None and iv != ("ok", True) and structure(build_x(a, [])) == structure(build_x(b, [])):
            ctx.violation("== is false for structurally identical tags", [a, b], {"impl_output": iv})
        if what is not None and what != "everything" and iv == ("ok", True):
            ctx.violation(f"== is true for tags that differ in {what}", [a, b], {"impl_output": iv})
    ctx.corr_cases += len(eq_cases)
    ctx.obligation(f"correspondence == vs the model of _equals_impl ({len(eq_cases)} cases)", not bad)
    if bad:
        ctx.extra["disagree_eq"] = bad[:3]

    # the four string forms against the pure-layer function
    form_cases = []
    for it in range(ctx.budget(300, 5000)):
        form_cases.append((trees.rand_tree(rng, rng.choice([0, 1, 2, 3]), leaves="TTHRM", names="bbivsc",
                                           custom=rng.random() < 0.4), rng.random() < 0.3))
    outs = run_model([[3, 1 if il else 0, ([trees.to_sx(k, lambda p: 0) for k in d[4]] if il else [trees.to_sx(d, lambda p: 0)])]
                      for d, il in form_cases], driver="c08")
    bad = []
    for (d, il), m in zip(form_cases, outs):
        ctx.count(("forms-model", d, il), True, "string forms correspondence")
        x = build(d)
        if il:
            x = TagList(*x.children)
        iv = [safe_call(lambda: str(x)), safe_call(lambda: repr(x)), safe_call(lambda: x._repr_html_())]
        mv = [trees.res_decode(o[0], unS) if isinstance(o, list) and len(o) == 1 else ("!", o) for o in m] \
            if isinstance(m, list) and len(m) == 3 else ("!", m)
        if iv != mv:
            bad.append({"case": [d, il], "impl_output": iv, "model_output": mv})
    ctx.corr_cases += len(form_cases)
    ctx.obligation(f"correspondence str/repr/_repr_html_ vs the pure layer ({len(form_cases)} cases)", not bad)
    if bad:
        ctx.extra["disagree_forms"] = bad[:3]

    n = ctx.budget(1000, 20000)
    for it in range(n):
        root = rng.choice([None, None, None, "html", "body", "head"])
        custom = rng.random() < 0.3
        d = rand_tree(rng, rng.choice([1, 2, 3, 4]), root, custom)
        shared = [Tag("em", "shared"), HTMLDependency("shared", "1.0", head="<link>"), HTML("<raw>")]
        x = build_x(d, shared)
        if root == "html" and rng.random() < 0.5:
            x.children.insert(rng.randrange(0, len(x.children) + 1), Tag("head", Tag("title", "t")))
        ops = [rng.choice(OPS) for _ in range(rng.choice([3, 4, 5, 8]))]
        nontriv = ("M" in repr(d) or "C" in repr(d))
        ctx.count(("pure", d, ops), nontriv, "interleaving of read-only operations")
        before = snapshot([x, shared])
        results = {}
        for op in ops:
            # the receiver is the tag or (one time in four) its child list, a TagList
            recv = x.children if rng.random() < 0.25 else x
            r = safe_call(lambda: apply_op(op, recv, rng))
            after = snapshot([x, shared])
            if after != before:
                ctx.violation(f"{op} changed an object reachable from its receiver", {"tree": d, "ops": ops, "op": op},
                              {"before": _first_diff(before, after)})
                before = after
            if op == "copy" and r[0] == "ok":
                _check_copy(ctx, recv, r[1], d, rng, lambda: snapshot([x, shared]))
            if op == "tagify" and r[0] == "ok" and recv is not x:
                common = set(mutable_ids(recv)) & set(mutable_ids(r[1]))
                if common:
                    ctx.violation("tagify() result shares a tag, child list, attribute map or metadata node object with the original",
                                  {"tree": d, "receiver": "child list"}, {})
            if op in ("str", "repr", "render") and r[0] == "ok":
                v = r[1]["html"] if op == "render" else r[1]
                key = "s" if recv is x else "l"
                results.setdefault(key, v)
                if results[key] != v:
                    ctx.violation("str(x), repr(x), x.render()['html'] differ or change between calls",
                                  {"tree": d, "ops": ops}, {"first": results[key], "now": v})
        # dependency methods are read-only too
        for dep in all_deps(x, [])[:3]:
            f = rng.choice(DEP_OPS)
            safe_call(lambda: f(dep))
            after = snapshot([x, shared])
            if after != before:
                ctx.violation("an HTMLDependency as_html_tags/as_dict/source_path_map/serialize call changed an object",
                              {"tree": d}, {"before": _first_diff(before, after)})
                before = after
        # ---- tagify: equal when nothing expands, fixed point, independent ------------------
        r = safe_call(lambda: x.tagify())
        if r[0] != "ok":
            continue
        y = r[1]
        bare = "'M', None" in repr(d)   # bare MetadataNode objects compare by identity
        if not custom and (structure(x) != structure(y) or (not bare and not (x == y))):
            ctx.violation("tagify() of a tree without tagifiable objects does not equal the original", {"tree": d}, {})
        z = y.tagify()
        if structure(z) != structure(y) or str(z) != str(y) or (not bare and not (z == y)):
            ctx.violation("tagify() is not a fixed point of tagify()", {"tree": d}, {})
        a, b = mutable_ids(x), mutable_ids(y)
        common = set(a) & set(b)
        if common:
            ctx.violation("tagify() result shares a tag, child list, attribute map or metadata node object with the original",
                          {"tree": d}, {"shared": sorted({a[i] for i in common})})
        # dependency internals
        for dx, dy in zip(all_deps(x, []), all_deps(y, [])):
            if (dx.head is not None and dx.head is dy.head) or (dx.script and dx.script is dy.script):
                ctx.violation(WHAT_DEP_SHARE, {"tree": d}, {"dep": dx.name})
                break
        # mutate the copy through the public API; the original must not change
        before = snapshot([x, shared])
        _mutate(y, rng)
        if snapshot([x, shared]) != before:
            ctx.violation("mutating the tagify() copy through the public API changed the original", {"tree": d}, {})
        y2 = x.tagify()
        before2 = snapshot([y2])
        _mutate(x, rng)
        if snapshot([y2]) != before2:
            ctx.violation("mutating the original through the public API changed an earlier tagify() copy", {"tree": d}, {})

    dep_method_histories(ctx)

    # ---- consistency of the four string forms, and == ------------------------------------
    for it in range(ctx.budget(800, 10000)):
        d = rand_tree(rng, rng.choice([1, 2, 3]), None, False)
        x = build_x(d, [Tag("em"), HTMLDependency("s", "1"), HTML("r")])
        ctx.count(("forms", d), True, "string forms and equality")
        forms = [safe_call(lambda: str(x)), safe_call(lambda: repr(x)), safe_call(lambda: x._repr_html_()),
                 safe_call(lambda: x.render()["html"])]
        if any(f != forms[0] for f in forms):
            ctx.violation("str(x), repr(x), x._repr_html_() and x.render()['html'] are not the same string", d,
                          {"forms": forms})
        tl = TagList(*x.children)
        lf = [safe_call(lambda: str(tl)), safe_call(lambda: repr(tl)), safe_call(lambda: tl._repr_html_()),
              safe_call(lambda: tl.render()["html"])]
        if any(f != lf[0] for f in lf):
            ctx.violation("TagList string forms differ", d, {"forms": lf})
        # == : structural
        if "'R'" in repr(d) or ("'M', None" in repr(d)):
            continue  # repr objects / bare metadata nodes compare by identity (harness objects)
        x2 = build_x(d, [Tag("em"), HTMLDependency("s", "1"), HTML("r")])
        if not (x == x2):
            ctx.violation("== is false for structurally identical tags", d, {})
        m = _perturb(d, rng)
        if m is not None:
            x3 = build_x(m[1], [Tag("em"), HTMLDependency("s", "1"), HTML("r")])
            if x == x3:
                ctx.violation(f"== is true for tags that differ in {m[0]}", [d, m[1]], {})
        if x == TagList(*x.children) or x == str(x) or x == HTMLDependency("a", "1"):
            ctx.violation("== is true for objects of different kinds", d, {})


def _check_copy(ctx, orig, cp, d, rng, snap):
    """copy.copy(x): a new object with its own attribute map / child list (so that assigning to
    the copy's fields, attributes or child list cannot touch the original); the children are
    shared (a shallow copy)"""
    if cp is orig or (isinstance(orig, Tag) and (cp.attrs is orig.attrs or cp.children is orig.children)) \
            or (isinstance(orig, TagList) and cp.data is orig.data):
        ctx.violation("copy.copy(x) shares its attribute map or child list object with x", {"tree": d}, {})
        return
    if structure(cp) != structure(orig):
        ctx.violation("copy.copy(x) is not structurally identical to x", {"tree": d}, {})
    before = snap()
    if isinstance(cp, Tag):
        cp.append("MUT", Tag("mut"))
        cp.attrs["data-mut"] = "1"
        cp.name = cp.name + "x"
        cp.insert(0, HTML("<mut>"))
        if len(cp.children) > 2:
            cp.children.pop()
    else:
        cp.append("MUT")
        cp.insert(0, Tag("mut"))
    if snap() != before:
        ctx.violation("mutating the fields, attributes or child list of copy.copy(x) changed x", {"tree": d}, {})


def dep_method_histories(ctx: Ctx) -> None:
    """The HTMLDependency read-only methods must give, in ANY call order and however often they are
    repeated, what they give when called first on a fresh object (no process-wide memory): package-
    and directory-sourced dependencies sharing names / versions / sources in all combinations."""
    import posixpath
    rng = ctx.rng
    pkgdir = os.path.dirname(htmltools.__file__)
    sources = [{"package": "htmltools", "subdir": "lib/react"}, {"package": "htmltools", "subdir": "lib/react-dom"},
               {"package": "htmltools", "subdir": "lib"}, {"subdir": pkgdir}, {"href": "https://cdn.x/y"}, None]
    for _ in range(ctx.budget(150, 2500)):
        deps = []
        for _ in range(rng.choice([2, 3, 4])):
            src = rng.choice(sources)
            kw = {"name": rng.choice(["lib", "lib", "other"]), "version": rng.choice(["1.0", "2.0", "1.0"]),
                  "source": None if src is None else dict(src)}
            if src is not None:
                kw["script"] = {"src": "react.production.min.js"}
            deps.append((kw, HTMLDependency(**kw)))
        calls = []
        for _ in range(rng.choice([3, 5, 8])):
            i = rng.randrange(len(deps))
            calls.append((i, rng.choice(["spm", "as_dict", "tags"]), rng.choice([None, "lib", "a/b"]), rng.random() < 0.5))
        ctx.count(("dep-history", [k for k, _ in deps], calls), True, "dependency method call histories")
        for i, what, prefix, iv in calls:
            kw, d = deps[i]
            fresh = HTMLDependency(**{**kw, "source": None if kw["source"] is None else dict(kw["source"])})
            f = {"spm": lambda o: o.source_path_map(lib_prefix=prefix, include_version=iv),
                 "as_dict": lambda o: o.as_dict(lib_prefix=prefix, include_version=iv),
                 "tags": lambda o: str(o.as_html_tags(lib_prefix=prefix, include_version=iv))}[what]
            got = safe_call(lambda: f(d))
            # independent expectation for source_path_map
            if what == "spm" and got[0] == "ok":
                src = kw["source"]
                if src is None:
                    want = {"source": "", "href": ""}
                elif "href" in src:
                    want = {"source": "", "href": src["href"]}
                else:
                    base = os.path.join(pkgdir, src["subdir"]) if "package" in src else os.path.realpath(src["subdir"])
                    href = kw["name"] + ("-" + kw["version"] if iv else "")
                    want = {"source": base, "href": posixpath.join(prefix, href) if prefix else href}
                if got[1] != want:
                    ctx.violation("source_path_map() result depends on what was called before (or is not the source "
                                  "directory / href of THIS dependency)", {"deps": [k for k, _ in deps], "calls": calls},
                                  {"impl_output": got[1], "expected": want})
                    break
            # and in general: same as a fresh object asked first ... in a process where nothing else was asked:
            # approximated by asking an equal fresh object now and requiring equality with an independent copy
            ref = safe_call(lambda: f(fresh))
            if repr(got) != repr(ref):
                ctx.violation("an HTMLDependency method gives a different result on an equal, freshly built dependency",
                              {"deps": [k for k, _ in deps], "calls": calls}, {"impl_output": repr(got)[:300], "fresh": repr(ref)[:300]})
                break


def _first_diff(a, b, path=""):
    if type(a) != type(b):
        return f"{path}: {str(a)[:80]} -> {str(b)[:80]}"
    if isinstance(a, (list, tuple)):
        if len(a) != len(b):
            return f"{path}: length {len(a)} -> {len(b)}: {str(a)[:120]} -> {str(b)[:120]}"
        for i, (p, q) in enumerate(zip(a, b)):
            if p != q:
                return _first_diff(p, q, f"{path}/{i}")
        return None
    return f"{path}: {str(a)[:80]} -> {str(b)[:80]}" if a != b else None


def _mutate(t, rng):
    """a few public-API mutations at random places of a tag tree"""
    tags = []
    def walk(x):
        if isinstance(x, Tag):
            tags.append(x)
            for c in x.children:
                walk(c)
    walk(t)
    for _ in range(3):
        u = rng.choice(tags)
        k = rng.randrange(0, 6)
        if k == 0:
            u.append("MUT", Tag("mut"))
        elif k == 1:
            u.attrs["data-mut"] = "1"
        elif k == 2:
            u.add_class("mut")
        elif k == 3 and len(u.children):
            u.children.pop()
        elif k == 4:
            u.name = u.name + "x"
            u.add_ws = not u.add_ws
        elif k == 5:
            u.insert(0, HTML("<mut>"))
    for c in list(t.children):
        if isinstance(c, HTMLDependency):
            c.name = c.name + "-mut"
            c.all_files = not c.all_files


def _perturb(d, rng):
    """a structurally different copy: (what differs, description)"""
    if d[0] != "G":
        return None
    k = rng.randrange(0, 5)
    if k == 0:
        return ("tag name", ("G", d[1] + "q", d[2], d[3], d[4]))
    if k == 1:
        return ("whitespace flag", ("G", d[1], not d[2], d[3], d[4]))
    if k == 2:
        return ("the set of attributes", ("G", d[1], d[2], d[3] + [("zz", ("S", "1"))], d[4]))
    if k == 3:
        if d[3]:
            a0 = d[3][0]
            return ("an attribute value", ("G", d[1], d[2], [(a0[0], (a0[1][0], a0[1][1] + "!"))] + d[3][1:], d[4]))
        return None
    return ("the structure of the children", ("G", d[1], d[2], d[3], d[4] + [("T", "extra")]))


def replay(ctx: Ctx, path: str) -> None:
    """re-run the recorded input (the step that reported it runs that single case)"""
    ctx.load_replay(path)
    run(ctx)

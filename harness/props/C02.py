"""C02  Plain-text children are inert data."""
from __future__ import annotations

import html as pyhtml
import itertools

from ..common import Ctx, S, unS, differential
from .. import trees
from ..trees import build, to_sx, safe_call, res_decode

import htmltools
from htmltools import HTML, Tag, TagList

SPEC_TEXT = {"&": "&amp;", "<": "&lt;", ">": "&gt;"}


def spec_escape(s: str) -> str:
    """independent transcription of the statement (not of the code)"""
    return "".join(SPEC_TEXT.get(c, c) for c in s)


def oracle_escape(s: str, out) -> str | None:
    if not isinstance(out, str):
        return f"html_escape returned {type(out).__name__}"
    if out != spec_escape(s):
        return "output is not the per-character map & < > -> &amp; &lt; &gt;"
    if "<" in out or ">" in out:
        return "escaped text contains < or >"
    if pyhtml.unescape(out) != s and "&" not in s:
        # (html.unescape decodes more references than the three; only compare when the
        # original has no & of its own that could combine with following text)
        return "html.unescape(output) != input"
    return None


def text_to_html(d, raw_parent=False):
    """the same tree with every plain-text leaf outside script/style replaced by
    HTML(spec_escape(text)); raw_parent: the enclosing sibling list is that of a
    script/style tag (an expansion is spliced into its parent's list)"""
    k = d[0]
    if k == "T":
        return d if raw_parent else ("H", spec_escape(d[1]))
    if k == "G":
        raw = d[1] in ("script", "style")
        return ("G", d[1], d[2], d[3], [text_to_html(x, raw) for x in d[4]])
    if k == "C":
        return ("C", d[1], [text_to_html(x, raw_parent) for x in d[2]], d[3])
    return d


def build_variant(d, rng):
    """build a tag adding the children in a randomly chosen way"""
    if d[0] != "G":
        return build(d)
    _, name, ws, attrs, kids = d
    # plain-text children whose text is that of a number are sometimes the number itself
    kb = [trees.mk_child_text(k[1]) if k[0] == "T" else build_variant(k, rng) for k in kids]
    mode = rng.choice(["ctor", "nested", "append", "extend", "insert", "mixed", "iadd", "children_append", "with",
                       "append_pairs"])
    if mode == "ctor":
        t = Tag(name, *kb, _add_ws=ws)
    elif mode == "nested":
        t = Tag(name, [kb[:1], (kb[1:],)], None, _add_ws=ws)
    elif mode == "append":
        t = Tag(name, _add_ws=ws)
        for k in kb:
            t.append(k)
    elif mode == "extend":
        t = Tag(name, _add_ws=ws)
        t.extend(kb)
    elif mode == "iadd":
        t = Tag(name, _add_ws=ws)
        for k in kb:
            t.children += [k]
    elif mode == "children_append":
        t = Tag(name, _add_ws=ws)
        for k in kb:
            t.children.append(k)
    elif mode == "append_pairs":
        t = Tag(name, _add_ws=ws)
        for j in range(0, len(kb), 2):
            t.append(*kb[j:j + 2])
    elif mode == "with":
        import sys
        t = Tag(name, _add_ws=ws)
        old = sys.displayhook
        try:
            sys.displayhook = lambda v: None
            with t:
                for k in kb:
                    sys.displayhook(k)
        finally:
            sys.displayhook = old
    elif mode == "insert":
        t = Tag(name, _add_ws=ws)
        for k in reversed(kb):
            t.insert(0, k)
    else:
        t = Tag(name, *kb[:1], _add_ws=ws)
        if len(kb) > 1:
            t.children.extend(TagList(*kb[2:]))
            t.insert(1, [kb[1]])
    for key, (m, v) in attrs:
        dict.__setitem__(t.attrs, key, HTML(v) if m == "H" else v)
    return t


def run(ctx: Ctx) -> None:
    rng = ctx.rng
    ctx.rule = ("code points: every scalar value below a bound one at a time (quick 0x3000; thorough all "
                "1 112 064) plus random ones; strings: all strings up to length 4 (thorough 5) over "
                "& < > ; # a \" plus random strings over a metacharacter-heavy alphabet; trees: random "
                "trees with text in every child position, children added by constructor / nested lists / "
                "append / extend / insert / tagify expansion. A case is non-trivial when its text contains "
                "at least one of & < > ; distinct = distinct canonical inputs.")
    ctx.assumptions = [
        "the extracted OCaml model behaves as the Gallina model (ExtrOcamlBasic only)",
        "Python's str is a sequence of code points; html.unescape is a correct reference decoder",
    ]
    ctx.proof()

    # ---- B/C 1: html_escape on strings ---------------------------------------------
    strs: list[str] = []
    bound = 0x3000 if ctx.quick else 0x110000
    singles = [chr(c) for c in range(0, min(bound, 0x3000)) if not 0xD800 <= c <= 0xDFFF]
    strs += singles
    if not ctx.quick:
        cps = [c for c in range(0x3000, 0x110000) if not 0xD800 <= c <= 0xDFFF]
        for i in range(0, len(cps), 48):
            strs.append("".join(chr(c) for c in cps[i:i + 48]) + "<")
    strs += [trees.rand_char(rng) for _ in range(ctx.budget(3000, 20000))]
    alpha = "&<>;#a\""
    for n in range(0, ctx.budget(4, 5) + 1):
        strs += ["".join(t) for t in itertools.product(alpha, repeat=n)]
    strs += [trees.rand_text(rng, 30) for _ in range(ctx.budget(3000, 60000))]
    strs += ["&amp;", "&&", "<<>>", "a&b<c>d", "&lt;script&gt;", "\x00<", "&#38;", "<" * 50]

    def nontriv(s):
        return any(c in s for c in "&<>")

    differential(
        ctx, "html_escape(text)", strs,
        to_sx=lambda s: [1, S(s), 0],
        impl=lambda s: htmltools.html_escape(s),
        decode=unS,
        oracle=oracle_escape,
        nontrivial=nontriv,
        kind=lambda s: "single code point" if len(s) == 1 else "string")
    # the exported function is the one used by the renderer
    from htmltools import _util, _core
    ctx.obligation("htmltools.html_escape is htmltools._util.html_escape and is what _core uses",
                   htmltools.html_escape is _util.html_escape and _core.html_escape is _util.html_escape)

    # ---- B/C 2: text children in trees, every path -----------------------------------
    cases = []
    for _ in range(ctx.budget(2500, 40000)):
        d = trees.rand_tree(rng, rng.choice([1, 2, 2, 3, 4]), leaves="TTTHRM", names="bbivsckk")
        cases.append((d, rng.randrange(0, 4), rng.choice(["\n", "\r\n", "", " "])))

    def impl_tree(c):
        d, i, eol = c
        return safe_call(lambda: build(d).get_html_string(i, eol))

    def oracle_tree(c, out):
        d, i, eol = c
        want = safe_call(lambda: build(text_to_html(d)).get_html_string(i, eol))
        if out != want:
            return "a text child is not emitted as its per-character escaped form"
        # ... on every way of obtaining the markup
        m = trees.routes_disagree(build(d, share=True))
        if m:
            return "a text child is not emitted as its per-character escaped form on every rendering route: " + m
        return None

    differential(
        ctx, "Tag.get_html_string (text children)", cases,
        to_sx=lambda c: [2, to_sx(c[0]), c[1], S(c[2])],
        impl=impl_tree,
        decode=lambda m: res_decode(m, unS),
        oracle=oracle_tree,
        nontrivial=lambda c: "T" in trees.kinds_in(c[0]),
        kind=lambda c: "tree")

    # ---- C 3: every way of adding a child (oracle only; tagify expansion included) ----
    bad = None
    n = 0
    for _ in range(ctx.budget(2000, 30000)):
        d = trees.rand_tree(rng, rng.choice([1, 2, 3]), leaves="TTTHM", names="bbivsckk", custom=True)
        n += 1
        ctx.count(("variant", d), "T" in trees.kinds_in(d), "tree built by mixed child operations")
        st = rng.getstate()
        got = safe_call(lambda: build_variant(d, rng).tagify().get_html_string())
        rng.setstate(st)
        want = safe_call(lambda: build_variant(text_to_html(d), rng).tagify().get_html_string())
        if got != want:
            ctx.violation("text child added by append/extend/insert/expansion is not emitted as its "
                          "escaped form", d, {"impl_output": got, "expected": want})
    # numbers are rendered as their str() text under the same rule
    for x in [0, 7, -3, 1.5, 1e22, float("inf"), -0.0, 10**30, True]:
        got = safe_call(lambda: Tag("div", x, "a", x).get_html_string())
        want = safe_call(lambda: Tag("div", HTML(spec_escape(str(x))), "a", HTML(spec_escape(str(x)))).get_html_string())
        ctx.count(("number", repr(x)), True, "number child")
        if got != want:
            ctx.violation("number child is not rendered as its str() text", repr(x),
                          {"impl_output": got, "expected": want})


def replay(ctx: Ctx, path: str) -> None:
    """re-run the recorded input (the step that reported it runs that single case)"""
    ctx.load_replay(path)
    run(ctx)
